"""Static extraction of the warning catalogue and of every warning-emitting call site of the
package source (AST scan of VERIF_REPO/myst_parser).  The result feeds Warnings.tla as
constants: it is an extraction step, not a verdict."""
from __future__ import annotations

import ast
from pathlib import Path


def catalogue(repo: Path) -> dict[str, str]:
    """MystWarnings member name -> value, read from the source (no import)"""
    tree = ast.parse((repo / "myst_parser" / "warnings_.py").read_text())
    out = {}
    for node in ast.walk(tree):
        if isinstance(node, ast.ClassDef) and node.name == "MystWarnings":
            for st in node.body:
                if isinstance(st, ast.Assign) and len(st.targets) == 1 and isinstance(st.targets[0], ast.Name) \
                        and isinstance(st.value, ast.Constant) and isinstance(st.value.value, str):
                    out[st.targets[0].id] = st.value.value
    return out


def _subtype_expr(e, cat):
    """-> (how, value): how in enum | enum_value | enum_name | literal | dynamic"""
    if isinstance(e, ast.Constant) and isinstance(e.value, str):
        return "literal", e.value
    if isinstance(e, ast.Attribute):
        # MystWarnings.X
        if isinstance(e.value, ast.Name) and e.value.id == "MystWarnings":
            return "enum", cat.get(e.attr, f"<no member {e.attr}>")
        # MystWarnings.X.value / .name
        if isinstance(e.value, ast.Attribute) and isinstance(e.value.value, ast.Name) and e.value.value.id == "MystWarnings":
            member = e.value.attr
            if e.attr == "value":
                return "enum_value", cat.get(member, f"<no member {member}>")
            if e.attr == "name":
                return "enum_name", member
        # <expr>.value on a variable that holds a member
        if e.attr == "value":
            return "dynamic_member", ""
    return "dynamic", ""


def _is_enum_expr(e):
    return (isinstance(e, ast.Attribute) and isinstance(e.value, ast.Name) and e.value.id == "MystWarnings") or \
           (isinstance(e, ast.Attribute) and isinstance(e.value, ast.Attribute) and isinstance(e.value.value, ast.Name)
            and e.value.value.id == "MystWarnings")


def scan(repo: Path) -> list[dict]:
    cat = catalogue(repo)
    sites = []
    for path in sorted((repo / "myst_parser").rglob("*.py")):
        rel = str(path.relative_to(repo))
        try:
            tree = ast.parse(path.read_text())
        except SyntaxError:
            continue
        # enclosing function names
        parents = {}
        for node in ast.walk(tree):
            for ch in ast.iter_child_nodes(node):
                parents[ch] = node

        def func_of(n):
            while n in parents:
                n = parents[n]
                if isinstance(n, (ast.FunctionDef, ast.AsyncFunctionDef)):
                    return n.name
            return "<module>"
        for node in ast.walk(tree):
            if not isinstance(node, ast.Call):
                continue
            f = node.func
            fname = f.attr if isinstance(f, ast.Attribute) else (f.id if isinstance(f, ast.Name) else "")
            kws = {k.arg: k.value for k in node.keywords if k.arg}
            site = None
            if fname == "create_warning" or fname == "log_warning":
                # the defining modules forward their parameters: skip the forwarding calls
                sub = kws.get("subtype")
                if sub is None:
                    enum_args = [a for a in node.args if _is_enum_expr(a)]
                    if enum_args:
                        sub = enum_args[0]
                    else:
                        # positional: create_warning(document, message, subtype) / self.create_warning(message, subtype)
                        idx = 2 if isinstance(f, ast.Name) else 1
                        sub = node.args[idx] if len(node.args) > idx else None
                if sub is None:
                    continue
                how, val = _subtype_expr(sub, cat)
                wt = kws.get("wtype")
                wtype = "myst"
                if wt is not None:
                    wtype = wt.value if isinstance(wt, ast.Constant) and isinstance(wt.value, str) else "<dynamic>"
                site = {"api": fname, "type": wtype, "subtype": val, "how": how}
            elif fname == "warning" and isinstance(f, ast.Attribute) and isinstance(f.value, ast.Name) \
                    and f.value.id.lower() in ("logger", "sphinx_logger"):
                if "type" in kws or "subtype" in kws:
                    t = kws.get("type")
                    wtype = t.value if isinstance(t, ast.Constant) else "<dynamic>"
                    how, val = _subtype_expr(kws["subtype"], cat) if "subtype" in kws else ("missing", "")
                    site = {"api": "logger.warning", "type": wtype, "subtype": val, "how": how}
                else:
                    site = {"api": "logger.warning", "type": "", "subtype": "", "how": "untyped"}
            elif fname == "warning" and isinstance(f, ast.Name) and node.args and _is_enum_expr(node.args[0]):
                how, val = _subtype_expr(node.args[0], cat)     # warning(MystWarnings.X, msg) callback
                site = {"api": "warning-callback", "type": "myst", "subtype": val, "how": how}
            elif fname == "ParseWarnings":
                sub = kws.get("type") or (node.args[2] if len(node.args) > 2 else None)
                if sub is None:
                    site = {"api": "ParseWarnings", "type": "myst", "subtype": cat.get("DIRECTIVE_PARSING", "?"), "how": "enum"}
                else:
                    how, val = _subtype_expr(sub, cat)
                    site = {"api": "ParseWarnings", "type": "myst", "subtype": val, "how": how}
            elif fname == "is_suppressed_warning" or fname == "_is_suppressed_warning":
                if len(node.args) >= 2 and all(isinstance(a, ast.Constant) for a in node.args[:2]):
                    site = {"api": "is_suppressed_warning", "type": node.args[0].value, "subtype": node.args[1].value, "how": "literal"}
            if site:
                site.update(file=rel, line=node.lineno, func=func_of(node))
                sites.append(site)
    return sites
