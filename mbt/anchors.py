"""Shared harness of C09 (local '#target' links) and C10 (heading anchors): Anchors.tla."""
from __future__ import annotations

import io
import random
import contextlib
import tempfile
import os

from . import tlc
from .frontends import c2s, s2c
from .pool import pmap

TITLES = [("a", 1), ("a", 2), ("a-1", 1), ("b", 2), ("A b", 3), ("É x", 2), ("a\nb", 1)]     # (a\nb: a setext heading over two lines)
# target forms: "next" = (name)= before whatever follows, "quote" = before a block quote holding a titled admonition,
# "attr" = an attribute id on a paragraph ({#name}), "dirname" = the :name: option of a titled directive
TARGETS = [("x", "next"), ("a", "next"), ("Tt", "next"), ("w", "quote"), ("Kp", "attr"), ("dn", "dirname"), ("z", "comment")]
LINKS = ([(n, "text") for n in ("a", "a-1", "a-2", "a-1-1", "b", "a-b", "x", "zz", "A", "X", "tt", "Tt", "é-x", "w", "ab")]
         + [(n, "text") for n in ("Kp", "kp", "dn", "DN", "z")]
         + [(n, "empty") for n in ("a", "x", "zz", "b", "Tt", "a-1", "w", "é-x", "KP", "dn", "z")]
         + [(n, "auto") for n in ("a", "x", "é-x", "zz", "w")]
         + [("", "text"), ("", "empty")])        # a bare '#': the empty name (no target has it: one warning)


REV_LINKS = [(n, f) for n in ("a", "1-a", "b", "b A", "B a", "x", "zz") for f in ("text", "empty")]


def vocab(focus="C09"):
    """C09 (link resolution) needs every target form; C10 (the anchors themselves) the titles and two plain targets"""
    targets = TARGETS if focus == "C09" else TARGETS[:2]
    titles = TITLES if focus == "C10" else [t for t in TITLES if t[0] != "a\nb"]
    # (a footnote whose label equals a heading's slug: the label is no link target)
    return [["h", s2c(t), lv] for t, lv in titles] + [["t", s2c(n), f] for n, f in targets] + [["f", s2c("a"), "note"], ["f", s2c("b"), "note"]]


def consts(maxitems, depths, slugfn="default", dev_suffix=False, dev_case=False, dev_nostrip=False):
    return {"ItemVocab": "<-VocabV", "MaxItems": maxitems, "Depths": set(depths), "Links": "<-LinksV",
            "SlugFn": slugfn, "DevCompoundSuffix": dev_suffix, "DevCaseSensitive": dev_case, "DevNoStrip": dev_nostrip}


def defs(links=LINKS, voc=None):
    voc = voc if voc is not None else vocab()
    return {"VocabV": "{" + ", ".join(tlc.tla_expr(v) for v in voc) + "}",
            "LinksV": tlc.tla_expr([[s2c(n), f] for n, f in links])}


INVS = ["SlugRule", "SlugsUnique", "DepthRule", "ResolveRule", "SelfResolve", "SlugWarnings"]


# ------------------------------------------------------------------ concretise / observe
def doc_text(items, links, wrap="none"):
    """items/links (names as strings) -> Markdown text + the line of every link"""
    lines = []

    def nested(k):
        # every fifth item, if a heading, is written inside a block quote (a rubric: anchors and links work the same);
        # a '(name)=' target directly before it goes into the quote with it
        return 0 <= k < len(items) and items[k][0] == "h" and k % 5 == 3 and "\n" not in items[k][1]
    for n, it in enumerate(items):
        if it[0] == "h":
            if nested(n):
                lines += ["> " + "#" * it[2] + " " + it[1], ""]
                continue
            if n % 4 == 2 and "\n" not in it[1]:
                lines.append("{#xid%d}" % n)          # an explicit id on the heading (attrs_block): the slug rules are unchanged
            if "\n" in it[1]:
                lines += it[1].split("\n") + ["===" if it[2] == 1 else "---", ""]        # setext: the title spans source lines
            else:
                lines += ["#" * it[2] + " " + it[1], ""]
        elif it[0] == "t" and (len(it) <= 2 or it[2] == "next") and nested(n + 1):
            lines.append(f"> ({it[1]})=")
        elif it[0] == "f":
            lines += [f"F{n + 1} [^{it[1]}]", "", f"[^{it[1]}]: footnote {n + 1}", ""]
        elif len(it) > 2 and it[2] == "attr":
            lines += ["{#%s}" % it[1], f"P{n + 1}", ""]
        elif len(it) > 2 and it[2] == "comment":
            # nothing that can carry the name follows: the target node keeps it
            lines += [f"({it[1]})=", "% a comment", ""]
        elif len(it) > 2 and it[2] == "dirname":
            lines += ["```{admonition} Dt%d *em*" % (n + 1), f":name: {it[1]}", f"B{n + 1}", "```", ""]
        else:
            lines.append(f"({it[1]})=")
            if len(it) > 2 and it[2] == "quote":
                lines += ["> ```{admonition} Inner title", f"> Q{n + 1}", "> ```", ""]
            elif not (n + 1 < len(items) and items[n + 1][0] == "h"):
                lines += [f"P{n + 1}", ""]
    block = []
    for k, (name, form) in enumerate(links):
        dest = f"<#{name}>" if (" " in name or any(ord(c) > 127 for c in name)) else f"#{name}"
        # (every sixth link with text of its own is an icon link: an image without alt text is its whole content)
        block += [(f"[![](i{k + 1}.png)]({dest})" if icon_link(k + 1) else f"[L{k + 1}]({dest})") if form == "text" else (f"<project:#{name}>" if form == "auto" else f"[]({dest})"), ""]
    if wrap == "quote":
        block = [("> " + b) if b else ">" for b in block] + [""]
    elif wrap == "list":
        block = [("- " + block[0])] + [("  " + b) if b else "" for b in block[1:]]
    elif wrap == "note":
        block = ["```{note}"] + block + ["```", ""]
    start = len(lines)
    lines += block
    text = "\n".join(lines) + "\n"
    link_lines = {}
    for n, ln in enumerate(lines, 1):
        if n <= start:
            continue
        for k in range(len(links), 0, -1):
            name, form = links[k - 1]
            if k not in link_lines and ((form == "text" and (f"[L{k}](" in ln or f"[![](i{k}.png)](" in ln))):
                link_lines[k] = n
    # empty-text links: by order among the remaining link lines
    rest = [n for n, ln in enumerate(lines, 1) if n > start and (("[](" in ln and "[![](" not in ln) or "<project:#" in ln)]
    for k, (name, form) in enumerate(links, 1):
        if form != "text":
            link_lines[k] = rest.pop(0)
    return text, link_lines


def icon_link(k):
    return k % 6 == 5


def observe(text, depth, items, links, slug_func=None):
    """render with docutils and project: slugs [[slug, item]], res per link, texts, warnings"""
    from docutils import nodes
    from .frontends import docutils_doctree
    ov = {"myst_heading_anchors": depth, "myst_enable_extensions": ["attrs_block"]}
    if slug_func is not None:
        ov["myst_heading_slug_func"] = slug_func
    doc, warns = docutils_doctree(text, ov)
    hidx = [n for n, it in enumerate(items, 1) if it[0] == "h"]
    # (a heading written inside a block quote is a rubric)
    secs = [s for s in doc.findall(lambda x: isinstance(x, nodes.section | nodes.rubric))]
    problems = []
    if len(secs) != len(hidx):
        problems.append(f"{len(secs)} sections/rubrics for {len(hidx)} headings")
    sec_item = {id(s): hidx[k] for k, s in enumerate(secs) if k < len(hidx)}
    slugs = [[s2c(s["slug"]), sec_item[id(s)]] for s in secs if "slug" in s and id(s) in sec_item]
    sec_titles = {}
    for s_ in secs:
        if id(s_) in sec_item and (isinstance(s_, nodes.rubric) or (len(s_) and isinstance(s_[0], nodes.title))):
            t_ = (s_ if isinstance(s_, nodes.rubric) else s_[0]).deepcopy()
            for im in list(t_.findall(nodes.image)) + list(t_.findall(nodes.raw)) + list(t_.findall(nodes.system_message)):
                im.parent.remove(im)
            sec_titles[sec_item[id(s_)]] = t_.astext()
    tnames = {}
    for n, it in enumerate(items, 1):
        if it[0] == "t":
            tnames[nodes.fully_normalize_name(it[1])] = n
            if len(it) > 2 and it[2] == "dirname":
                for adm in doc.findall(nodes.Admonition):
                    if nodes.fully_normalize_name(it[1]) in adm.get("names", []) and len(adm) and isinstance(adm[0], nodes.title):
                        sec_titles[n] = adm[0].astext()
    refs = [r for r in doc.findall(nodes.reference) if r.get("id_link")]
    if len(refs) != len(links):
        problems.append(f"{len(refs)} '#'-links in the doctree for {len(links)} written")
    res, texts, lines, kinds = [], [], [], []
    for r in refs:
        msgs = [c for c in r.children if isinstance(c, nodes.system_message)]
        txt = "".join(c.astext() for c in r.children if not isinstance(c, nodes.system_message))
        texts.append(txt)
        kinds.append([c.tagname for c in r.children if not isinstance(c, nodes.system_message)])
        lines.append(r.line)
        if msgs:
            res.append(["missing"])
            continue
        node = doc.ids.get(r.get("refid"))
        if node is None:
            res.append(["dangling", r.get("refid")])
            continue
        cand = []
        for nm in node.get("names", []):
            if nm in tnames and doc.nameids.get(nm) == r["refid"]:
                cand.append(["explicit", tnames[nm]])
        if isinstance(node, nodes.section | nodes.rubric) and id(node) in sec_item and (r["refid"] == node["ids"][0] or not cand):
            cand.append(["slug", sec_item[id(node)]])
        res.append(cand[0] if len(cand) == 1 else ["ambiguous", cand])
    wl = sorted(w["line"] for w in warns if w["tag"] == "myst.xref_missing")
    nslug = sum(1 for w in warns if w["tag"] == "myst.heading_slug")
    other = [w["tag"] or w["msg"][:60] for w in warns if w["tag"] not in ("myst.xref_missing", "myst.heading_slug", "myst.header")]
    return {"slugs": slugs, "res": res, "texts": texts, "kinds": kinds, "lines": lines, "warn_lines": wl, "nwarn": nslug,
            "other": other, "problems": problems, "sec_titles": sec_titles}


def cli_slugs(text, depth):
    """ids printed by myst-anchors for the same text"""
    import re
    from myst_parser.cli import print_anchors
    fd, path = tempfile.mkstemp(suffix=".md", dir=os.environ.get("VERIF_TMP"))
    try:
        with os.fdopen(fd, "w", encoding="utf8") as fh:
            fh.write(text)
        out = io.StringIO()
        with contextlib.redirect_stdout(out):
            print_anchors(["-l", str(depth), path])
        return re.findall(r'<h\d id="([^"]*)"', out.getvalue())
    finally:
        os.unlink(path)


def items_str(items):
    return [[it[0], c2s(it[1])] + list(it[2:]) for it in items]


def replay_case(rec):
    """worker: one exported behaviour -> observation dict (+ cli slugs)"""
    items = items_str(rec["items"])
    links = rec.get("links") or LINKS
    wrap = rec.get("wrap", "none")
    text, link_lines = doc_text(items, links, wrap)
    sf = rec.get("slug_func")
    func = None
    if sf == "reverse":
        func = "myst_parser.config.main._test_slug_func"
    elif sf == "raise":
        # the model's failing slug function is any exception class a user function may raise
        func = _RAISING[len(text) % len(_RAISING)]
    try:
        o = observe(text, rec["depth"], items, links, func)
    except Exception as e:  # noqa: BLE001
        return {"error": f"{type(e).__name__}: {e}", "text": text}
    o["text"] = text
    o["link_lines"] = link_lines
    if rec.get("cli") and sf in (None, "default"):
        try:
            o["cli"] = cli_slugs(text, rec["depth"])
        except SystemExit:
            o["cli"] = None
    return o


def _raising(title):
    raise ValueError("slug function failed")


def _raising_key(title):
    return {"known title": "known-title"}[title]           # KeyError


def _raising_runtime(title):
    raise RuntimeError("slug function failed")


class _SlugError(Exception):
    pass


def _raising_custom(title):
    raise _SlugError("slug function failed")


def _raising_index(title):
    return title.split("|")[1]                             # IndexError


_RAISING = [_raising, _raising_key, _raising_runtime, _raising_custom, _raising_index]


def t_leg(ctx, quick, focus="C09"):
    """T: M |= S for the enumerated documents; Dev regressions; returns exported behaviours"""
    recs = []
    mi = 3 if quick else 4
    # (thorough: four items over the vocabulary without the footnote items, three items over the whole vocabulary)
    runs = [("an_mc", mi, vocab(focus))] if quick else [("an_mc", mi, [v for v in vocab(focus) if v[0] != "f"]), ("an_mc_f", 3, vocab(focus))]
    for cname, mi_, voc_ in runs:
        r = tlc.run("Anchors", tlc.cfg(ctx, f"{cname}.cfg", consts(mi_, [0, 1, 2, 7]), invariants=INVS + ["Emit"],
                                       properties=["Terminates"], constraints=["NoDupTargets"]),
                    wd=ctx.wd, timeout=3000, defs=defs(voc=voc_))
        tlc.expect_holds(r, "Anchors M |= S")
        ctx.add_tlc("Anchors_mc" if cname == "an_mc" else "Anchors_mc_footnotes", r, f"documents <= {mi_} items over {len(voc_)} items x depths 0,1,2,7 x {len(LINKS)} links")
        for rec in r.records:
            rec["slug_func"] = "default"
        recs += r.records
    voc2 = [["h", s2c("a"), 1], ["h", s2c("a-1"), 1], ["h", s2c("a-1-1"), 1], ["h", s2c("a-2"), 2]]
    if focus == "C09":
        # (links into a slug history with numbered titles: three items over a, a-1, a-1-1, a-2)
        r = tlc.run("Anchors", tlc.cfg(ctx, "an_mc2.cfg", consts(3, [2]), invariants=INVS + ["Emit"]),
                    wd=ctx.wd, timeout=3000, defs=defs(voc=voc2))
        tlc.expect_holds(r, "Anchors[equal titles] M |= S")
        ctx.add_tlc("Anchors_mc_titles", r, "title sequences <= 3 over a, a-1, a-1-1, a-2")
        for rec in r.records:
            rec["slug_func"] = "default"
        recs += r.records
    if focus == "C10":      # (the slug history and the slug functions are C10's; C09 takes the link resolution runs)
        # equal titles in a row: the suffix history (needs >= 3 equal titles; a-1 collisions)
        voc2 = [["h", s2c("a"), 1], ["h", s2c("a-1"), 1], ["h", s2c("a-1-1"), 1], ["h", s2c("a-2"), 2]]
        r = tlc.run("Anchors", tlc.cfg(ctx, "an_mc2.cfg", consts(5 if quick else 6, [1, 2]), invariants=INVS + ["Emit"]),
                    wd=ctx.wd, timeout=3000, defs=defs(voc=voc2))
        tlc.expect_holds(r, "Anchors[equal titles] M |= S")
        ctx.add_tlc("Anchors_mc_titles", r, "title sequences over a, a-1, a-1-1, a-2")
        for rec in r.records:
            rec["slug_func"] = "default"
        recs += r.records
        for fn in ("reverse", "raise"):
            r = tlc.run("Anchors", tlc.cfg(ctx, f"an_{fn}.cfg", consts(2 if quick else 3, [0, 3], slugfn=fn), invariants=INVS + ["Emit"],
                                           constraints=["NoDupTargets"]), wd=ctx.wd, timeout=3000, defs=defs(links=REV_LINKS))
            tlc.expect_holds(r, f"Anchors[{fn}] M |= S")
            ctx.add_tlc(f"Anchors_{fn}", r, f"heading_slug_func = {fn}")
            for rec in r.records:
                rec["slug_func"] = fn
                rec["links"] = REV_LINKS
            recs += r.records
    r = tlc.run("Anchors", tlc.cfg(ctx, "an_cov.cfg", consts(2, [1]), invariants=INVS, constraints=["NoDupTargets"]),
                wd=ctx.wd, coverage=True, defs=defs())
    for act in ("Heading", "Target", "Resolve"):
        if r.coverage.get(act, (0, 0))[0] == 0:
            raise tlc.MachineryFailure(f"Anchors: action {act} never taken (vacuous)")
    ctx.add_tlc("Anchors_cov", r)
    rd = tlc.run("Anchors", tlc.cfg(ctx, "an_dev1.cfg", consts(3, [1], dev_suffix=True), invariants=["SlugRule"]),
                 wd=ctx.wd, defs=defs(voc=voc2))
    tlc.expect_violation(rd, "SlugRule", "Anchors Dev_CompoundSuffix")
    ctx.add_tlc("Anchors_dev_compoundsuffix", rd, "expected counterexample found (a, a, a -> a-1-2)")
    rd = tlc.run("Anchors", tlc.cfg(ctx, "an_dev2.cfg", consts(1, [1], dev_case=True), invariants=["ResolveRule"]),
                 wd=ctx.wd, defs=defs())
    tlc.expect_violation(rd, "ResolveRule", "Anchors Dev_CaseSensitive")
    ctx.add_tlc("Anchors_dev_casesensitive", rd, "expected counterexample found ((Tt)= with [](#Tt))")
    return recs


# ------------------------------------------------------------------ V: random documents
TITLE_ATOMS = ["a", "b", "Title", "x y", "É", "ß", "中文", "😀", "_u_", "a-1", "1", "C++", "what?", "a.b", "İx", "λ", "ж", "A  B",
               "`code`", "*em*", "**st**", "[lnk](http://e.x)", "`a b`", "<b>h</b>", "![i](s.png)", "![alt](t.png)"]


def random_case(rnd, tid):
    items = []
    for _ in range(rnd.randint(1, 9)):
        if rnd.random() < 0.75:
            title = " ".join(rnd.choice(TITLE_ATOMS) for _ in range(rnd.randint(1, 3)))
            if rnd.random() < 0.4 and items:
                prev = [it for it in items if it[0] == "h"]
                if prev:
                    title = rnd.choice(prev)[1]
            items.append(["h", title, rnd.randint(1, 4)])
        else:
            nm = rnd.choice(["x", "tgt", "Mixed", "a", "title", "b-1", "k" + str(len(items))])
            if not any(it[0] == "t" and it[1].lower() == nm.lower() for it in items):
                items.append(["t", nm, rnd.choice(["next", "next", "quote"])])
    depth = rnd.choice([0, 1, 2, 3, 4, 7])
    return {"id": tid, "items": items, "depth": depth, "wrap": rnd.choice(["none", "none", "quote", "list", "note"])}


def heading_titles(text):
    """the text+code_inline content of every heading, from markdown-it's own token stream
    (the input side of the property; independent of the renderer under test)"""
    from markdown_it.renderer import RendererHTML
    from myst_parser.config.main import MdParserConfig
    from myst_parser.parsers.mdit import create_md_parser
    md = create_md_parser(MdParserConfig(), RendererHTML)
    toks = md.parse(text)
    out = []
    for i, t in enumerate(toks):
        if t.type == "heading_open":
            inl = toks[i + 1]
            out.append("".join(c.content for c in (inl.children or []) if c.type in ("text", "code_inline")))
    return out


def v_case(case):
    """worker: build links from the document itself (slugs per the CLI are NOT used), observe"""
    rnd = random.Random(case["id"])
    items = case["items"]
    text0, _ = doc_text(items, [], "none")
    titles = heading_titles(text0)
    hs = [it for it in items if it[0] == "h"]
    if len(titles) != len(hs):
        return {"miss": True}
    # abstract items: the title as markdown-it sees it
    aitems, k = [], 0
    for it in items:
        if it[0] == "h":
            aitems.append(["h", titles[k], it[2]])
            k += 1
        else:
            aitems.append(it)
    names = set()
    for t in titles:
        base = t.lower().replace(" ", "-")
        base = "".join(c for c in base if c.isalnum() or c in "-_")
        names |= {base, base + "-1", base + "-2"}
    names |= {it[1] for it in items if it[0] == "t"} | {it[1].upper() for it in items if it[0] == "t"} | {"nosuch"}
    names = sorted(n for n in names if n and all(c not in n for c in "<>()[]\\`*\n"))
    rnd.shuffle(names)
    links = [(n, rnd.choice(["text", "empty"] + ([] if " " in n else ["auto"]))) for n in names[:10]]
    text, link_lines = doc_text(items, links, case["wrap"])
    try:
        o = observe(text, case["depth"], aitems, links)
    except Exception as e:  # noqa: BLE001
        return {"error": f"{type(e).__name__}: {e}", "text": text}
    o.update(text=text, link_lines=link_lines, aitems=aitems, links=links)
    try:
        o["cli"] = cli_slugs(text, case["depth"])
    except SystemExit:
        o["cli"] = None
    return o


def classified(s: str) -> bool:
    """is every character of s classified by Anchors.tla's Slugify"""
    for ch in s:
        c = ord(ch)
        if c < 128 or c in (304, 775, 945, 955, 1078, 128512) or 192 <= c <= 255 or 19968 <= c <= 40959:
            continue
        return False
    return True
