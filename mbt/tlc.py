"""Run TLC and parse what it prints.

Everything the checks need from TLC goes through here:
  * exhaustive model checking of a `_mc` config (T leg): statistics, invariant verdicts, coverage
  * behaviour export (R leg): JSON records printed by an always-true invariant
      Emit == Terminal => PrintT(ToJson(rec))
  * batch trace validation (V leg): the same, the record being the verdict of one trace

TLC prints a TLA+ string as a JSON-compatible string literal, so a PrintT(ToJson(x)) line is a
JSON string whose content is JSON.
"""
from __future__ import annotations

import json
import os
import re
import shutil
import subprocess
import time
from dataclasses import dataclass, field
from pathlib import Path

VERIF = Path(__file__).resolve().parent.parent
SPECS = VERIF / "specs"
WORK = VERIF / ".work"

JAR = "/opt/veriftools/tla/tla2tools.jar"
CP = JAR + ":/opt/veriftools/tla/CommunityModules-deps.jar"


class MachineryFailure(Exception):
    """TLC crashed / spec error / harness inconsistency: exit code 2, never a VIOLATION."""


@dataclass
class TLCResult:
    ok: bool                      # finished without any TLC "Error:"
    generated: int = 0
    distinct: int = 0
    depth: int = 0
    records: list = field(default_factory=list)   # parsed PrintT(ToJson(..)) records
    violated: list = field(default_factory=list)  # names of violated invariants/properties
    errors: list = field(default_factory=list)    # other error lines
    coverage: dict = field(default_factory=dict)  # action name -> (distinct, total)
    wall_s: float = 0.0
    stdout_path: str = ""
    cmd: str = ""
    trace: str = ""               # counterexample text, if any


_STATS = re.compile(r"^(\d+) states generated, (\d+) distinct states found")
_DEPTH = re.compile(r"^The depth of the complete state graph search is (\d+)")
_VIOL = re.compile(r"^Error: (?:Invariant|Action property|Temporal property|Property) (\S+) is violated")
_VIOL2 = re.compile(r"^Error: Temporal properties were violated")
_VIOL3 = re.compile(r"^Error: The invariant of (\S+) is equal to FALSE")     # a constant-level invariant
_COV = re.compile(r"^<(\w+) line \d+, col \d+ to line \d+, col \d+ of module (\w+)(?: \([\d ]+\))?>: (\d+):(\d+)")
_SIMSTATS = re.compile(r"^The number of states generated: (\d+)")


def workdir(name: str) -> Path:
    d = WORK / name
    if d.exists():
        shutil.rmtree(d, ignore_errors=True)
    d.mkdir(parents=True, exist_ok=True)
    return d


def cleanup(name: str) -> None:
    shutil.rmtree(WORK / name, ignore_errors=True)
    try:
        WORK.rmdir()
    except OSError:
        pass


def write_cfg(path: Path, *, spec: str = "Spec", constants: dict | None = None,
              invariants: list[str] = (), properties: list[str] = (),
              constraints: list[str] = (), view: str | None = None,
              deadlock: bool = False, init_next: tuple[str, str] | None = None,
              postcondition: str | None = None) -> Path:
    lines = []
    if constants:
        lines.append("CONSTANTS")
        for k, v in constants.items():
            lines.append(f"  {k} = {tla_value(v)}")
    if init_next:
        lines.append(f"INIT {init_next[0]}")
        lines.append(f"NEXT {init_next[1]}")
    else:
        lines.append(f"SPECIFICATION {spec}")
    for i in invariants:
        lines.append(f"INVARIANT {i}")
    for p in properties:
        lines.append(f"PROPERTY {p}")
    for c in constraints:
        lines.append(f"CONSTRAINT {c}")
    if view:
        lines.append(f"VIEW {view}")
    if postcondition:
        lines.append(f"POSTCONDITION {postcondition}")
    lines.append(f"CHECK_DEADLOCK {'TRUE' if deadlock else 'FALSE'}")
    path.write_text("\n".join(lines) + "\n")
    return path


def cfg(ctx, name, consts, **kw) -> Path:
    """write_cfg with "<-Op" substitutions: constants given as the string "<-Op" become
    `K <- Op` lines (cfg files have no literal for <<>>, negative numbers, records)."""
    path = ctx.wd / name
    plain = {k: v for k, v in consts.items() if not (isinstance(v, str) and v.startswith("<-"))}
    write_cfg(path, constants=plain, **kw)
    subs = [f"  {k} <- {v[2:]}" for k, v in consts.items() if isinstance(v, str) and v.startswith("<-")]
    if subs:
        txt = path.read_text()
        if "CONSTANTS" in txt:
            txt = txt.replace("CONSTANTS\n", "CONSTANTS\n" + "\n".join(subs) + "\n", 1)
        else:
            txt = "CONSTANTS\n" + "\n".join(subs) + "\n" + txt
        path.write_text(txt)
    return path


def tla_expr(v) -> str:
    """Python value -> TLA+ expression (for wrapper-module definitions)."""
    if isinstance(v, bool):
        return "TRUE" if v else "FALSE"
    if isinstance(v, int):
        return str(v) if v >= 0 else f"(0 - {-v})"
    if isinstance(v, str):
        return '"' + v.replace("\\", "\\\\").replace('"', '\\"') + '"'
    if isinstance(v, (list, tuple)):
        return "<<" + ", ".join(tla_expr(x) for x in v) + ">>"
    if isinstance(v, (set, frozenset)):
        return "{" + ", ".join(tla_expr(x) for x in sorted(v, key=repr)) + "}"
    if isinstance(v, dict):
        return "[" + ", ".join(f"{k} |-> {tla_expr(x)}" for k, x in v.items()) + "]"
    raise TypeError(type(v))


def tla_value(v) -> str:
    """Python value -> TLA+ cfg literal."""
    if isinstance(v, bool):
        return "TRUE" if v else "FALSE"
    if isinstance(v, int):
        if v < 0:
            raise ValueError("cfg files reject negative literals")
        return str(v)
    if isinstance(v, str):
        return '"' + v.replace("\\", "\\\\").replace('"', '\\"') + '"'
    if isinstance(v, (list, tuple)):
        raise TypeError("cfg files have no tuple literal: use tlc.run(defs=...) and '<-Op'")
    if isinstance(v, (set, frozenset)):
        return "{" + ", ".join(tla_value(x) for x in sorted(v, key=repr)) + "}"
    raise TypeError(type(v))


def run(module: str, cfg: Path, *, wd: Path, workers: int | str = 16, env: dict | None = None,
        timeout: int = 1800, coverage: bool = False, simulate: str | None = None,
        depth: int | None = None, seed: int | None = None, dfs: bool = False,
        extra: list[str] = (), allow_violation: bool = False, heap: str = "8g",
        defs: dict | None = None) -> TLCResult:
    """Run TLC on specs/<module>.tla with the given cfg. Raises MachineryFailure on a crash,
    parse error, or timeout. A violated invariant is reported in result.violated (it is the
    caller's business whether that is a machinery failure, a Dev_* regression or a verdict)."""
    spec = SPECS / f"{module}.tla"
    if defs:
        # cfg files have no literal for tuples/records: a wrapper module that EXTENDS the spec
        # defines them as operators, the cfg substitutes `K <- Op`
        wname = f"MC_{module}_{re.sub(r'[^A-Za-z0-9_]', '_', cfg.stem)}"
        spec = wd / f"{wname}.tla"
        body = "\n".join(f"{k} == {v}" for k, v in defs.items())
        spec.write_text(f"---- MODULE {wname} ----\nEXTENDS {module}\n{body}\n====\n")
    meta = wd / f"meta_{module}_{cfg.stem}"
    out = wd / f"{module}_{cfg.stem}.out"
    java = ["java", "-XX:+UseParallelGC", f"-Xmx{heap}", "-Xss16m", f"-DTLA-Library={SPECS}"]
    if dfs:
        java.append("-Dtlc2.tool.queue.IStateQueue=StateDeque")
    cmd = java + ["-cp", CP, "tlc2.TLC", "-workers", str(workers), "-metadir", str(meta),
                  "-noGenerateSpecTE", "-config", str(cfg)]
    if coverage:
        cmd += ["-coverage", "1"]
    if simulate is not None:
        cmd += ["-simulate", simulate]
    if depth is not None:
        cmd += ["-depth", str(depth)]
    if seed is not None:
        cmd += ["-seed", str(seed)]
    cmd += list(extra) + [str(spec)]
    e = dict(os.environ)
    e.pop("JAVA_TOOL_OPTIONS", None)
    if env:
        e.update({k: str(v) for k, v in env.items()})
    t0 = time.time()
    with open(out, "wb") as fh:
        try:
            p = subprocess.run(cmd, stdout=fh, stderr=subprocess.STDOUT, env=e, cwd=str(SPECS),
                               timeout=timeout)
        except subprocess.TimeoutExpired:
            raise MachineryFailure(f"TLC timeout after {timeout}s: {module} {cfg.name}")
    res = TLCResult(ok=True, wall_s=time.time() - t0, stdout_path=str(out), cmd=" ".join(cmd))
    in_trace = False
    trace_lines = []
    with open(out, "r", errors="replace") as fh:
        for line in fh:
            line = line.rstrip("\n")
            if line.startswith('"'):
                try:
                    s = json.loads(line)
                    if s[:1] in "{[":
                        res.records.append(json.loads(s))
                        continue
                except Exception:
                    pass
            m = _STATS.match(line)
            if m:
                res.generated, res.distinct = int(m.group(1)), int(m.group(2))
                in_trace = False
                continue
            m = _DEPTH.match(line)
            if m:
                res.depth = int(m.group(1))
                continue
            m = _SIMSTATS.match(line)
            if m:
                res.generated = int(m.group(1))
                continue
            m = _VIOL.match(line)
            if m:
                res.ok = False
                res.violated.append(m.group(1))
                in_trace = True
                continue
            m = _VIOL3.match(line)
            if m:
                res.ok = False
                res.violated.append(m.group(1))
                continue
            if _VIOL2.match(line):
                res.ok = False
                res.violated.append("<temporal>")
                in_trace = True
                continue
            if line.startswith("Error:"):
                if in_trace and "behavior up to this point" in line:
                    continue
                res.ok = False
                res.errors.append(line)
                continue
            m = _COV.match(line)
            if m:
                name = m.group(1)
                d, t = int(m.group(3)), int(m.group(4))
                od, ot = res.coverage.get(name, (0, 0))
                res.coverage[name] = (od + d, ot + t)
                continue
            if in_trace:
                trace_lines.append(line)
    res.trace = "\n".join(trace_lines[:400])
    shutil.rmtree(meta, ignore_errors=True)
    real_errors = [x for x in res.errors if "Deadlock" not in x or True]
    if real_errors and not res.violated:
        tail = _tail(out)
        raise MachineryFailure(f"TLC error in {module}/{cfg.name}: {real_errors[:3]}\n{tail}")
    if res.violated and not allow_violation:
        # the caller did not expect a violation: still return, caller decides
        pass
    if p.returncode not in (0, 12, 13) and not res.violated:
        raise MachineryFailure(f"TLC exit {p.returncode} in {module}/{cfg.name}\n{_tail(out)}")
    return res


def _tail(path: Path, n: int = 25) -> str:
    try:
        with open(path, "r", errors="replace") as fh:
            return "".join(fh.readlines()[-n:])
    except OSError:
        return ""


def expect_holds(res: TLCResult, what: str) -> None:
    """The design (M) must satisfy S: a violation here is a spec/machinery failure, not a
    verdict about the code — except when constants were extracted from the tree; callers that
    extract constants handle res.violated themselves."""
    if res.violated:
        raise MachineryFailure(f"{what}: TLC reports {res.violated} violated\n{res.trace[:2000]}")


def expect_violation(res: TLCResult, inv: str, what: str) -> None:
    if inv not in res.violated:
        raise MachineryFailure(f"{what}: expected counterexample to {inv}, got {res.violated or 'none'}")


def write_ndjson(path: Path, rows) -> int:
    n = 0
    with open(path, "w") as fh:
        for r in rows:
            fh.write(json.dumps(r, separators=(",", ":")) + "\n")
            n += 1
    return n


def sany(module: str) -> None:
    p = subprocess.run(["java", "-cp", CP, "tla2sany.SANY", str(SPECS / f"{module}.tla")],
                       capture_output=True, text=True, cwd=str(SPECS))
    if p.returncode != 0 or "Error" in p.stdout:
        raise MachineryFailure(f"SANY {module}: {p.stdout[-2000:]}")
