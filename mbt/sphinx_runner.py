"""In-process Sphinx front end: build a generated project, return resolved doctrees and the
warning stream.  One application per project (0.5 s); many documents per project."""
from __future__ import annotations

import io
import os
import re
import shutil
from pathlib import Path

_ANSI = re.compile(r"\x1b\[[0-9;]*m")
_WLINE = re.compile(r"^(?P<src>.*?)(?::(?P<line>\d+))?: (?P<level>WARNING|ERROR|SEVERE|CRITICAL): (?P<msg>.*?)(?: \[(?P<tag>[\w.\-*]+)\])?$")


def parse_warnings(text: str) -> list[dict]:
    out = []
    for ln in _ANSI.sub("", text).splitlines():
        m = _WLINE.match(ln.strip())
        if m:
            d = m.groupdict()
            d["line"] = int(d["line"]) if d["line"] else None
            out.append(d)
        elif ln.strip() and out:
            out[-1]["msg"] += "\n" + ln.strip()
    return out


def run_project(srcdir: Path, files: dict, conf: dict | None = None, *, builder: str = "dummy",
                parallel: int = 0, resolve: bool = True, keep: bool = False, conf_extra: str = "",
                want_html: bool = False):
    """Write `files` (relative path -> text/bytes) and conf.py into srcdir, build.
    -> dict(ok, error, warnings, doctrees {docname: resolved doctree}, html {docname: text})"""
    from docutils.parsers.rst import directives, roles
    from sphinx.application import Sphinx
    from sphinx.util.docutils import docutils_namespace
    srcdir = Path(srcdir)
    if srcdir.exists():
        shutil.rmtree(srcdir)
    srcdir.mkdir(parents=True)
    for rel, content in files.items():
        p = srcdir / rel
        p.parent.mkdir(parents=True, exist_ok=True)
        if isinstance(content, bytes):
            p.write_bytes(content)
        else:
            p.write_text(content, encoding="utf8")
    lines = ["extensions = ['myst_parser']", "exclude_patterns = ['_build']", "show_warning_types = True",
             "suppress_warnings = []", "html_theme = 'basic'", "language = 'en'"]
    for k, v in (conf or {}).items():
        lines.append(f"{k} = {v!r}")
    (srcdir / "conf.py").write_text("\n".join(lines) + "\n" + conf_extra)
    out = srcdir / "_build"
    status, warning = io.StringIO(), io.StringIO()
    res = {"ok": True, "error": None, "warnings": [], "doctrees": {}, "html": {}, "raw_warnings": "", "stash": {}}
    try:
        with docutils_namespace():
            app = Sphinx(str(srcdir), str(srcdir), str(out / builder), str(out / "doctrees"), builder,
                         status=status, warning=warning, freshenv=True, parallel=parallel, keep_going=False)
            app.build()
            res["build_warnings"] = parse_warnings(warning.getvalue())      # the build's own resolution pass only
            if resolve:
                for docname in sorted(app.env.found_docs):
                    try:
                        res["doctrees"][docname] = app.env.get_and_resolve_doctree(docname, app.builder)
                    except Exception as e:  # noqa: BLE001
                        res["ok"] = False
                        res["error"] = f"resolving {docname}: {type(e).__name__}: {e}"
            res["stash"] = dict(getattr(app.env, "_verif_trees", {}))
            res["data"] = getattr(app.env, "_verif_data", None)
            if want_html:
                for docname in sorted(app.env.found_docs):
                    p = out / builder / (docname + ".html")
                    if p.exists():
                        res["html"][docname] = p.read_text(encoding="utf8")
    except BaseException as e:  # noqa: BLE001  (Sphinx wraps errors; SystemExit from docutils halting)
        res["ok"] = False
        cause = e.__cause__ or e
        res["error"] = f"{type(cause).__name__}: {cause}"
    res["raw_warnings"] = _ANSI.sub("", warning.getvalue())
    res["warnings"] = parse_warnings(warning.getvalue())
    if not keep:
        shutil.rmtree(out, ignore_errors=True)
    return res


# conf.py fragment: keep a copy of every document as the parser returned it (before any transform)
STASH_PARSED = """

from docutils.transforms import Transform as _T


class _VerifStash(_T):
    default_priority = 1

    def apply(self, **kw):
        env = self.document.settings.env
        if not hasattr(env, "_verif_trees"):
            env._verif_trees = {}
        env._verif_trees[env.docname] = self.document.deepcopy()


def setup(app):
    app.add_transform(_VerifStash)
"""


# conf.py fragment: the global configuration object before every document is read, and at the end
SNAP_CONFIG = """

def _verif_snap(app):
    c = app.env.myst_config
    return {k: (sorted(v, key=repr) if isinstance(v, (set, frozenset)) else repr(v)) for k, v in c.as_dict().items()}


def _verif_sr(app, docname, source):
    app.env.__dict__.setdefault("_verif_data", []).append([docname, _verif_snap(app)])


def _verif_eu(app, env):
    env.__dict__.setdefault("_verif_data", []).append(["<end>", _verif_snap(app)])


def setup(app):
    app.connect("source-read", _verif_sr)
    app.connect("env-updated", _verif_eu)
"""


def run_docs(srcdir: Path, docs: dict, conf: dict | None = None, extra_files: dict | None = None, **kw):
    """Build many independent documents {name: text} in one project (index.md lists them in a
    hidden toctree).  If the build raises, the documents are built one by one, so that the
    failure is attributed.  -> {name: dict(ok, error, warnings, doctree)}"""
    names = sorted(docs)
    files = {f"{n}.md": docs[n] for n in names}
    files["index.md"] = "# Index\n\n```{toctree}\n:hidden:\n\n" + "\n".join(names) + "\n```\n"
    files.update(extra_files or {})
    r = run_project(srcdir, files, conf, **kw)
    out = {}
    if r["ok"]:
        for n in names:
            # (Sphinx 8 prints a source *path* passed as location as '<path>.rst': match on the stem)
            ws = [w for w in r["warnings"] if w["src"] and (os.path.basename(w["src"]).split(".")[0] == n
                                                            or os.path.basename(w["src"]).startswith(n + "_"))]
            out[n] = {"ok": True, "error": None, "warnings": ws, "doctree": r["doctrees"].get(n), "html": r["html"].get(n)}
        out["_other_warnings"] = [w for w in r["warnings"] if not (w["src"] and os.path.basename(w["src"]).split(".")[0] in docs)]
        return out
    if len(names) == 1:
        out[names[0]] = {"ok": False, "error": r["error"], "warnings": r["warnings"], "doctree": None, "html": None}
        return out
    half = len(names) // 2
    for part in (names[:half], names[half:]):
        out.update(run_docs(srcdir, {n: docs[n] for n in part}, conf, extra_files, **kw))
    return out
