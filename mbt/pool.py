"""Process pool for running the implementation on many cases (fork; workers inherit sys.path)."""
from __future__ import annotations

import multiprocessing as mp
import os


def pmap(fn, items, procs: int | None = None, chunksize: int = 64):
    items = list(items)
    procs = procs or min(16, os.cpu_count() or 1)
    if len(items) < 200 or procs == 1:
        return [fn(x) for x in items]
    ctx = mp.get_context("fork")
    with ctx.Pool(procs) as pool:
        return pool.map(fn, items, chunksize=chunksize)
