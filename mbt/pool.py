"""Process pool for running the implementation on many cases (fork; workers inherit sys.path).

A worker that dies (segfault, os._exit, OOM kill) must not hang the check: the pool is a
ProcessPoolExecutor, and when it breaks the remaining items are run one by one, each in its
own process, so that the crashing case is attributed ({"error": "worker process died ..."}).
"""
from __future__ import annotations

import multiprocessing as mp
import os
from concurrent.futures import ProcessPoolExecutor
from concurrent.futures.process import BrokenProcessPool

ITEM_TIMEOUT = int(os.environ.get("VERIF_ITEM_TIMEOUT", "45"))      # one case: milliseconds normally
CHUNK_TIMEOUT = int(os.environ.get("VERIF_CHUNK_TIMEOUT", "240"))


def _run_chunk(args):
    fn, chunk = args
    return [fn(x) for x in chunk]


_confirmed_hang = False


def _one(fn, item, timeout=None):
    """one case in its own process.  A first time-out is retried once with four times the budget (a loaded machine
    must not look like non-termination); once a hang is confirmed, later time-outs are not retried."""
    global _confirmed_hang
    timeout = timeout or ITEM_TIMEOUT
    ctx = mp.get_context("fork")
    with ProcessPoolExecutor(1, mp_context=ctx) as ex:
        fut = ex.submit(fn, item)
        try:
            return fut.result(timeout=timeout)
        except BrokenProcessPool:
            return {"error": "worker process died while running this case (crash in the implementation)", "miss": False}
        except TimeoutError:
            for p in list(ex._processes.values()):
                p.kill()
    if timeout == ITEM_TIMEOUT and not _confirmed_hang:
        return _one(fn, item, timeout=4 * ITEM_TIMEOUT)
    _confirmed_hang = True
    return {"error": f"case did not finish within {timeout}s (non-termination)", "miss": False}


def pmap(fn, items, procs: int | None = None, chunksize: int = 64):
    items = list(items)
    procs = procs or min(16, os.cpu_count() or 1)
    if procs == 1 or len(items) <= 1 or (chunksize > 1 and len(items) < 200):
        return [fn(x) for x in items]
    chunks = [items[i:i + chunksize] for i in range(0, len(items), chunksize)]
    ctx = mp.get_context("fork")
    out: list = [None] * len(chunks)
    broken = False
    with ProcessPoolExecutor(procs, mp_context=ctx) as ex:
        futs = [ex.submit(_run_chunk, (fn, ch)) for ch in chunks]
        for n, f in enumerate(futs):
            try:
                out[n] = f.result(timeout=CHUNK_TIMEOUT)
            except BrokenProcessPool:
                broken = True
            except TimeoutError:
                broken = True
                break
        if broken:
            for f in futs:
                f.cancel()
            for p in list((ex._processes or {}).values()):
                p.kill()
    if broken:
        for n, ch in enumerate(chunks):
            if out[n] is None:
                out[n] = [_one(fn, x) for x in ch]
    return [x for ch in out for x in ch]
