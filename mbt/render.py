"""Shared harness of the renderer-core properties (C02, C03, C04, C06): the token side (events
from markdown-it's own token stream, as the properties prescribe) and the doctree projection."""
from __future__ import annotations

import html as _html

MODELLED = {"paragraph", "inline", "text", "softbreak", "hardbreak", "em", "strong", "s", "link", "image", "code_inline",
            "code_block", "fence", "heading", "hr", "blockquote", "bullet_list", "ordered_list", "list_item", "table", "thead",
            "tbody", "tr", "th", "td", "html_block", "html_inline", "math_inline", "math_single", "math_block", "math_inline_double",
            "dl", "dt", "dd", "myst_target", "myst_line_comment", "myst_block_break"}
EXTERNAL = ("http:", "https:", "mailto:", "ftp:")


def md_parser(config_kwargs: dict):
    from markdown_it.renderer import RendererHTML
    from myst_parser.config.main import MdParserConfig
    from myst_parser.parsers.mdit import create_md_parser
    return create_md_parser(MdParserConfig(**config_kwargs), RendererHTML)


def events_of(text: str, config_kwargs: dict):
    """-> (events, reason): events of the token tree, or None + why the document is outside the
    modelled vocabulary"""
    from markdown_it.tree import SyntaxTreeNode
    md = md_parser(config_kwargs)
    tokens = md.parse(text)
    root = SyntaxTreeNode(tokens)
    commonmark = bool(config_kwargs.get("commonmark_only"))
    ev = []
    why = []

    def attr(node):
        k = node.type
        if k == "heading":
            return node.tag[1:]
        if k == "link":
            return str(node.attrGet("href") or "")
        if k == "bullet_list":
            return node.markup or ""
        if k == "ordered_list":
            st = node.attrGet("start")
            return f"arabic|{node.markup}|{'' if st is None else st}"
        if k == "fence":
            info = (node.info or "").strip().split(maxsplit=1)
            return info[0] if info else ""
        if k == "code_block":
            return ""
        if k in ("th", "td"):
            st = str(node.attrGet("style") or "")
            return {"text-align:left": "text-left", "text-align:right": "text-right", "text-align:center": "text-center"}.get(st, "")
        if k == "image":
            return str(node.attrGet("src") or "")
        return ""

    def walk(node, in_image=False):
        k = node.type
        if k == "text_special" and in_image:
            # (the label of an image is not passed through text_join: escapes and entities stay separate tokens)
            ev.append({"e": "leaf", "k": k, "t": node.content or "", "a": ""})
            return
        if k not in MODELLED:
            why.append(f"token {k}")
            return
        if k == "fence":
            name = (node.info or "").strip().split(maxsplit=1)
            name = name[0] if name else ""
            if not commonmark and (name.startswith("{") or name in config_kwargs.get("fence_as_directive", ())):
                why.append("directive fence")
                return
        if k in ("html_block", "html_inline") and {"html_image", "html_admonition"} & set(config_kwargs.get("enable_extensions", ())):
            why.append("html extension")
        if k == "link" and not commonmark:
            href = str(node.attrGet("href") or "")
            # a destination that is neither a URL nor one of MyST's own schemes is an "unknown" link: under docutils a
            # reference that carries the destination as its refname (kept as written)
            special = href.startswith(("#", "inv:", "project:", "path:", "myst:")) or href == ""
            if (not href.lower().startswith(EXTERNAL) and (special or config_kwargs.get("_front") == "sphinx")) or (node.attrs and set(node.attrs) - {"href", "title"}):
                why.append("non-external link")
        if node.attrs and k not in ("link", "image", "ordered_list", "th", "td", "heading") and set(node.attrs) - {"style"}:
            why.append(f"attributes on {k}")
        if k == "image":
            if set(node.attrs) - {"src", "alt", "title"}:
                why.append("attributes on image")
        if node.children or k in ("inline", "image") or node.nester_tokens:
            ev.append({"e": "open", "k": k, "t": "", "a": attr(node)})
            for ch in node.children:
                walk(ch, in_image or k == "image")
            ev.append({"e": "close", "k": k, "t": "", "a": ""})
        else:
            ev.append({"e": "leaf", "k": k, "t": node.content or "", "a": attr(node)})
    for ch in root.children:
        walk(ch)
    return (ev, None) if not why else (None, "; ".join(sorted(set(why))[:3]))


LEAF_NODES = {"literal_block", "literal", "math", "math_block", "raw", "image", "comment", "target", "doctest_block"}


def project(doc, messages: bool = False):
    """doctree -> (nodes [{k,t,a}], par [parent index, 0 = document]) in document order;
    system messages are skipped (messages=True: kept as leaves, for the well-formedness view),
    adjacent Text siblings are read as one run"""
    from docutils import nodes
    out, par = [], []

    def attr(n):
        k = n.tagname
        if k == "reference":
            return _html.unescape(n["refuri"]) if "refuri" in n else (n["refname"] if "refname" in n else "*")
        if k == "image":
            return f"{n.get('uri', '')}|{n.get('alt', '')}"
        if k == "bullet_list":
            return n.get("bullet", "")
        if k == "enumerated_list":
            st = n.get("start")
            return f"{n.get('enumtype', '')}|{n.get('suffix', '')}|{'' if st is None else st}"
        if k == "literal_block":
            if "language" in n:
                return "" if n["language"] in ("none", "default") else n["language"]
            cl = [c for c in n.get("classes", []) if c != "code"]
            return cl[0] if cl else ""
        if k == "raw":
            return n.get("format", "")
        if k == "entry":
            cl = [c for c in n.get("classes", []) if c.startswith("text-")]
            return cl[0] if cl else ""
        if k == "tgroup":
            return str(n.get("cols", ""))
        if k == "rubric":
            return str(n.get("level", ""))
        return ""

    def walk(n, p):
        last_text = None
        for ch in n.children:
            if messages and isinstance(ch, nodes.system_message):
                out.append({"k": "system_message", "t": "", "a": ""})
                par.append(p)
                last_text = None
                continue
            if isinstance(ch, (nodes.system_message, nodes.pending, nodes.meta)):
                continue            # messages; html_meta placeholders (configuration, not tokens)
            if isinstance(ch, nodes.Text):
                if last_text is not None:
                    out[last_text]["t"] += str(ch)
                else:
                    out.append({"k": "#text", "t": str(ch), "a": ""})
                    par.append(p)
                    last_text = len(out) - 1
                continue
            last_text = None
            k = ch.tagname
            if k in LEAF_NODES:
                out.append({"k": k, "t": "" if k in ("image", "target") else ch.astext(), "a": attr(ch)})
                par.append(p)
                continue
            out.append({"k": k, "t": "", "a": attr(ch)})
            par.append(p)
            walk(ch, len(out))
    walk(doc, 0)
    return out, par


def parent_mismatches(doc) -> int:
    """number of nodes whose .parent is not the node whose children list holds them"""
    bad = 0
    stack = [doc]
    while stack:
        n = stack.pop()
        for ch in getattr(n, "children", []):
            if getattr(ch, "parent", n) is not n:
                bad += 1
            stack.append(ch)
    return bad


def dup_nodes(doc) -> int:
    """number of node objects that occur more than once in the tree (incl. system messages)"""
    seen, dups = set(), 0
    for n in doc.findall():
        if id(n) in seen:
            dups += 1
        seen.add(id(n))
    return dups


def idinfo(doc):
    """per element (document order, system messages skipped): ids, refid, backrefs, warned"""
    from docutils import nodes
    rows = []
    for n in doc.findall(nodes.Element):
        if isinstance(n, nodes.system_message) or any(isinstance(a, nodes.system_message) for a in _anc(n)):
            continue
        warned = any(isinstance(c, nodes.system_message) for c in n.children) or isinstance(n, nodes.problematic) \
            or any(isinstance(c, nodes.problematic) for c in n.children)
        if n.get("ids") or "refid" in n or n.get("backrefs"):
            rows.append({"k": n.tagname, "ids": list(n.get("ids", [])), "refid": (n["refid"] or "<empty refid>") if "refid" in n else "",
                         "backrefs": list(n.get("backrefs", [])), "warned": bool(warned)})
    return rows


def _anc(n):
    p = n.parent
    while p is not None:
        yield p
        p = p.parent


def parse_docutils(text, overrides=None, transforms=False, source_path=None):
    from .frontends import docutils_doctree
    return docutils_doctree(text, overrides, transforms=transforms, source_path=source_path)
