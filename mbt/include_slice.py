"""C04, included files: the slicing options of {include} (Include.tla).

T  TLC: M |= LineTrue, Content, Consecutive for every file <= MaxLines x every option combination;
   the Dev switches (character count for start-after, raw start-line, plus-one) are refuted.
R  every exported behaviour is concretised (words unique per physical line, markers SSS / EEE), included into a host
   document through the real directive, and the paragraphs of the result -- text, line, source path -- are compared with
   the rows the model reports.  A mismatch that is exactly the model with DevPlusOne (every line one too large) is the
   open finding C04-include-plus-one; anything else is a violation.
"""
from __future__ import annotations

import os

from . import tlc
from .pool import pmap

NONE = 99
BASE = {"DevCharCount": False, "DevNegStart": False, "DevPlusOne": False}
WORD = {"S": "SSS", "E": "EEE"}


def _file_text(file):
    return "".join(" ".join(WORD.get(it, f"w{k}x{i}") for i, it in enumerate(line)) + "\n" for k, line in enumerate(file, 1))


def _row_text(items):
    # the position of a word inside its physical line is not known after a cut: compare by the tag (line) and kind
    return [(WORD.get(x["it"], "w"), x["ln"]) for x in items]


def expected_paragraphs(out):
    """consecutive non-empty rows form one paragraph, reported at its first row"""
    paras, cur = [], None
    for row in out:
        if row["items"]:
            if cur is None:
                cur = {"line": row["rep"], "rows": []}
                paras.append(cur)
            cur["rows"].append(_row_text(row["items"]))
        else:
            cur = None
    return [(p["line"], p["rows"]) for p in paras]


def _obs_rows(text):
    rows = []
    for ln in text.split("\n"):
        r = []
        for w in ln.split():
            if w in ("SSS", "EEE"):
                r.append((w, None))
            else:
                r.append(("w", int(w[1:].split("x")[0])))
        rows.append(r)
    return rows


def _same_rows(exp_rows, obs_rows):
    if len(exp_rows) != len(obs_rows):
        return False
    for e, o in zip(exp_rows, obs_rows):
        if len(e) != len(o):
            return False
        for (ek, eln), (ok, oln) in zip(e, o):
            if ek != ok or (ek == "w" and eln != oln):
                return False
    return True


def _one(job):
    wd, k, rec = job
    from docutils import nodes

    from .frontends import docutils_doctree
    d = os.path.join(wd, f"s{k % 64}_{os.getpid()}")
    os.makedirs(d, exist_ok=True)
    inc = os.path.join(d, "inc.md")
    with open(inc, "w") as f:
        f.write(_file_text(rec["file"]))
    opts = []
    if rec["sl"] != NONE:
        opts.append(f":start-line: {rec['sl']}")
    if rec["el"] != NONE:
        opts.append(f":end-line: {rec['el']}")
    if rec["sa"]:
        opts.append(":start-after: SSS")
    if rec["eb"]:
        opts.append(":end-before: EEE")
    if k % 2:
        src = "host\n\n```{include} inc.md\n" + "".join(o + "\n" for o in opts) + "```\n\nafter\n"
    else:
        src = "host\n\n```{include} inc.md\n" + ("---\n" + "".join(o[1:] + "\n" for o in opts) + "---\n" if opts else "") + "```\n\nafter\n"
    case = {"leg": "R-include-slice", "markdown": src, "files": {"inc.md": _file_text(rec["file"])}}
    try:
        doc, warns = docutils_doctree(src, source_path=os.path.join(d, "host.md"), transforms=False)
    except Exception as e:  # noqa: BLE001
        return ("violation", f"include with slicing options raised {type(e).__name__}: {e}", case)
    paras = [p for p in doc.findall(nodes.paragraph) if not isinstance(p.parent, nodes.system_message)]
    host = [p for p in paras if p.astext() in ("host", "after")]
    inner = [p for p in paras if p.astext() not in ("host", "after")]
    msgs = [w["msg"] for w in warns]
    if len(host) != 2:
        return ("violation", "the host document's own paragraphs are disturbed by the include", {**case, "got": [p.astext() for p in paras]})
    if rec["err"] != "none":
        hit = [m for m in msgs if "text not found" in m and rec["err"] in m]
        if inner or len(hit) != 1:
            return ("violation", f"a missing {rec['err']} text must be reported once and nothing of the file rendered",
                    {**case, "got_paragraphs": [p.astext() for p in inner], "messages": msgs})
        return ("ok", None, None)
    if any("text not found" in m for m in msgs):
        return ("violation", "marker reported missing although it occurs in the selected lines", {**case, "messages": msgs})
    exp = expected_paragraphs(rec["out"])
    obs = [(p.line, _obs_rows(p.astext()), p.source) for p in inner]
    case["expected"] = [(ln, rows) for ln, rows in exp]
    case["observed"] = [(ln, rows) for ln, rows, _ in obs]
    if len(exp) != len(obs) or not all(_same_rows(e[1], o[1]) for e, o in zip(exp, obs)):
        return ("violation", "the included text differs from the specified selection (slice, after the first start marker, before the next end marker)", case)
    if any(os.path.basename(str(s or "")) != "inc.md" for _, _, s in obs):
        return ("violation", "paragraphs of an included file must carry that file as their source", {**case, "sources": [str(s) for _, _, s in obs]})
    lines_e, lines_o = [e[0] for e in exp], [o[0] for o in obs]
    if lines_e == lines_o:
        return ("ok", None, None)
    if lines_o == [x + 1 for x in lines_e]:
        return ("plus1", None, case)
    return ("violation", f"lines of the included paragraphs: expected {lines_e} (physical lines of the file), observed {lines_o}", case)


def leg(ctx, quick):
    scopes = [("full", 2), ("core", 3)] if quick else [("full", 3), ("core", 4)]
    recs = []
    for scope, ml in scopes:
        r = tlc.run("Include", tlc.cfg(ctx, f"inc_{scope}.cfg", {**BASE, "MaxLines": ml, "Scope": scope},
                                       invariants=["LineTrue", "Content", "Consecutive", "Emit"]), wd=ctx.wd, timeout=1500)
        tlc.expect_holds(r, f"Include[{scope},{ml}] M |= S")
        ctx.add_tlc(f"Include_{scope}", r, f"files <= {ml} lines ({scope} line shapes) x 120 option combinations")
        recs += r.records
    rc = tlc.run("Include", tlc.cfg(ctx, "inc_cov.cfg", {**BASE, "MaxLines": 2, "Scope": "core"}, invariants=["LineTrue", "Content"]), wd=ctx.wd, coverage=True)
    for act in ("Slice", "After", "Before", "Render"):
        if rc.coverage.get(act, (0, 0))[0] == 0:
            raise tlc.MachineryFailure(f"Include: action {act} never taken (vacuous)")
    ctx.add_tlc("Include_cov", rc)
    for dev in ("DevCharCount", "DevNegStart", "DevPlusOne"):
        rd = tlc.run("Include", tlc.cfg(ctx, f"inc_{dev}.cfg", {**BASE, dev: True, "MaxLines": 2, "Scope": "core"}, invariants=["LineTrue"]), wd=ctx.wd)
        tlc.expect_violation(rd, "LineTrue", f"Include {dev}")
        ctx.add_tlc(f"Include_{dev}", rd, "expected counterexample found")
    seen, jobs = set(), []
    for rec in recs:
        key = repr((rec["file"], rec["sl"], rec["el"], rec["sa"], rec["eb"]))
        if key in seen:
            continue
        seen.add(key)
        jobs.append((str(ctx.wd / "incs"), len(jobs), rec))
    import random
    rnd = random.Random(ctx.seed + 44)
    cap = 6000 if quick else 150000
    if len(jobs) > cap:
        # every file x option combination of the 2-line scope is kept; the deeper scope is sampled
        small = [j for j in jobs if len(j[2]["file"]) <= (1 if quick else 2)]
        rest = [j for j in jobs if len(j[2]["file"]) > (1 if quick else 2)]
        jobs = small + rnd.sample(rest, max(0, min(len(rest), cap - len(small))))
    res = pmap(_one, jobs, chunksize=256)
    plus1 = 0
    for (_, k, rec), (verdict, msg, case) in zip(jobs, res):
        nontrivial = rec["sa"] or rec["eb"] or rec["sl"] != NONE or rec["el"] != NONE
        ctx.count(("incslice", k), nontrivial)
        ctx.traces_validated += 1
        if verdict == "violation":
            ctx.violation(msg, case)
        elif verdict == "plus1":
            plus1 += 1
            if True:
                ctx.violation("lines of an included file are reported one too large", case, finding="C04-include-plus-one")
    ctx.leg("R-include-slice", includes=len(jobs), plus_one=plus1)
    import shutil
    shutil.rmtree(ctx.wd / "incs", ignore_errors=True)
