"""Front-end runners: docutils (in-process) and Sphinx (in-process, persistent)."""
from __future__ import annotations

import io
import re
from pathlib import Path

_WARN = re.compile(r"^(?P<src>.*?):(?:(?P<line>\d+):)? \((?P<level>[A-Z]+)/\d\) (?P<msg>.*?)(?: \[(?P<tag>[\w.\-*]+)\])?$")


def parse_warnings(stream_text: str) -> list[dict]:
    """docutils warning stream -> [{src, line, level, tag, msg}] (message text is kept for
    replay files only; verdicts never depend on it)."""
    out = []
    for ln in stream_text.splitlines():
        m = _WARN.match(ln)
        if m:
            d = m.groupdict()
            d["line"] = int(d["line"]) if d["line"] else None
            out.append(d)
    return out


_REGISTERED = False


def register_harness_directives():
    """A user directive of the kind Sphinx's `only` / nested_parse_with_titles are: the body is
    parsed into a node with headings allowed (match_titles=True).  docutils ships none, so the
    harness registers one (any project may)."""
    global _REGISTERED
    if _REGISTERED:
        return
    from docutils import nodes
    from docutils.parsers.rst import Directive, directives

    class VerifTitles(Directive):
        has_content = True

        def run(self):
            node = nodes.container()
            self.state.nested_parse(self.content, self.content_offset, node, match_titles=True)
            return [node]

    directives.register_directive("verif-titles", VerifTitles)
    _REGISTERED = True


def docutils_doctree(text: str, overrides: dict | None = None, *, transforms: bool = True,
                     source_path: str | None = None):
    """Returns (doctree, warnings list). halt_level=5: nothing is turned into an exception by
    docutils' own halting, so every problem must surface as a node/warning (DESIGN 4.4)."""
    from docutils.core import publish_doctree
    from docutils.frontend import get_default_settings
    from docutils.utils import new_document
    from myst_parser.parsers.docutils_ import Parser

    register_harness_directives()
    ws = io.StringIO()
    ov = {"warning_stream": ws, "halt_level": 5, "report_level": 2,
          "doctitle_xform": False, "sectsubtitle_xform": False,
          "output_encoding": "unicode", "myst_suppress_warnings": []}
    if overrides:
        ov.update(overrides)
    if transforms:
        doc = publish_doctree(text, source_path=source_path, parser=Parser(), settings_overrides=ov)
    else:
        parser = Parser()
        settings = get_default_settings(Parser)
        for k, v in ov.items():
            setattr(settings, k, v)
        doc = new_document(source_path or "<string>", settings)
        parser.parse(text, doc)
    return doc, parse_warnings(ws.getvalue())


def s2c(s: str) -> list[int]:
    return [ord(c) for c in s]


def c2s(c) -> str:
    return "".join(chr(x) for x in c)
