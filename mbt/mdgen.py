"""Concretiser: abstract block trees -> Markdown text (+ included files).

A block is a dict:
  {"k": "h", "level": L, "text": "T3"}            heading
  {"k": "p", "text": "P4"}                        paragraph
  {"k": "code", "text": "C5"}                     fenced code block (no language)
  {"k": "quote"|"item"|"olitem", "kids": [...]}   containers
  {"k": "dir", "name": "note", "colon": bool, "opts": [(k, v)], "optstyle": "colon"|"yaml",
   "arg": "", "blank_before": n, "blank_after": n, "kids": [...]}
  {"k": "div", "kids": [...]}                     bare colon fence container
  {"k": "inc", "file": "inc1.md", "opts": [(k, v)], "kids": [...]}   include of a file holding kids
  {"k": "raw", "lines": [...]}                    literal lines
The text is assembled line by line, so the line of every marker word is known by scanning.
"""
from __future__ import annotations


def _fence_len(kids) -> int:
    """longer than any fence anywhere below (kids are rendered first, so their _flen is set)"""
    m = 2
    for b in kids:
        if b["k"] in ("dir", "div", "inc", "code"):
            m = max(m, b.get("_flen", 3))
        elif "kids" in b:
            m = max(m, _fence_len(b["kids"]) - 1)
    return m + 1


def render(blocks, files: dict | None = None) -> list[str]:
    """-> list of lines (no trailing newlines); included files are added to `files`."""
    files = files if files is not None else {}
    out: list[str] = []
    for i, b in enumerate(blocks):
        lines = _block(b, files)
        if out and not b.get("tight"):
            out.append("")
        out.extend(lines)
    return out


def _block(b, files) -> list[str]:
    k = b["k"]
    if k == "h":
        return ["#" * b["level"] + " " + b["text"]]
    if k == "p":
        return b["text"].split("\n")
    if k == "raw":
        return list(b["lines"])
    if k == "code":
        b["_flen"] = 3
        return ["```"] + b["text"].split("\n") + ["```"]
    if k == "hr":
        return ["***"]
    if k == "quote":
        inner = render(b["kids"], files)
        return [("> " + ln) if ln else ">" for ln in inner]
    if k in ("item", "olitem"):
        inner = render(b["kids"], files) or [""]
        mark = "- " if k == "item" else "1. "
        pad = " " * len(mark)
        return [mark + inner[0]] + [(pad + ln) if ln else "" for ln in inner[1:]]
    if k in ("dir", "div", "inc"):
        if k == "inc":
            sub: dict = {}
            inner_lines = render(b["kids"], files)
            files[b["file"]] = "\n".join(inner_lines) + "\n"
            body = []
            name, arg, flen, ch = "include", b["file"], 3, "`"
        else:
            body = render(b["kids"], files)
            flen = _fence_len(b["kids"])
            ch = ":" if (k == "div" or b.get("colon")) else "`"
            name, arg = b.get("name", ""), b.get("arg", "")
        b["_flen"] = flen
        fence = ch * flen
        head = fence + ("{" + name + "}" if k != "div" else (name or "")) + ((" " + arg) if arg else "")
        lines = [head]
        opts = b.get("opts") or []
        if opts:
            if b.get("optstyle", "colon") == "yaml":
                lines.append("---")
                lines += [f"{ok}: {ov}" if ov != "" else f"{ok}:" for ok, ov in opts]
                lines.append("---")
            else:
                lines += [f":{ok}: {ov}" if ov != "" else f":{ok}:" for ok, ov in opts]
        lines += [""] * b.get("blank_before", 1 if (opts and body) else 0)
        lines += body
        lines += [""] * b.get("blank_after", 0)
        lines.append(fence)
        return lines
    raise ValueError(k)


def marker_lines(text: str) -> dict[str, int]:
    """1-based line of the first occurrence of every marker word (letters+digits token)."""
    import re
    out: dict[str, int] = {}
    for n, ln in enumerate(text.split("\n"), 1):
        for m in re.finditer(r"\b[A-Z]+\d+(?:x\d+)*\b", ln):
            out.setdefault(m.group(0), n)
    return out
