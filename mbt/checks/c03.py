"""C03 -- every produced document is a well-formed docutils tree.

T  Render.tla: TreeConsistent, SectionPlacement, TransitionPlacement, TitleOnlyInSection,
   RowWidth are invariants of every reachable state of the renderer model on every generated
   token sequence; Dev_HrAnywhere regression (transition under block_quote).
R  every generated behaviour concretised and parsed: the observed tree must be M's (whose
   well-formedness TLC has checked).
V  commonmark.json, fixture inputs, grammar documents and documents built to stress the
   registries (duplicate targets/ids/titles, links to present and missing anchors, footnotes,
   ragged tables, headings in containers), each parsed and transformed; RenderTrace evaluates
   S's clauses on BOTH observed trees (after parsing, after the transform pipeline) and on
   the id/refid/backref bookkeeping.
"""
from __future__ import annotations

import random
import shutil

from .. import tlc
from . import c02

META = {
    "level": "model_checking",
    "text": "TLC checks the well-formedness clauses (one parent and one occurrence per node, sections only under document/section and starting with a title, transitions only under document/section, row width = declared columns) as invariants of every reachable state of the renderer model on every generated token sequence within the bound; every behaviour is replayed through both renderers; for corpus, grammar and registry-stressing documents TLC evaluates the same clauses plus id uniqueness, refid/backref resolution and footnote labels on the observed trees after parsing and after the transform pipeline.",
    "note": "Bounds as C02 (shared model). Id uniqueness and reference resolution are checked on the docutils front end after publish_doctree; a refid may dangle only if a warning/problematic node accompanies it.",
    "technique": "TLA+ spec + TLC exhaustive check; spec-behaviour replay into the code (both renderers); TLC batch trace validation",
    "specs": ["Render", "RenderTrace"],
}


def stress_docs(rnd, n):
    out = []
    parts = ["(tgt)=", "(tgt)=", "(Other)=", "# Title", "# Title", "## Sub {#myid}", "## Sub", "### a", "para {#myid}", "[l](#tgt)", "[](#title)",
             "[m](#nosuch)", "[](#title-1)", "text [^f1] and [^f2]", "[^f1]: note one", "[^f1]: dup", "[^f3]: unused", "| a | b |\n|---|---|\n| 1 |\n| 1 | 2 | 3 |",
             "> # quoted heading\n>\n> ***", "- item\n\n  ## heading in item\n\n  ---", "***", "term\n: def", "{.cls #pid}\npara with id",
             "```{note}\n# in note\n\n---\n```", ":::{tip}\n(tgt2)=\ninner\n:::", "[ref]: https://e.x\n\n[ref] [ref][]", "<div>html</div>", "$$a=1$$ (eq1)", "$$b$$ (eq1)",
             "# 日本語\n\n[j](#日本語)", "## Ünï ćödé\n\n[](#ünï-ćödé)", "## 123\n\n[n](#123)", "# With {#explicit}\n\n[e](#with) [f](#explicit)",
             "# Same\n\n# Same\n\n[s](#same-1) [t](#same)",
             "```{verif-titles}\n---\n\nsecond\n```", "```{verif-titles}\nfirst\n\n***\n\n## Heading inside\n\ntext\n\n---\n```",
             "> ```{verif-titles}\n> a\n>\n> ***\n> ```", "- ```{verif-titles}\n  # t\n\n  ---\n  ```",
             # a footnote whose label is also the name of an explicit target / a named directive
             "(fnt)=\n\npara\n\n[^fnt]: clash\n\nref [^fnt]", "```{tip}\n:name: fn2\nx\n```\n\n[^fn2]: clash two\n\nr [^fn2]",
             # the same substitution (an id and a footnote reference inside) used more than once
             "{{ prod }} one\n\ntwo {{ prod }} and {{ prod }}", "{{ blk }}",
             # a numeric footnote label that is also another element's name
             "## 2023\n\nyear [^2023]\n\n[^2023]: numeric clash", "$$a=b$$ (1)\n\nm [^1]\n\n[^1]: math label clash",
             # nested line blocks (containers created by the mock state machine)
             "```{line-block}\nfirst\n  indented\n    deeper\nback\n```",
             # several raw nodes (a hard break makes two)
             "line a\\\nline b and <b>inline</b>\n\n<div>block</div>", "> ---\n\n~~s~~",
             # a warning raised inside nested inline markup of a directive's title / caption (state.inline_text)
             "```{admonition} Use the *new {nosuchrole}`Ctrl+K` shortcut*\nbody\n```", "```{table} Caption **{nosuchrole}`x`** end\n| a |\n|---|\n| 1 |\n```",
             "```{rubric} R *{nosuchrole}`y`*\n```",
             # a footnote reference inside an image's alt text (rendered as text only: nothing may be registered for it)
             "![Rate[^f2] and [^f3]](rates.png)", "![a $m$ {sub}`2` b[^f1]](i.png)\n\n[^f1]: again",
             # tables built by the mock state machine: empty fields, short rows, an empty corner
             "```{csv-table}\n:header: a,,c\n\n1,,3\n4,5\n,,\n```", "```{csv-table} T\n:stub-columns: 1\n\n,h1\nr,\n```",
             "```{list-table}\n* - a\n  -\n* - c\n  - d\n```",
             '<div class="admonition">\n<![foo]>\n</div>', '<img src="a.png" alt="x">', '<div class="admonition note">\n<p class="title">T</p>\nbody\n</div>']
    for t in range(n):
        k = rnd.randint(2, 8)
        out.append((f"stress{t}", "\n\n".join(rnd.choice(parts) for _ in range(k)) + "\n"))
    return out


def run(ctx):
    quick = ctx.tier == "quick"
    rnd = random.Random(ctx.seed + 3)
    ctx.rule = ("R: as C02 (every generated token sequence; M's tree satisfies the clauses by TLC). V: commonmark.json, fixture inputs, grammar documents, "
                "registry-stressing documents x {CommonMark, MyST}; clauses evaluated on the observed pre- and post-transform trees. "
                "non-trivial = more than 6 token events or a stress document")
    ctx.assumptions += ["docutils front end for the post-transform tree and the id bookkeeping"]
    recs = c02.run_render(ctx, "C03")
    c02.replay_leg(ctx, recs)
    c02.trace_leg(ctx, "C03", extra_docs=stress_docs(rnd, 400 if quick else 8000))
    shutil.rmtree(ctx.wd / "docs", ignore_errors=True)
    ctx.exhaustive = True


def replay(case) -> int:
    c = case.get("case", case)
    print(c.get("markdown"))
    print("clause:", case.get("clause"))
    return 1
