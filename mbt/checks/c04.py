"""C04 -- nodes and warnings carry the true source line, at any nesting depth.

T  Lines.tla: the line arithmetic as the code composes it (token map rows + the lineno of the
   parse unit + 1; a directive body is a new unit at position + body_offset; ::: containers;
   included files) |= TrueLines (the physical line of every frame and of the leaf, and the
   file it is in) for every layout within the bound; three Dev regressions (as-built).
R  every layout concretised with unique markers and rendered by the docutils front end:
   .line / .source of the node of every frame (block quote, list, directive output,
   container) and of the leaf (paragraph, heading, code block, list, target, warning).
V  random deeper layouts, validated by LinesTrace.
"""
from __future__ import annotations

import os
import random
import shutil
from pathlib import Path

from .. import tlc
from ..pool import pmap

META = {
    "level": "model_checking",
    "text": "TLC checks the line-number arithmetic model (rows of a parse unit, the unit's base line, directive body offset from the directive splitter, colon containers, included files with their own source) against the physical line of every frame and leaf for every layout within the bound; every layout is concretised with unique markers and replayed through the docutils front end, comparing .line/.source of every wrapper node, leaf node and warning; random deeper layouts are validated as traces by TLC.",
    "note": "Bound: paths <= 2 frames over 58 frame shapes (6 wrappers x option style x option count x blank lines x preceding siblings) x 6 leaf kinds x 2 preambles, and paths of 3 frames over a 12-shape subset. docutils front end (the Sphinx front end shares the renderer; its warning locations are printed by Sphinx). Two as-built deviations are open findings (lines inside an included file, body text on the fence line); a third (a ::: directive whose body starts with a ::: fence) was repaired.",
    "technique": "TLA+ spec + TLC exhaustive check; spec-behaviour replay into the code; TLC batch trace validation",
    "specs": ["Lines", "LinesTrace", "Include"],
}

LEAVES = ["para", "heading", "code", "list", "target", "warn"]


def frame(w, opt="none", nopt=0, blanks=0, skip=0, first=False, post=0, dname="note"):
    return {"w": w, "opt": opt, "nopt": nopt, "blanks": blanks, "skip": skip, "first": first, "post": post, "dname": dname}


def all_frames():
    fs = []
    for w in ("quote", "list", "div", "inc"):
        for skip in (0, 1):
            fs.append(frame(w, skip=skip))
    for w in ("btick", "colon"):
        for opt, nopt in (("none", 0), ("colon", 1), ("colon", 2), ("yaml", 1)):
            for blanks in (0, 1, 2):
                for skip in (0, 1):
                    fs.append(frame(w, opt, nopt, blanks, skip))
        fs.append(frame(w, first=True))
        fs.append(frame(w, "none", 0, 1, 0, post=1))
        fs.append(frame(w, "none", 0, 2, 0, dname="epigraph"))       # (docutils' quote directives have no options)
        fs.append(frame(w, "none", 0, 0, 1, post=1, dname="epigraph"))
        # a directive that sets no source position on the node it returns
        fs.append(frame(w, "none", 0, 0, 0, dname="container"))
        fs.append(frame(w, "none", 0, 1, 1, post=1, dname="container"))
    for w in ("quote", "list", "div", "inc"):
        fs.append(frame(w, post=1))
    return fs


def small_frames():
    fs = [frame(w) for w in ("quote", "list", "div", "inc")] + [frame("inc", post=1), frame("quote", post=1), frame("btick", dname="epigraph"), frame("colon", dname="container")]
    for w in ("btick", "colon"):
        for opt, nopt in (("none", 0), ("colon", 1)):
            for blanks in (0, 1):
                fs.append(frame(w, opt, nopt, blanks))
    return fs


def fexpr(f):
    return "[" + ", ".join(f"{k} |-> {tlc.tla_expr(v)}" for k, v in f.items()) + "]"


# ------------------------------------------------------------------ concretise
def concretize(path, pre, leaf, uid):
    """-> (text, files, leafinfo)"""
    files = {}
    m = f"x{uid}"
    if leaf == "para":
        inner = [f"PARA{m}"]
    elif leaf == "heading":
        inner = [f"# HEAD{m}"]
    elif leaf == "code":
        inner = ["```", f"CODE{m}", "```"]
    elif leaf == "list":
        inner = [f"- LIST{m}"]
    elif leaf == "target":
        inner = [f"(tgt{m})=", "", f"AFTER{m}"]
    else:
        inner = [f"{{nosuchrole}}`WARN{m}`"]
    for n in range(len(path), 0, -1):
        f = path[n - 1]
        sib = []
        for s_ in range(f["skip"]):
            sib += [f"SIB{n}s{s_}{m}", ""]
        if f["post"]:
            inner = inner + ["", f"POST{n}p{m}"]
        w = f["w"]
        if w == "quote":
            body = sib + inner
            inner = [("> " + ln) if ln else ">" for ln in body]
        elif w == "list":
            body = sib + inner
            inner = ["- " + body[0]] + [("  " + ln) if ln else "" for ln in body[1:]]
        elif w in ("btick", "colon", "div"):
            ch = "`" if w == "btick" else ":"
            import re as _re
            runs_ = [len(mm.group(1)) for mm in (_re.match(r"[\s>\-]*(" + _re.escape(ch) + r"{3,})", ln) for ln in inner) if mm]
            flen = max([2] + runs_) + 1
            flen = max(flen, 3)
            fence = ch * flen
            if w == "div":
                inner = [fence] + sib + inner + [fence]
            elif f["first"]:
                inner = [fence + "{note} " + inner[0], fence]
            else:
                opts = []
                if f["opt"] == "colon":
                    opts = [":class: c1", f":name: nm{n}{m}"][: f["nopt"]]
                elif f["opt"] == "yaml":
                    opts = ["---", "class: c1", "---"]
                tail = ["", f"-- Attrib{n}{m}"] if f["dname"] == "epigraph" else []
                inner = [fence + "{" + f["dname"] + "}"] + opts + [""] * f["blanks"] + sib + inner + tail + [fence]
        elif w == "inc":
            fn = f"inc{n}{m}.md"
            files[fn] = "\n".join(sib + inner) + "\n"
            inner = [f"```{{include}} {fn}", "```"]
    lines = (["PRE", ""] if pre == 2 else []) + inner
    # a duplicate reference definition at document level after everything else (its warning must name this line)
    lines += ["", f"[dupref{uid}]: https://e.x/1", f"[dupref{uid}]: https://e.x/2"]
    # two directives whose bodies are the same text
    lines += ["", "```{note}", f"TWIN{uid}", "```", "", "```{note}", f"TWIN{uid}", "```"]
    return "\n".join(lines) + "\n", files


def observe(case):
    """render and return, per mark (frames with a node, outermost first, then the leaf): [line, src]"""
    from docutils import nodes
    from ..frontends import docutils_doctree
    path, pre, leaf, uid = case["path"], case["pre"], case["leaf"], case["id"]
    d = Path(case["wd"]) / f"l{os.getpid()}"
    d.mkdir(parents=True, exist_ok=True)
    text, files = concretize(path, pre, leaf, uid)
    for fn, c in files.items():
        (d / fn).write_text(c)
    src = d / "doc.md"
    src.write_text(text)
    try:
        conf = {"myst_enable_extensions": ["colon_fence"]}
        if case["id"] % 2:
            conf["myst_highlight_code_blocks"] = False          # (another code path creates the literal block)
        doc, warns = docutils_doctree(text, conf, transforms=False, source_path=str(src))
    except Exception as e:  # noqa: BLE001
        return {"error": f"{type(e).__name__}: {e}", "text": text, "files": files}
    finally:
        for fn in files:
            try:
                (d / fn).unlink()
            except OSError:
                pass
    m = f"x{uid}"

    def srcidx(s):
        b = os.path.basename(str(s or ""))
        if b == "doc.md":
            return 0
        if b.startswith("inc") and b.endswith(f"{m}.md"):
            return int(b[3:-len(m) - 3])
        return -1
    key = {"para": "PARA", "heading": "HEAD", "code": "CODE", "list": "LIST", "target": "AFTER", "warn": "WARN"}[leaf] + m
    leafnode = None
    want = {"para": nodes.paragraph, "heading": (nodes.title, nodes.rubric), "code": nodes.literal_block, "list": nodes.bullet_list,
            "target": nodes.target, "warn": nodes.paragraph}[leaf]
    for n in doc.findall(lambda x: isinstance(x, want)):
        if any(isinstance(a, nodes.system_message) for a in _anc(n)):
            continue
        if leaf == "target":
            if f"tgt{m}" in n.get("names", []) + n.get("ids", []) or n.get("refid") == f"tgt{m}":
                leafnode = n
        elif leaf == "warn":
            # the unknown role leaves only its system message in the paragraph
            if any(isinstance(ch, nodes.system_message) and "nosuchrole" in ch.astext() for ch in n.children):
                leafnode = n
        elif key in n.astext():
            leafnode = n                     # the innermost match comes last in document order
    if leafnode is None:
        return {"problem": f"no {leaf} node with marker {key}", "text": text, "files": files}
    obs = []
    chain = [a for a in reversed(list(_anc(leafnode))) if isinstance(a, (nodes.block_quote, nodes.bullet_list, nodes.note, nodes.container))]
    if leaf == "list":
        pass
    frames_with_node = [f for f in path if f["w"] != "inc"]
    if len(chain) != len(frames_with_node):
        return {"problem": f"{len(chain)} wrapper nodes around the leaf for {len(frames_with_node)} wrappers written", "text": text, "files": files}
    for a in chain:
        obs.append([a.line if a.line is not None else -1, srcidx(a.source)])
    if leaf == "warn":
        ws = [w for w in warns if w["tag"] == "myst.role_unknown"]
        if len(ws) != 1:
            return {"problem": f"{len(ws)} [myst.role_unknown] warnings", "text": text, "files": files}
        obs.append([ws[0]["line"] if ws[0]["line"] is not None else -1, srcidx(ws[0]["src"])])
    else:
        obs.append([leafnode.line if leafnode.line is not None else -1, srcidx(leafnode.source)])
    for n in range(len(path), 0, -1):
        if path[n - 1]["post"]:
            ps = [p_ for p_ in doc.findall(nodes.paragraph) if f"POST{n}p{m}" in p_.astext() and not any(isinstance(a, nodes.system_message) for a in _anc(p_))]
            if len(ps) != 1:
                return {"problem": f"sibling paragraph POST{n} occurs {len(ps)} times", "text": text, "files": files}
            obs.append([ps[-1].line if ps[-1].line is not None else -1, srcidx(ps[-1].source)])
        if path[n - 1]["dname"] == "epigraph":
            ats = [a for a in doc.findall(nodes.attribution) if f"Attrib{n}{m}" in a.astext()]
            if len(ats) != 1:
                return {"problem": f"attribution Attrib{n} occurs {len(ats)} times", "text": text, "files": files}
            obs.append([ats[0].line if ats[0].line is not None else -1, srcidx(ats[0].source)])
    dd = [w for w in warns if w["tag"] == "myst.duplicate_def"]
    if len(dd) != 1:
        return {"problem": f"{len(dd)} [myst.duplicate_def] warnings", "text": text, "files": files}
    obs.append([dd[0]["line"] if dd[0]["line"] is not None else -1, srcidx(dd[0]["src"])])
    tw = [p_ for p_ in doc.findall(nodes.paragraph) if p_.astext() == f"TWIN{uid}"]
    if len(tw) != 2:
        return {"problem": f"{len(tw)} twin paragraphs", "text": text, "files": files}
    obs += [[p_.line if p_.line is not None else -1, srcidx(p_.source)] for p_ in tw]
    return {"obs": obs, "text": text, "files": files}


def _anc(n):
    p = n.parent
    while p is not None:
        yield p
        p = p.parent


def run(ctx):
    quick = ctx.tier == "quick"
    rnd = random.Random(ctx.seed + 4)
    ctx.rule = ("R: every layout within the bound (path of frames x preamble x leaf), each with unique markers. V: random layouts of depth 3-5. "
                "non-trivial = at least one directive, container or include frame")
    ctx.assumptions += ["docutils front end, pre-transform doctree; the true line is known by construction and double-checked by M's S clause"]
    base = {"DevIncludePlusOne": False, "DevColonNested": False, "DevFirstLine": False, "DevRestoreToTop": False, "DevAttribution": False, "DevQuoteNoLine": False, "DevDupShift": False, "DevTokenMemo": False}
    runs = [("depth2", all_frames(), 2, [0, 2], LEAVES), ("depth3", small_frames(), 3, [0], LEAVES if not quick else ["para", "heading", "warn"])]
    if not quick:
        runs.append(("depth4", [frame(w) for w in ("quote", "list", "div", "inc")] + [frame("btick", "colon", 1, 1), frame("colon", "none", 0, 0), frame("colon", "yaml", 1, 0)], 4, [0], ["para", "warn"]))
    recs = []
    for name, frames, depth, pres, leaves in runs:
        consts = {**base, "Frames": "<-FramesV", "MaxDepth": depth, "Pres": set(pres), "Leaves": set(leaves)}
        r = tlc.run("Lines", tlc.cfg(ctx, f"l_{name}.cfg", consts, invariants=["TrueLines", "Emit"], properties=["Terminates"]), wd=ctx.wd, timeout=3000,
                    defs={"FramesV": "{" + ", ".join(fexpr(f) for f in frames) + "}"})
        tlc.expect_holds(r, f"Lines[{name}] M |= S")
        ctx.add_tlc(f"Lines_{name}", r, f"paths <= {depth} over {len(frames)} frame shapes x {len(leaves)} leaves x {len(pres)} preambles")
        recs += r.records
    fv = {"FramesV": "{" + ", ".join(fexpr(f) for f in small_frames() + [frame("colon", first=True)]) + "}"}
    base3 = dict(base)
    rc = tlc.run("Lines", tlc.cfg(ctx, "l_cov.cfg", {**base, "Frames": "<-FramesV", "MaxDepth": 2, "Pres": {0}, "Leaves": {"para"}}, invariants=["TrueLines"]),
                 wd=ctx.wd, coverage=True, defs=fv)
    for act in ("EnterQuoteOrList", "EnterDirective", "EnterDiv", "EnterInclude", "Leaf", "Exit"):
        if rc.coverage.get(act, (0, 0))[0] == 0:
            raise tlc.MachineryFailure(f"Lines: action {act} never taken (vacuous)")
    ctx.add_tlc("Lines_cov", rc)
    for dev in ("DevIncludePlusOne", "DevColonNested", "DevFirstLine", "DevRestoreToTop", "DevAttribution", "DevQuoteNoLine", "DevDupShift", "DevTokenMemo"):
        rd = tlc.run("Lines", tlc.cfg(ctx, f"l_{dev}.cfg", {**base, dev: True, "Frames": "<-FramesV", "MaxDepth": 2, "Pres": {0}, "Leaves": {"para"}},
                                      invariants=["TrueLines"]), wd=ctx.wd, defs=fv)
        tlc.expect_violation(rd, "TrueLines", f"Lines {dev}")
        ctx.add_tlc(f"Lines_{dev}", rd, "expected counterexample found")

    # ---- R ----------------------------------------------------------------------------------
    seen, cases = set(), []
    for rec in recs:
        key = repr((rec["path"], rec["pre"], rec["leaf"]))
        if key in seen:
            continue
        seen.add(key)
        cases.append({"id": len(cases), "path": rec["path"], "pre": rec["pre"], "leaf": rec["leaf"], "marks": rec["marks"], "wd": str(ctx.wd / "docs")})
    outs = pmap(observe, cases, chunksize=64)
    for c, o in zip(cases, outs):
        judge(ctx, "R", c, c["marks"], o)
    mid = cases[len(cases) // 2]
    ctx.sample({"path": mid["path"], "leaf": mid["leaf"], "markdown": concretize(mid["path"], mid["pre"], mid["leaf"], mid["id"])[0],
                "expected_marks": [[m["what"], m["m"], m["src"]] for m in mid["marks"]]})
    ctx.leg("R", layouts=len(cases))

    # ---- V ----------------------------------------------------------------------------------
    pool = all_frames()
    vcases = []
    for t in range(300 if quick else 6000):
        depth = rnd.randint(3, 5)
        while True:
            path = [dict(rnd.choice(pool)) for _ in range(depth)]
            if sum(1 for f in path if f["w"] == "inc") > 2:
                continue
            ok = True
            for n, f in enumerate(path):
                if f["first"] and n != len(path) - 1:
                    ok = False
            if ok:
                break
        leaf = "para" if path[-1]["first"] else rnd.choice(LEAVES)
        vcases.append({"id": 1_000_000 + t, "path": path, "pre": rnd.choice([0, 2]), "leaf": leaf, "wd": str(ctx.wd / "docs")})
    vouts = pmap(observe, vcases, chunksize=16)
    traces, keep = [], {}
    vmiss = 0
    for c, o in zip(vcases, vouts):
        case = {"leg": "V", "markdown": o.get("text"), "files": o.get("files"), "path": c["path"], "leaf": c["leaf"]}
        if "error" in o:
            ctx.violation(f"rendering raised {o['error']}", case)
            continue
        if "problem" in o:
            ctx.gen_miss += 1
            vmiss += 1
            continue
        ctx.count(("v", c["id"]))
        keep[c["id"]] = (c, o)
        traces.append({"id": c["id"], "path": c["path"], "pre": c["pre"], "leaf": c["leaf"], "obs": o["obs"]})
    if vmiss > 0.3 * len(vcases):
        raise tlc.MachineryFailure(f"Lines V: {vmiss} of {len(vcases)} layouts did not render to the intended nesting")
    verdicts = _validate(ctx, traces, base, "l_trace", "LinesTrace")
    suspects = []
    for v in verdicts:
        ctx.traces_validated += 1
        if v["bad"]:
            suspects.append(v["id"])
    _findings(ctx, "V", suspects, traces, keep, base, verdicts)
    ctx.leg("V", traces=len(traces))
    _sphinx_include_leg(ctx)
    _line_block_leg(ctx)
    from .. import include_slice
    include_slice.leg(ctx, quick)
    shutil.rmtree(ctx.wd / "docs", ignore_errors=True)
    ctx.exhaustive = True


def _line_block_leg(ctx):
    """lines a directive hands to state.inline_text one by one (docutils' line-block): a MyST warning raised in such a
    line carries that line's number, at any nesting and with either option style"""
    import re
    from ..frontends import docutils_doctree
    bodies = [["first {nosuchrole}`a`", "second", "  third {nosuchrole}`b`"], ["one", "two {nosuchrole}`c`"]]
    n = 0
    for body in bodies:
        for opts in ([], [":class: c", ""], ["---", "class: c", "---"]):
            for wrap in ("", "> ", "note"):
                inner = ["```{line-block}"] + opts + body + ["```"]
                if wrap == "> ":
                    inner = ["> " + ln if ln else ">" for ln in inner]
                elif wrap == "note":
                    inner = ["````{note}"] + inner + ["````"]
                text = "\n".join(["para", ""] + inner + ["", "after"]) + "\n"
                want = [k + 1 for k, ln in enumerate(text.split("\n")) if "nosuchrole" in ln]
                doc, warns = docutils_doctree(text, {})
                got = sorted(w["line"] for w in warns if w["tag"] == "myst.role_unknown")
                n += 1
                ctx.count(("line-block", text))
                ctx.traces_validated += 1
                if got != want:
                    ctx.violation(f"warnings raised in the lines of a line-block: expected lines {want}, observed {got}", {"leg": "R-line-block", "markdown": text})
    ctx.leg("R-line-block", documents=n)


def _sphinx_include_leg(ctx):
    """Sphinx front end: a warning raised inside an included file names THAT file (the source path is switched while the
    include is rendered; M: src = the include frame)"""
    from ..sphinx_runner import run_project
    files = {"index.md": "# T\n\ntext\n\n```{include} part.txt\n```\n\n> ```{include} sub/deep.txt\n> ```\n\n{nosuchrole}`top`\n",
             "part.txt": "first\n\n{nosuchrole}`x`\n", "sub/deep.txt": "one\n\ntwo\n\n{nosuchrole}`y`\n"}
    r = run_project(ctx.wd / "sx_inc", files, {}, resolve=False)
    ctx.count(("sphinx-include",))
    ctx.traces_validated += 1
    case = {"leg": "R-sphinx-include", "files": files}
    if not r["ok"]:
        ctx.violation(f"Sphinx build failed: {r['error']}", case)
        return
    ws = [(os.path.basename(w["src"] or "").split(".")[0], w["line"]) for w in (r.get("build_warnings") or r["warnings"]) if w["tag"] == "myst.role_unknown"]
    # true lines 3 / 5 in the included files (reported +1: the open finding C04-include-plus-one), 11 in index.md
    want = {("part", (3, 4)), ("deep", (5, 6)), ("index", (11,))}
    got_ok = len(ws) == 3 and all(any(f == wf and ln in wl for wf, wl in want) for f, ln in ws) and len({f for f, _ in ws}) == 3
    if not got_ok:
        ctx.violation(f"Sphinx: warnings raised inside included files must name the included file and its line: observed {sorted(ws, key=str)}, "
                      "expected part.txt:3, sub/deep.txt:5, index.md:11", case)
    ctx.leg("R-sphinx-include", builds=1)


def _validate(ctx, traces, consts, name, label):
    tf = ctx.wd / f"{name}.ndjson"
    tlc.write_ndjson(tf, traces)
    cs = {**consts, "Frames": "<-FramesV", "MaxDepth": 0, "Pres": {0}, "Leaves": {"para"}}
    rv = tlc.run("LinesTrace", tlc.cfg(ctx, f"{name}.cfg", cs, spec="TraceSpec", invariants=["Verdict"]), wd=ctx.wd, env={"TRACE_FILE": str(tf)}, timeout=3000,
                 defs={"FramesV": "{" + fexpr(frame("quote")) + "}"})
    ctx.add_tlc(label, rv)
    if len(rv.records) != len(traces):
        raise tlc.MachineryFailure(f"{label}: {len(rv.records)} verdicts for {len(traces)} traces")
    return rv.records


FINDING_OF = {"DevIncludePlusOne": "C04-include-plus-one", "DevFirstLine": "C04-first-line-body"}


def _applicable(path):
    """which as-built deviations can affect this layout (the findings' signatures)"""
    devs = set()
    for n, f in enumerate(path):
        if f["w"] == "inc":
            devs.add("DevIncludePlusOne")
        if f["first"]:
            devs.add("DevFirstLine")
    return devs


def _findings(ctx, leg, suspects, traces, keep, base, verdicts):
    """a mismatch is a KNOWN-FINDING only if the layout matches the finding's signature AND the observation
    is exactly what the model with that deviation switched on predicts"""
    if not suspects:
        return
    byid = {t["id"]: t for t in traces}
    vby = {v["id"]: v for v in verdicts}
    groups = {}
    for tid in suspects:
        devs = _applicable(byid[tid]["path"])
        groups.setdefault(tuple(sorted(devs)), []).append(tid)
    for devs, ids in groups.items():
        if devs:
            consts = {**base, **{d: True for d in devs}}
            vs = {v["id"]: v for v in _validate(ctx, [byid[i] for i in ids], consts, "l_dev_" + "_".join(d[3:] for d in devs), "LinesTrace_dev_" + "+".join(d[3:] for d in devs))}
        else:
            vs = {}
        for tid in ids:
            c, o = keep[tid]
            v = vby[tid]
            n = min(v["bad"])
            case = {"leg": leg, "markdown": o["text"], "files": o["files"], "path": c["path"], "leaf": c["leaf"]}
            msg = (f"mark {n} ({v['exp'][n - 1][0]}): expected line {v['exp'][n - 1][1]} in {'doc.md' if not v['exp'][n - 1][2] else 'included file of frame %d' % v['exp'][n - 1][2]}, "
                   f"observed {o['obs'][n - 1] if n <= len(o['obs']) else None} ([line, file index])")
            if devs and not vs[tid]["bad"]:
                for d in devs:
                    ctx.violation(msg, case, finding=FINDING_OF[d])
            else:
                ctx.violation(msg, case)


def judge(ctx, leg, c, marks, o):
    case = {"leg": leg, "markdown": o.get("text"), "files": o.get("files"), "path": c["path"], "leaf": c["leaf"]}
    nontrivial = any(f["w"] in ("btick", "colon", "div", "inc") for f in c["path"])
    ctx.count(("r", c["id"]), nontrivial)
    ctx.traces_validated += 1
    if "error" in o:
        ctx.violation(f"rendering raised {o['error']}", case)
        return
    if "problem" in o:
        ctx.gen_miss += 1
        return
    exp = [[m["m"], m["src"]] for m in marks]
    if len(o["obs"]) == len(exp) and all(a == b for a, b, m in zip(o["obs"], exp, marks)):
        return
    # as-built deviations: decided by the model with the matching Dev switches (batch, below)
    c.setdefault("_mismatch", True)
    ctx.extra.setdefault("_r_suspects", []).append((c, o))


def _flush_r(ctx, base):
    sus = ctx.extra.pop("_r_suspects", [])
    if not sus:
        return
    traces = [{"id": c["id"], "path": c["path"], "pre": c["pre"], "leaf": c["leaf"], "obs": o["obs"]} for c, o in sus]
    keep = {c["id"]: (c, o) for c, o in sus}
    verdicts = _validate(ctx, traces, base, "l_rsus", "LinesTrace_R_mismatches")
    _findings(ctx, "R", [v["id"] for v in verdicts if v["bad"]], traces, keep, base, verdicts)


_orig_run = run


def run(ctx):       # noqa: F811  (wrap: flush the R mismatches through TLC before finishing)
    base = {"DevIncludePlusOne": False, "DevColonNested": False, "DevFirstLine": False, "DevRestoreToTop": False, "DevAttribution": False, "DevQuoteNoLine": False, "DevDupShift": False, "DevTokenMemo": False}
    _orig_run(ctx)
    _flush_r(ctx, base)


def replay(case) -> int:
    c = case.get("case", case)
    print(c.get("markdown"))
    print("files:", c.get("files"))
    print("clause:", case.get("clause"))
    return 1
