"""C07 -- the option tokenizer agrees with YAML on its subset and fails only its own way.

T  OptTok.tla (token-by-token machine over the recursive sub-scanners of OptTokOps.tla):
   for every text of every scope the stream never moves back, every key/colon/value cycle
   consumes input, the position stays inside buffer+sentinel, error marks lie inside the
   text, the run terminates, and it ends in pairs or the documented error -- never in
   another exception (Dev_EscapeOverflow regression: "\\UFFFFFFFF").
R  TLC exports (text, pairs | error mark) for every text of the scopes; options_to_items is
   run on each.  In the subset (decided by PyYAML's event stream, the oracle the property
   names) the implementation must return exactly M's pairs; outside it, pairs or the
   documented error with a mark inside the text.  M itself is compared with PyYAML on every
   in-subset text (a disagreement there is a machinery failure, not a verdict).
V  grammar-generated multi-line option blocks and the option blocks of the repository's own
   fixtures, recorded as traces (text, offsets, result) and validated by OptTokTrace.
"""
from __future__ import annotations

import json
import random
import re
from pathlib import Path

from .. import tlc
from ..frontends import c2s, s2c
from ..pool import pmap

META = {
    "level": "model_checking",
    "text": "TLC checks the option-scanner model (every sub-scanner of options.py as a TLA+ operator, one action per token) for termination, position bounds, error-mark placement and 'only the documented error' on every text of ten enumerated scopes; every behaviour is replayed into options_to_items, with PyYAML's event stream deciding subset membership and cross-checking the model; generated larger option blocks are validated as traces by TLC.",
    "note": "Scopes: all strings up to a bounded length over YAML-significant alphabets after fixed prefixes (plain/structure, single-quoted, double-quoted + escapes, hex escapes, literal/folded block scalars with headers, line-break kinds, quoted keys, indicators). Subset narrowing (documented errors of the module): keys start in column 0; a value starts on its key's line or on a later, indented line. PyYAML (pure-Python scanner) is trusted as 'a conforming YAML loader'.",
    "technique": "TLA+ spec + TLC exhaustive check; spec-behaviour replay into the code; TLC batch trace validation",
    "specs": ["OptTokOps", "OptTok", "OptTokTrace"],
}

A, COLON, SP, LF, HASH, MINUS, SQ, DQ, BSL = 97, 58, 32, 10, 35, 45, 39, 34, 92


def scopes(quick: bool):
    k = s2c
    q = quick
    return [
        # name, prefix, sigma, maxlen, suffix
        ("P-plain", "", "a: \n#-", 6 if q else 7, ""),
        ("P-unispace", "", "a: \n\u00a0\u3000\u2003", 5 if q else 6, ""),       # white space of Unicode that YAML treats as ordinary characters
        ("Q1-single", "k: '", "a' \n#:\"", 5 if q else 6, ""),
        ("Q2-double", 'k: "', 'a"\\nx4 \n', 5 if q else 6, ""),
        ("Q3-dq-tab", 'k: "a\n', '\t b"\\\n', 4 if q else 5, ""),       # tabs in the leading white space of continuation lines
        ("Q3-sq-tab", "k: 'a\n", "\t b'\n", 4 if q else 5, ""),
        ("H-hexU", 'k: "\\U00', '01F"', 7 if q else 8, ""),
        ("H-hexux", 'k: "\\', 'xu0D8F"', 5 if q else 6, ""),
        ("H-hexsign", 'k: "\\x', '-+_ 1F"', 4 if q else 5, ""),        # what int(s, 16) would accept but a hex escape does not
        ("H-hexsign-u", 'k: "\\u0', '-+_ 1"', 4 if q else 5, ""),
        ("B-literal", "k: |", "+-12 \na#", 5 if q else 6, ""),
        ("B-folded", "k: >", "+-12 \na#", 5 if q else 6, ""),
        ("B-body-lit", "k: |\n", "a \n:", 7 if q else 9, ""),
        ("B-body-fold", "k: >\n", "a \n:", 7 if q else 9, ""),
        ("B-body-keep", "k: >+\n", "a \n\t", 6 if q else 8, "\nj: b"),
        ("L-breaks", "", "a: \n\r\x85 \t﻿", 4 if q else 5, ""),
        ("K-keys", "", "'\"a: \n", 5 if q else 6, ""),
        ("I-indicators", "", "a: \n[*&!|>-?,%@`{", 3 if q else 4, ""),
        ("cov", "", "a: \n#'|", 4, ""),      # small scope run with -coverage (vacuity of the actions)
    ]


# ------------------------------------------------------------------ PyYAML as the subset oracle
def yaml_pairs(text: str):
    """-> list of (key, value) if `text` is inside the supported subset according to a
    conforming YAML loader (PyYAML's event stream), else None."""
    import yaml
    try:
        evs = list(yaml.parse(text, Loader=yaml.SafeLoader))
    except yaml.YAMLError:
        return None
    except Exception:
        return None
    E = yaml.events
    if len(evs) == 2 and isinstance(evs[0], E.StreamStartEvent) and isinstance(evs[1], E.StreamEndEvent):
        return []
    if len(evs) < 6:
        return None
    if not (isinstance(evs[0], E.StreamStartEvent) and isinstance(evs[-1], E.StreamEndEvent)
            and isinstance(evs[1], E.DocumentStartEvent) and not evs[1].explicit
            and evs[1].version is None and not evs[1].tags
            and isinstance(evs[-2], E.DocumentEndEvent) and not evs[-2].explicit
            and isinstance(evs[2], E.MappingStartEvent) and evs[2].anchor is None and evs[2].tag is None
            and not evs[2].flow_style and isinstance(evs[-3], E.MappingEndEvent)):
        return None
    body = evs[3:-3]
    if len(body) % 2:
        return None
    out = []
    for n in range(0, len(body), 2):
        kk, vv = body[n], body[n + 1]
        for s in (kk, vv):
            if not isinstance(s, E.ScalarEvent) or s.anchor is not None or s.tag is not None:
                return None
        if kk.style not in (None, "'", '"'):
            return None
        # narrowing: the module's documented errors
        if kk.start_mark.column != 0:
            return None
        if vv.start_mark.line != kk.end_mark.line and vv.start_mark.column == 0 and vv.start_mark.index != vv.end_mark.index:
            return None
        out.append((kk.value, vv.value))
    return out


def call_impl(text: str, lo: int = 0, co: int = 0):
    from myst_parser.parsers.options import TokenizeError, options_to_items
    try:
        items, state = options_to_items(text, lo, co)
    except TokenizeError as e:
        m = e.problem_mark
        return {"st": "err", "r": [], "e": [m.index, m.line, m.column]}
    except BaseException as e:  # noqa: BLE001 - any other exception is the observation
        return {"st": "raise", "r": [], "e": [0, 0, 0], "exc": type(e).__name__}
    ok = all(isinstance(k, str) and isinstance(v, str) for k, v in items)
    if not ok:
        return {"st": "raise", "r": [], "e": [0, 0, 0], "exc": "non-string pair"}
    return {"st": "ok", "r": [[s2c(k), s2c(v)] for k, v in items], "e": [], "hc": bool(state.has_comments)}


def _judge(rec):
    """worker: one exported behaviour -> (kind, detail)"""
    text = c2s(rec["t"])
    got = call_impl(text)
    yp = yaml_pairs(text)
    insub = yp is not None
    mres = [(c2s(k), c2s(v)) for k, v in rec["r"]] if rec["st"] == "ok" else None
    if insub and mres != yp:
        return ("spec", text, f"model={mres if rec['st'] == 'ok' else rec['st']} yaml={yp}", insub)
    if got["st"] == "raise":
        return ("viol", text, f"options_to_items raised {got['exc']} (only TokenizeError is documented)", insub)
    if insub:
        if got["st"] != "ok" or got["r"] != rec["r"]:
            g = [(c2s(k), c2s(v)) for k, v in got["r"]] if got["st"] == "ok" else f"TokenizeError at {got['e']}"
            return ("viol", text, f"inside the YAML subset: expected pairs {mres}, got {g}", insub)
        return ("ok", None, None, insub)
    # outside the subset: pairs, or the documented error with a mark inside the text
    if got["st"] == "err":
        idx, line, col = got["e"]
        if not (0 <= idx <= len(text) and 0 <= line <= len(text) and 0 <= col <= len(text)):
            return ("viol", text, f"error mark {got['e']} lies outside the text", insub)
    agree = (got["st"] == rec["st"] and (got["r"] == rec["r"] if got["st"] == "ok" else got["e"] == rec["e"]))
    return ("ok" if agree else "ok-differs", None, None, insub)


# ------------------------------------------------------------------ V: grammar of option blocks
def gen_block(rnd: random.Random) -> str:
    words = ["a", "bc", "x-y", "1", "tr ue", "é", "k:v", "a#b", "it's", 'q"t', "\\n", "~", "-", "*r", "λ"]
    nl = rnd.choice(["\n", "\n", "\n", "\r\n", "\r", "\x85", " "])

    def plain(multi=True):
        w = [rnd.choice(words) for _ in range(rnd.randint(1, 3))]
        s = " ".join(w)
        if multi and rnd.random() < 0.3:
            s += nl + " " * rnd.randint(1, 3) + rnd.choice(words)
            if rnd.random() < 0.3:
                s += nl + nl + "  " + rnd.choice(words)
        return s

    def single():
        body = "".join(rnd.choice(["a", " ", "''", '"', "\\", "#", ": ", nl + " ", nl + nl + " ", "b"]) for _ in range(rnd.randint(0, 6)))
        return "'" + body + "'"

    def double():
        esc = ["\\n", "\\t", '\\"', "\\\\", "\\x41", "\\u00e9", "\\U0001F600", "\\ ", "\\/", "\\_", "\\N", "\\L", "\\P", "\\0", "\\e",
               "\\" + nl + "  ", "\\q", "\\x4", "\\U00110000", "\\uD800"]
        body = "".join(rnd.choice(["a", " ", "'", "#", ": ", nl + " ", nl + nl + "  ", "b", "\t"] + esc[:15] * 2 + esc[15:]) for _ in range(rnd.randint(0, 6)))
        return '"' + body + '"'

    def block():
        head = rnd.choice("|>") + rnd.choice(["", "", "+", "-", "1", "2", "2+", "-1", "+2", "0", "x", "12"])
        head += rnd.choice(["", "", " ", " # c", "  #c", " x"])
        ind = " " * rnd.choice([1, 1, 2, 2, 3])
        lines = []
        for _ in range(rnd.randint(0, 5)):
            r = rnd.random()
            if r < 0.2:
                lines.append(rnd.choice(["", "", " ", ind + " "]))
            elif r < 0.35:
                lines.append(ind + " " + rnd.choice(words))
            elif r < 0.42:
                lines.append(ind + "\t" + rnd.choice(words))
            else:
                lines.append(ind + rnd.choice(words) + rnd.choice(["", " ", " # x"]))
        tail = rnd.choice(["", nl, nl + nl, nl + " " + nl])
        return head + nl + nl.join(lines) + tail

    out = []
    for _ in range(rnd.randint(1, 4)):
        r = rnd.random()
        if r < 0.1:
            out.append(rnd.choice(["# comment", "", "  # c", " "]))
            continue
        key = rnd.choice(["a", "key", "k-2", "'q k'", '"d\\tk"', "a b", "k#", "é", " k", "?", "- k"])
        r = rnd.random()
        if r < 0.35:
            val = plain()
        elif r < 0.5:
            val = single()
        elif r < 0.7:
            val = double()
        elif r < 0.9:
            val = block()
        else:
            val = rnd.choice(["", "# only comment", nl + "  indented", nl + "col0", "[a, b]", "*a", "&a b", "!t v", "{a: b}"])
        sep = rnd.choice([": ", ": ", ":", ":  ", " : ", ":\t"])
        out.append(key + sep + val + rnd.choice(["", "", " # c", " "]))
    return nl.join(out) + rnd.choice(["", nl, nl + nl])


def corpus_blocks() -> list[str]:
    """option blocks occurring in the repository's own fixtures and docs (:k: v / --- styles)"""
    from ..core import REPO
    out = []
    for p in list((REPO / "tests").rglob("*.md")) + list((REPO / "docs").rglob("*.md")):
        try:
            txt = p.read_text(encoding="utf8")
        except Exception:
            continue
        for m in re.finditer(r"^(?:```|:::)+\{[^}\n]+\}[^\n]*\n((?::[^\n]*\n)+)", txt, re.M):
            lines = [ln[1:] for ln in m.group(1).splitlines()]
            out.append("\n".join(lines))
        for m in re.finditer(r"^(?:```|:::)+\{[^}\n]+\}[^\n]*\n---\n(.*?)\n---\n", txt, re.M | re.S):
            out.append(m.group(1))
    return sorted(set(out))


def _trace(job):
    tid, text, lo, co = job
    o = call_impl(text, lo, co)
    return {"id": tid, "t": s2c(text), "lo": lo, "co": co, "st": o["st"], "r": o["r"],
            "e": o["e"] if o["st"] == "err" else [0, 0, 0], "exc": o.get("exc", "")}


def run(ctx):
    quick = ctx.tier == "quick"
    rnd = random.Random(ctx.seed + 7)
    ctx.rule = ("R: every text of every scope (prefix + all strings <= n over the scope's alphabet + suffix). "
                "V: grammar-generated option blocks of 1-4 entries and the repository's own option blocks. "
                "non-trivial = text inside the YAML subset with at least one pair, or text on which the scanner reports its error")
    ctx.assumptions += ["PyYAML's pure-Python event stream is a conforming YAML loader (subset oracle)",
                        "subset narrowing: keys in column 0; values on the key's line or on a later indented line"]
    invs = ["InBuffer", "ErrInside", "OnlyOwnErr", "Consumed", "Emit"]
    props = ["Progress", "Terminates"]
    stats = {"in_subset": 0, "outside": 0, "outside_model_differs": 0}
    nrec = 0
    acts = {}
    def one(sc):
        name, prefix, sigma, n, suffix = sc
        consts = {"Prefix": "<-PrefixV", "Suffix": "<-SuffixV",
                  "Sigma": set(s2c(sigma)), "MaxLen": n, "DevEscapeOverflow": False}
        return tlc.run("OptTok", tlc.cfg(ctx, f"ot_{name}.cfg", consts, invariants=invs, properties=props),
                       wd=ctx.wd, coverage=name == "cov",
                       timeout=3000, workers=4, heap="3g",
                       defs={"PrefixV": tlc.tla_expr(s2c(prefix)), "SuffixV": tlc.tla_expr(s2c(suffix))})

    from concurrent.futures import ThreadPoolExecutor
    scs = scopes(quick)
    with ThreadPoolExecutor(4) as ex:
        results = list(ex.map(one, scs))
    for (name, prefix, sigma, n, suffix), r in zip(scs, results):
        tlc.expect_holds(r, f"OptTok[{name}] M |= S")
        ctx.add_tlc(f"OptTok_{name}", r, f"prefix {prefix!r}, alphabet {sigma!r}, n <= {n}, suffix {suffix!r}")
        for a, (d, t) in r.coverage.items():
            acts[a] = acts.get(a, 0) + d
        want = sum(len(set(sigma)) ** k for k in range(n + 1))
        if len(r.records) != want:
            raise tlc.MachineryFailure(f"OptTok[{name}]: {len(r.records)} behaviours exported, expected {want}")
        nrec += want
        outs = pmap(_judge, r.records, chunksize=512)
        for rec, (kind, text, msg, insub) in zip(r.records, outs):
            stats["in_subset" if insub else "outside"] += 1
            ctx.traces_validated += 1
            ctx.count(("r", tuple(rec["t"])), nontrivial=(insub and rec["st"] == "ok" and len(rec["r"]) > 0) or rec["st"] == "err")
            if kind == "spec":
                raise tlc.MachineryFailure(f"OptTok model disagrees with PyYAML on in-subset text {text!r}: {msg}")
            if kind == "viol":
                ctx.violation(f"options_to_items({text!r}): {msg}", {"leg": "R", "scope": name, "text": text})
            elif kind == "ok-differs":
                stats["outside_model_differs"] += 1
        mid = r.records[len(r.records) // 2]
        ctx.sample({"scope": name, "text": c2s(mid["t"]), "model": mid["st"],
                    "pairs": [(c2s(k), c2s(v)) for k, v in mid["r"]]}, cap=13)
        r.records = []
    for act in ("Finish", "Key", "Colon", "Value"):
        if acts.get(act, 0) == 0:
            raise tlc.MachineryFailure(f"OptTok: action {act} never taken (vacuous)")
    # Dev regression: the as-built chr() overflow is a counterexample of OnlyOwnErr
    consts = {"Prefix": "<-PrefixV", "Suffix": "<-Empty", "Sigma": set(s2c('0F"')), "MaxLen": 9 if not quick else 8,
              "DevEscapeOverflow": True}
    rd = tlc.run("OptTok", tlc.cfg(ctx, "ot_dev.cfg", consts, invariants=["OnlyOwnErr"]), wd=ctx.wd,
                 defs={"PrefixV": tlc.tla_expr(s2c('k: "\\U'))})
    tlc.expect_violation(rd, "OnlyOwnErr", "OptTok Dev_EscapeOverflow")
    ctx.add_tlc("OptTok_dev_escapeoverflow", rd, "expected counterexample found (\\U escape above 0x10FFFF)")
    ctx.extra["subset_statistics"] = stats
    ctx.leg("R", behaviours=nrec)

    # ---- V ----------------------------------------------------------------------------------
    texts = [gen_block(rnd) for _ in range(3000 if quick else 60000)]
    corp = corpus_blocks()
    texts += corp
    jobs = []
    for t, text in enumerate(texts):
        text = "".join(ch for ch in text if ord(ch) < 0x110000)
        jobs.append((t, text, rnd.choice([0, 0, 3]), rnd.choice([0, 0, 5])))
    traces = pmap(_trace, jobs, chunksize=256)
    tf = ctx.wd / "ot_traces.ndjson"
    tlc.write_ndjson(tf, [{k: v for k, v in tr.items() if k != "exc"} for tr in traces])
    consts = {"Prefix": "<-Empty", "Suffix": "<-Empty", "Sigma": {97}, "MaxLen": 0, "DevEscapeOverflow": False}
    rv = tlc.run("OptTokTrace", tlc.cfg(ctx, "ot_trace.cfg", consts, spec="TraceSpec", invariants=["Verdict", "InBuffer", "ErrInside", "OnlyOwnErr"]),
                 wd=ctx.wd, env={"TRACE_FILE": str(tf)}, timeout=3000)
    tlc.expect_holds(rv, "OptTokTrace invariants")
    ctx.add_tlc("OptTokTrace", rv)
    if len(rv.records) != len(traces):
        raise tlc.MachineryFailure(f"OptTokTrace: {len(rv.records)} verdicts for {len(traces)} traces")
    byid = {tr["id"]: tr for tr in traces}
    vin = 0
    for v in rv.records:
        tr = byid[v["id"]]
        text = c2s(tr["t"])
        yp = yaml_pairs(text)
        ctx.traces_validated += 1
        ctx.count(("v", text), nontrivial=yp is not None or tr["st"] == "err")
        if yp is not None:
            vin += 1
            mres = [(c2s(k), c2s(x)) for k, x in v["mr"]] if v["mst"] == "ok" else None
            if mres != yp:
                raise tlc.MachineryFailure(f"OptTok model disagrees with PyYAML on in-subset text {text!r}: model={mres or v['mst']} yaml={yp}")
            if not v["m"]:
                got = [(c2s(k), c2s(x)) for k, x in tr["r"]] if tr["st"] == "ok" else f"{tr['st']} {tr['exc']} {tr['e']}"
                ctx.violation(f"options_to_items({text!r}, {tr['lo']}, {tr['co']}): inside the YAML subset, expected pairs {yp}, got {got}",
                              {"leg": "V", "text": text, "line_offset": tr["lo"], "column_offset": tr["co"]})
        elif not v["cls"]:
            what = f"raised {tr['exc']}" if tr["st"] == "raise" else f"error mark {tr['e']} outside the text (offsets {tr['lo']},{tr['co']})"
            ctx.violation(f"options_to_items({text!r}): {what}", {"leg": "V", "text": text, "line_offset": tr["lo"], "column_offset": tr["co"]})
    ctx.leg("V", traces=len(traces), in_subset=vin, corpus_blocks=len(corp))
    ctx.sample({"trace_text": c2s(traces[0]["t"]), "observed": traces[0]["st"]}, cap=14)
    ctx.exhaustive = True


def replay(case) -> int:
    c = case.get("case", case)
    text = c["text"]
    print("text:", repr(text))
    print("implementation:", call_impl(text, c.get("line_offset", 0), c.get("column_offset", 0)))
    print("PyYAML pairs (None = outside the subset):", yaml_pairs(text))
    print("clause:", case.get("clause"))
    return 1
