"""C20 -- docutils security settings are honoured for every input.

T  Security.tla: render actions per construct (with the checks that live in docutils' own
   roles/directives and in MockIncludeDirective) and the single PostFilter pass of
   Parser.parse |= NoRawWhenDisabled, NoFileWhenDisabled, RefusalsWarn, MarkersKept,
   AllowedPass, for every sequence of constructs x wrappers within the bound x 4 settings.
R  every behaviour concretised with sentinel payloads / sentinel files, rendered with
   publish_doctree and publish_string(html5); raw nodes, sentinels in the output, inserted
   file content, warnings and marker paragraphs attributed to each construct; file reads
   observed through an audit hook.
V  random longer mixtures with deeper wrapper nesting, validated by SecurityTrace.
"""
from __future__ import annotations

import os
import random
import sys
from pathlib import Path

from .. import tlc
from ..pool import pmap

META = {
    "level": "model_checking",
    "text": "TLC checks the security model (what each raw- or file-carrying construct appends to the tree, where the settings are tested, and the single post-filter pass of Parser.parse) for every sequence of constructs and wrappers within the bound under all four settings; every behaviour is replayed with sentinel payloads and sentinel files through publish_doctree and the html5 writer with an audit hook on file opens, and random longer mixtures are validated as traces by TLC.",
    "note": "Bound: sequences <= 2 (quick) / 3 (thorough) over 14 constructs x 4 wrappers (none, block quote, list item, note directive) x raw_enabled x file_insertion_enabled, plus all triples of raw carriers at one level. docutils front end (the settings are docutils'). Constructs: HTML block/inline, raw directive, raw and a raw-derived role inside eval-rst, hard break, strikethrough, include (plain, literal, code, <...> path), eval-rst include, csv-table :file:, raw :file:.",
    "technique": "TLA+ spec + TLC exhaustive check; spec-behaviour replay into the code; TLC batch trace validation",
    "specs": ["Security", "SecurityTrace"],
}

KINDS = ["html_block", "html_inline", "raw_dir", "evalrst_raw", "evalrst_rawrole", "hardbreak", "strike", "html_cblock", "task_html", "evalrst_mdsub",
         "include", "include_literal", "include_code", "include_angle", "evalrst_include", "csv_file", "raw_file"]
RAWK = KINDS[:9]
WRAPPERS = ["none", "quote", "list", "note", "sec", "cls"]      # cls: docutils' class directive, which returns its parsed body itself
INVS = ["NoRawWhenDisabled", "NoFileWhenDisabled", "RefusalsWarn", "MarkersKept", "AllowedPass"]

_opened: list = []
_hook = [False]


def _audit(event, args):
    if event == "open" and _hook[0] and args and isinstance(args[0], (str, bytes, os.PathLike)):
        _opened.append(os.fsdecode(args[0]))


def construct_lines(kind, n, d: Path):
    if kind == "html_block":
        return [f"<div>SENTINEL{n}x</div>"]
    if kind == "html_cblock":
        return [f"<!-- begin --><script>SENTINEL{n}x()</script><!-- end -->"]
    if kind == "evalrst_mdsub":
        return ["```{eval-rst}", f"see |badge{n}|", "```"]
    if kind == "html_inline":
        return [f"inline <b>SENTINEL{n}x</b> text"]
    if kind == "raw_dir":
        return ["```{raw} html", f"<p>SENTINEL{n}x</p>", "```"]
    if kind == "evalrst_raw":
        return ["```{eval-rst}", ".. raw:: html", "", f"   <p>SENTINEL{n}x</p>", "```"]
    if kind == "evalrst_rawrole":
        return ["```{eval-rst}", ".. role:: rawh(raw)", "   :format: html", "", f":rawh:`<i>SENTINEL{n}x</i>`", "```"]
    if kind == "hardbreak":
        return ["line a\\", "line b"]
    if kind == "strike":
        return ["~~struck~~ out"]
    if kind == "task_html":     # a task list item (its checkbox is a raw node) whose continuation paragraph starts with inline HTML
        return ["- [x] task", "", f"  <b>SENTINEL{n}x</b> continued"]
    if kind == "include":
        return [f"```{{include}} inc{n}.md", "```"]
    if kind == "include_literal":
        return [f"```{{include}} inc{n}.md", ":literal:", "```"]
    if kind == "include_code":
        return [f"```{{include}} inc{n}.md", ":code: python", "```"]
    if kind == "include_angle":
        return [f"```{{include}} <{d}/inc{n}.md>", "```"]
    if kind == "evalrst_include":
        return ["```{eval-rst}", f".. include:: inc{n}.rst", "```"]
    if kind == "csv_file":
        return ["```{csv-table}", f":file: data{n}.csv", "```"]
    if kind == "raw_file":
        return ["```{raw} html", f":file: inc{n}.html", "```"]
    raise ValueError(kind)


def wrap(lines, wrappers):
    for w in reversed(wrappers):
        if w == "quote":
            lines = [("> " + ln) if ln else ">" for ln in lines]
        elif w == "list":
            lines = ["- " + lines[0]] + [("  " + ln) if ln else "" for ln in lines[1:]]
        elif w == "note":
            fl = max([3] + [len(ln.lstrip("> -")) - len(ln.lstrip("> -").lstrip("`")) for ln in lines if ln.lstrip("> -").startswith("```")]) + 1
            lines = ["`" * fl + "{note}"] + lines + ["`" * fl]
        elif w == "cls":
            fl = max([3] + [len(ln.lstrip("> -")) - len(ln.lstrip("> -").lstrip("`")) for ln in lines if ln.lstrip("> -").startswith("```")]) + 1
            lines = ["`" * fl + "{class} wcls"] + lines + ["`" * fl]
    return lines


def build(doc, d: Path, tight: bool = False):
    """doc: list of (kind, [wrappers]) -> text; writes sentinel files into d.
    tight: the constructs follow each other directly (adjacent raw siblings), one marker at the end"""
    out = []
    for n, (kind, ws) in enumerate(doc, 1):
        (d / f"inc{n}.md").write_text(f"FILESENTINEL{n}x\n")
        (d / f"inc{n}.rst").write_text(f"FILESENTINEL{n}x\n")
        (d / f"inc{n}.html").write_text(f"<p>FILESENTINEL{n}x</p>\n")
        (d / f"data{n}.csv").write_text(f"a,FILESENTINEL{n}x\n")
        sec = "sec" in ws
        ws = [w for w in ws if w not in ("none", "sec")]
        if sec and not tight:
            # the construct in a section of its own, followed by another section (the renderer's current node moves on)
            out += [f"# First {n}", ""] + wrap(construct_lines(kind, n, d) + ["", f"MARKER{n}x"], ws) + ["", f"## Later {n}", "", f"after {n}", ""]
            continue
        if tight:
            out += construct_lines(kind, n, d) + [""]
        else:
            out += wrap(construct_lines(kind, n, d) + ["", f"MARKER{n}x"], ws) + [""]
    if tight:
        out += [f"MARKER{len(doc)}x", ""]
    return "\n".join(out) + "\n"


def observe(case):
    import re
    from docutils import nodes
    from docutils.core import publish_string
    from ..frontends import docutils_doctree
    from myst_parser.parsers.docutils_ import Parser
    if not getattr(sys, "_verif_c20_hook", False):
        sys.addaudithook(_audit)
        sys._verif_c20_hook = True
    d = Path(case["wd"]) / f"w{os.getpid()}_{case['id']}"
    d.mkdir(parents=True, exist_ok=True)
    doc = case["doc"]
    text = build(doc, d, case.get("tight", False))
    src = d / "doc.md"
    src.write_text(text)
    ov = {"raw_enabled": case["rawOn"], "file_insertion_enabled": case["fileOn"],
          "myst_enable_extensions": ["strikethrough", "substitution", "tasklist"], "report_level": 2,
          "myst_substitutions": {f"badge{n}": f"<b>SENTINEL{n}x</b>" for n in range(1, len(case["doc"]) + 1)}}
    if case.get("suppress"):
        ov["myst_suppress_warnings"] = ["myst", "docutils"]
    old_conf = os.environ.get("DOCUTILSCONFIG")
    if case.get("via_conf"):
        # the two settings come from a configuration file, written the way such files spell booleans
        words = {True: ["yes", "on", "true", "1"], False: ["off", "no", "false", "0"]}
        conf = d / "docutils.conf"
        conf.write_text(f"[general]\nraw_enabled: {words[ov.pop('raw_enabled')][case['id'] % 4]}\n"
                        f"file_insertion_enabled: {words[ov.pop('file_insertion_enabled')][(case['id'] // 4) % 4]}\n")
        os.environ["DOCUTILSCONFIG"] = str(conf)
    _opened.clear()
    _hook[0] = True
    try:
        tree, warns = docutils_doctree(text, ov, source_path=str(src))
        html = publish_string(text, source_path=str(src), parser=Parser(), writer_name="html5",
                              settings_overrides={**ov, "warning_stream": __import__("io").StringIO(), "halt_level": 5,
                                                  "output_encoding": "unicode", "embed_stylesheet": False})
    except Exception as e:  # noqa: BLE001
        _hook[0] = False
        return {"error": f"{type(e).__name__}: {e}", "text": text}
    finally:
        if case.get("via_conf"):
            if old_conf is None:
                os.environ.pop("DOCUTILSCONFIG", None)
            else:
                os.environ["DOCUTILSCONFIG"] = old_conf
    _hook[0] = False
    opened = [p for p in _opened if re.search(r"(inc|data)\d+\.(md|rst|html|csv)$", p)]
    per = [{"raw": 0, "ins": 0, "warn": 0, "read": False, "marker": 0, "html": False} for _ in doc]
    cur = 0          # nodes before MARKER{n} belong to construct n
    for node in tree.findall():
        if isinstance(node, nodes.Text):
            s = str(node)
            m = re.search(r"MARKER(\d+)x", s)
            if m and not any(isinstance(a, nodes.system_message) for a in _anc(node)):
                k = int(m.group(1))
                if 1 <= k <= len(doc):
                    per[k - 1]["marker"] += 1
                    cur = k
            for m in re.finditer(r"FILESENTINEL(\d+)x", s):
                if not any(isinstance(a, nodes.system_message) for a in _anc(node)):
                    per[int(m.group(1)) - 1]["ins"] += 1
        elif isinstance(node, nodes.raw):
            if cur < len(doc):
                per[cur]["raw"] += 1
        elif isinstance(node, nodes.system_message):
            if any(isinstance(a, nodes.system_message) for a in _anc(node)) or isinstance(node.parent, nodes.section) and "system-messages" in node.parent.get("classes", []):
                continue
            if cur < len(doc):
                per[cur]["warn"] += 1
    for n in range(len(doc)):
        per[n]["read"] = any(re.search(rf"(inc|data){n + 1}\.", p) for p in opened)
        # the payload as live markup (a quoted, escaped copy inside a system message does not count)
        per[n]["html"] = re.search(rf"<(div|b|p|i|script)>SENTINEL{n + 1}x", html) is not None
        if f"FILESENTINEL{n + 1}x" in html and not per[n]["ins"]:
            per[n]["ins"] += 1
    import shutil
    shutil.rmtree(d, ignore_errors=True)
    from ..render import dup_nodes, parent_mismatches
    return {"text": text, "per": per, "nwarn": len([w for w in warns if w["level"] in ("WARNING", "ERROR", "SEVERE")]),
            "shared": dup_nodes(tree) + parent_mismatches(tree)}


def _anc(n):
    p = n.parent
    while p is not None:
        yield p
        p = p.parent


def judge(ctx, leg, doc, rawOn, fileOn, exp, o, tight=False, suppressed=False):
    case = {"leg": leg, "markdown": o.get("text"), "raw_enabled": rawOn, "file_insertion_enabled": fileOn,
            "constructs": [k for k, _ in doc]}
    if "error" in o:
        ctx.violation(f"rendering raised {o['error']}", case)
        return
    # every refusal is reported on the warning stream as well, one line (at least) per refused construct; and the
    # warning nodes put in place of refused content are nodes of their own
    nref = sum(1 for e in exp if e["warn"] > 0)
    if not suppressed and o["nwarn"] < nref:
        ctx.violation(f"{nref} construct(s) refused (raw_enabled={rawOn}, file_insertion_enabled={fileOn}) but only {o['nwarn']} warning(s) on the stream", case)
        return
    if o.get("shared"):
        ctx.violation(f"the resulting doctree holds a node object in more than one place / with a wrong parent ({o['shared']} occurrence(s))", case)
        return
    if tight:
        # adjacent constructs: raw nodes cannot be attributed, the clauses are checked on the whole document
        nraw = sum(g["raw"] for g in o["per"])
        if (nraw > 0) != any(e["raw"] > 0 for e in exp):
            ctx.violation(f"adjacent constructs {[k for k, _ in doc]}, raw_enabled={rawOn}: {nraw} raw node(s) in the doctree, "
                          f"expected {'some' if any(e['raw'] for e in exp) else 'none'}", case)
        elif not any(e["raw"] for e in exp) and any(g["html"] for g in o["per"]):
            ctx.violation(f"adjacent constructs {[k for k, _ in doc]}, raw_enabled={rawOn}: a raw payload reaches the html5 output", case)
        elif sum(g["warn"] for g in o["per"]) < sum(1 for e in exp if e["warn"] > 0):
            ctx.violation(f"adjacent constructs {[k for k, _ in doc]}: fewer warnings than refused constructs", case)
        elif o["per"][-1]["marker"] != 1:
            ctx.violation("the paragraph after the constructs is missing", case)
        return
    for n, ((kind, ws), e, g) in enumerate(zip(doc, exp, o["per"]), 1):
        where = f"construct {n} ({kind} in {'/'.join(ws) or 'top level'}), raw_enabled={rawOn}, file_insertion_enabled={fileOn}"
        if g["marker"] != 1:
            ctx.violation(f"{where}: the paragraph after it occurs {g['marker']} times (the rest of the document must be processed normally)", case)
            return
        if (g["raw"] > 0) != (e["raw"] > 0):
            ctx.violation(f"{where}: {g['raw']} raw node(s) in the doctree, expected {'some' if e['raw'] else 'none'}", case)
            return
        if e["raw"] == 0 and g["html"]:
            ctx.violation(f"{where}: the raw payload reaches the html5 output", case)
            return
        if (g["ins"] > 0) != (e["ins"] > 0) and kind != "raw_file":
            ctx.violation(f"{where}: file content {'inserted' if g['ins'] else 'not inserted'}, expected {'inserted' if e['ins'] else 'not inserted'}", case)
            return
        if kind == "raw_file" and e["raw"] == 0 and g["ins"]:
            ctx.violation(f"{where}: file content inserted", case)
            return
        if g["read"] and not e["read"]:
            ctx.violation(f"{where}: the file was opened although the construct must be refused", case)
            return
        if e["warn"] > 0 and g["warn"] == 0 and not suppressed:
            ctx.violation(f"{where}: refused without a warning", case)
            return


def _exp_from(rec):
    return [{"raw": p["raw"], "ins": p["ins"], "warn": p["warn"], "read": p["read"]} for p in rec["per"]]


def run(ctx):
    quick = ctx.tier == "quick"
    rnd = random.Random(ctx.seed + 20)
    ctx.rule = ("R: every sequence of constructs x wrappers within the bound x raw_enabled x file_insertion_enabled. "
                "V: random mixtures of 3-8 constructs with wrapper nesting <= 3. non-trivial = at least one construct refused")
    ctx.assumptions += ["docutils front end; sentinel payloads / sentinel files identify what each construct let through",
                        "file reads observed through sys.addaudithook('open') in the worker processes"]
    base = {"DevFilterSkips": False, "DevAngleNoGate": False, "DevFilterLastSection": False}
    runs = [("pairs", KINDS, WRAPPERS, 2 if quick else 2), ("rawtriples", RAWK, ["none"], 3),
            ("files", KINDS[10:], ["none", "note"], 2 if quick else 3)]
    if not quick:
        runs.append(("triples_top", KINDS, ["none"], 3))
    recs = []
    for name, kinds, wrappers, n in runs:
        r = tlc.run("Security", tlc.cfg(ctx, f"se_{name}.cfg", {**base, "Kinds": set(kinds), "Wrappers": set(wrappers), "MaxLen": n},
                                        invariants=INVS + ["Emit"], properties=["Terminates"]), wd=ctx.wd, timeout=3000)
        tlc.expect_holds(r, f"Security[{name}] M |= S")
        ctx.add_tlc(f"Security_{name}", r, f"sequences <= {n} over {len(kinds)} constructs x {len(wrappers)} wrappers x 4 settings")
        recs += r.records
    rc = tlc.run("Security", tlc.cfg(ctx, "se_cov.cfg", {**base, "Kinds": set(KINDS), "Wrappers": {"none"}, "MaxLen": 1}, invariants=INVS), wd=ctx.wd, coverage=True)
    for act in ("Render", "RenderEnd", "PostFilter"):
        if rc.coverage.get(act, (0, 0))[0] == 0:
            raise tlc.MachineryFailure(f"Security: action {act} never taken (vacuous)")
    ctx.add_tlc("Security_cov", rc)
    for dev, inv, kinds, n in (("DevFilterSkips", "NoRawWhenDisabled", {"html_block"}, 3), ("DevAngleNoGate", "NoFileWhenDisabled", {"include_angle"}, 1),
                                ("DevFilterLastSection", "NoRawWhenDisabled", {"html_block"}, 1)):
        rd = tlc.run("Security", tlc.cfg(ctx, f"se_{dev}.cfg", {**base, dev: True, "Kinds": kinds, "Wrappers": {"none", "sec"}, "MaxLen": n}, invariants=[inv]), wd=ctx.wd)
        tlc.expect_violation(rd, inv, f"Security {dev}")
        ctx.add_tlc(f"Security_{dev}", rd, "expected counterexample found")
    seen, cases = set(), []
    for rec in recs:
        key = (repr(rec["doc"]), rec["rawOn"], rec["fileOn"])
        if key in seen:
            continue
        seen.add(key)
        cases.append({"id": len(cases), "doc": [(k, [w]) for k, w in rec["doc"]], "rawOn": rec["rawOn"], "fileOn": rec["fileOn"],
                      "exp": _exp_from(rec), "wd": str(ctx.wd / "docs")})
        if len(rec["doc"]) >= 2 and all(k in RAWK and w == "none" for k, w in rec["doc"]):
            cases.append({**cases[-1], "id": len(cases), "tight": True})
    outs = pmap(observe, cases, chunksize=16)
    for c, o in zip(cases, outs):
        refused = any(e["warn"] > 0 for e in c["exp"])
        ctx.count((repr(c["doc"]), c["rawOn"], c["fileOn"], c.get("tight", False)), nontrivial=refused)
        ctx.traces_validated += 1
        judge(ctx, "R", c["doc"], c["rawOn"], c["fileOn"], c["exp"], o, c.get("tight", False))
    # the settings must be honoured whatever the warning filter says: single constructs once more with the MyST
    # warnings suppressed (a suppressed warning has no node to put in a raw node's place)
    scases = [{**c, "id": 5_000_000 + c["id"], "suppress": True} for c in cases if len(c["doc"]) == 1 and not c.get("tight")]
    for c, o in zip(scases, pmap(observe, scases, chunksize=16)):
        ctx.count((repr(c["doc"]), c["rawOn"], c["fileOn"], "suppressed"), nontrivial=any(e["warn"] > 0 for e in c["exp"]))
        ctx.traces_validated += 1
        judge(ctx, "R-suppressed", c["doc"], c["rawOn"], c["fileOn"], c["exp"], o, suppressed=True)
    ctx.leg("R-suppressed", behaviours=len(scases))
    # ... and wherever they come from: the same single constructs with the two settings read from a docutils.conf
    ccases = [{**c, "id": 7_000_000 + c["id"], "via_conf": True} for c in cases if len(c["doc"]) == 1 and not c.get("tight")]
    for c, o in zip(ccases, pmap(observe, ccases, chunksize=16)):
        ctx.count((repr(c["doc"]), c["rawOn"], c["fileOn"], "conf"), nontrivial=any(e["warn"] > 0 for e in c["exp"]))
        ctx.traces_validated += 1
        judge(ctx, "R-conf-file", c["doc"], c["rawOn"], c["fileOn"], c["exp"], o)
    ctx.leg("R-conf-file", behaviours=len(ccases))
    mid = cases[len(cases) // 2]
    ctx.sample({"constructs": mid["doc"], "raw_enabled": mid["rawOn"], "file_insertion_enabled": mid["fileOn"], "expected_per_construct": mid["exp"]})
    ctx.leg("R", behaviours=len(cases))

    # ---- V ----------------------------------------------------------------------------------
    vcases = []
    for t in range(200 if quick else 4000):
        doc = []
        for _ in range(rnd.randint(3, 8)):
            ws = [rnd.choice(WRAPPERS[1:4] + ["cls"]) for _ in range(rnd.choice([0, 0, 1, 1, 2, 3]))] + (["sec"] if rnd.random() < 0.25 else [])
            doc.append((rnd.choice(KINDS), ws))
        vcases.append({"id": 10_000_000 + t, "doc": doc, "rawOn": rnd.random() < 0.4, "fileOn": rnd.random() < 0.4, "wd": str(ctx.wd / "docs")})
    vouts = pmap(observe, vcases, chunksize=8)
    traces, keep = [], {}
    for c, o in zip(vcases, vouts):
        if "error" in o:
            ctx.violation(f"rendering raised {o['error']}", {"leg": "V", "markdown": o["text"], "raw_enabled": c["rawOn"], "file_insertion_enabled": c["fileOn"]})
            continue
        ctx.count(("v", c["id"]))
        keep[c["id"]] = (c, o)
        traces.append({"id": c["id"], "doc": [[k, "/".join(ws) or "none"] for k, ws in c["doc"]], "rawOn": c["rawOn"], "fileOn": c["fileOn"],
                       "per": [{"raw": p["raw"] > 0, "ins": p["ins"] > 0, "warn": p["warn"] > 0, "read": p["read"], "html": p["html"], "marker": p["marker"]} for p in o["per"]]})
    tf = ctx.wd / "se_traces.ndjson"
    tlc.write_ndjson(tf, traces)
    rv = tlc.run("SecurityTrace", tlc.cfg(ctx, "se_trace.cfg", {**base, "Kinds": set(KINDS), "Wrappers": {"none"}, "MaxLen": 0}, spec="TraceSpec",
                                          invariants=INVS + ["Verdict"]), wd=ctx.wd, env={"TRACE_FILE": str(tf)}, timeout=3000)
    tlc.expect_holds(rv, "SecurityTrace: S on the traced runs")
    ctx.add_tlc("SecurityTrace", rv)
    if len(rv.records) != len(traces):
        raise tlc.MachineryFailure(f"SecurityTrace: {len(rv.records)} verdicts for {len(traces)} traces")
    for v in rv.records:
        ctx.traces_validated += 1
        if v["bad"]:
            c, o = keep[v["id"]]
            n = min(v["bad"])
            ctx.violation(f"construct {n} ({c['doc'][n - 1][0]} in {'/'.join(c['doc'][n - 1][1]) or 'top level'}), raw_enabled={c['rawOn']}, "
                          f"file_insertion_enabled={c['fileOn']}: observed {o['per'][n - 1]}, the model expects {v['exp'][n - 1]}",
                          {"leg": "V", "markdown": o["text"], "raw_enabled": c["rawOn"], "file_insertion_enabled": c["fileOn"]})
    ctx.leg("V", traces=len(traces))
    import shutil
    shutil.rmtree(ctx.wd / "docs", ignore_errors=True)
    ctx.exhaustive = True


def replay(case) -> int:
    c = case.get("case", case)
    print(c.get("markdown"))
    print({k: c.get(k) for k in ("raw_enabled", "file_insertion_enabled")})
    print("clause:", case.get("clause"))
    return 1
