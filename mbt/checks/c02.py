"""C02 -- the doctree is a faithful image of the Markdown token tree.

T  Render.tla: one action per token kind (the render_* dispatch), current_node /
   current_node_context stack / open-section map in the state; a generation phase produces
   every well-nested event sequence of four vocabulary slices (blocks, inline, lists+code,
   definition lists) within the bound; LeavesFaithful, PathsFaithful, CtxDepth,
   CtxEmptyAtEnd (+ the C03 clauses) are invariants.
R  every generated event sequence is concretised to Markdown, re-abstracted through
   markdown-it (self-check), parsed by both renderers; the projected doctree must be M's.
V  all commonmark.json inputs, the inputs of the repository's fixtures and grammar documents
   of arbitrary depth, in CommonMark and MyST mode, docutils and Sphinx: events from
   markdown-it's own token stream, observation = parser output before transforms;
   validated by RenderTrace.
"""
from __future__ import annotations

import json
import os
import random
import re
import shutil
from pathlib import Path

from .. import render as R
from .. import tlc
from ..frontends import docutils_doctree
from ..pool import pmap

META = {
    "level": "model_checking",
    "text": "TLC checks the renderer model (one action per markdown-it token kind, with current_node, the context stack and the open-section map as state) against the declarative leaf/path correspondence for every well-nested token sequence of four vocabulary slices within the bound; every generated sequence is concretised, parsed by the docutils and the Sphinx renderer and compared with the model's tree; the CommonMark spec examples, the repository's fixture inputs and grammar documents are validated as traces in CommonMark and MyST mode.",
    "note": "Bound: <= 5 items (quick) / 6-7 (thorough) per slice, nesting depth <= 3. Token kinds modelled: the CommonMark core, GFM tables, strikethrough, dollarmath inline/block, definition lists, targets/comments; documents containing other kinds (directives, roles, footnotes, front matter, non-external links in MyST mode, html with the html extensions) are outside this check and counted. markdown-it's tokenisation is the trusted input side. Code text is compared with highlighting off; the highlighted variant is the known finding C02-lexer-newline. GFM mode needs linkify-it-py (not importable): GFM constructs are covered through MyST mode with the table/strikethrough rules.",
    "technique": "TLA+ spec + TLC exhaustive check; spec-behaviour replay into the code (both renderers); TLC batch trace validation",
    "specs": ["Render", "RenderTrace"],
}

BLOCKS = {"para", "h1", "h2", "hr", "code", "blockquote", "bullet_list"}
SLICES = {
    "blocks": ({"root": BLOCKS, "blockquote": BLOCKS, "bullet_list": {"list_item"}, "list_item": BLOCKS}, 4, 5),
    "inline": ({"root": {"ipara", "iheading1"}, "ipara": {"text", "em", "strong", "link", "code_inline", "softbreak", "hardbreak", "image"},
                "iheading1": {"text", "em", "code_inline"},
                "em": {"text", "strong", "code_inline"}, "strong": {"text", "em", "link"}, "link": {"text", "em", "code_inline", "image"}}, 5, 6),
    "lists": ({"root": {"para", "ordered_list", "bullet_list", "fence", "html_block", "h2"}, "ordered_list": {"list_item"}, "bullet_list": {"list_item"},
               "list_item": {"para", "fence", "bullet_list", "blockquote", "h3", "hr"}, "blockquote": {"para", "ordered_list", "hr", "h1"}}, 4, 5),
    "headings": ({"root": {"h1", "h2", "h3", "h4", "para"}}, 5, 6),
    "tables": ({"root": {"tab10", "tab21", "tab22", "tab31", "para", "blockquote", "bullet_list", "h1"}, "blockquote": {"tab21", "para"},
                "bullet_list": {"list_item"}, "list_item": {"tab22", "para"}}, 3, 4),
    "images": ({"root": {"ipara"}, "ipara": {"text", "img", "code_inline"}, "img": {"text", "em", "code_inline", "img", "hardbreak", "link"},
                "em": {"text", "code_inline"}, "link": {"text"}}, 5, 6, 4),
    "misc": ({"root": {"ipara", "dl", "para"}, "ipara": {"text", "s", "math_inline", "html_inline", "code_inline"}, "s": {"text", "em"}, "em": {"text"},
              "dl": {"dt", "dd"}, "dt": {"text", "em"}, "dd": {"para", "bullet_list"}, "bullet_list": {"list_item"}, "list_item": {"para"}}, 5, 6),
}
INVS = ["LeavesFaithful", "PathsFaithful", "CtxDepth", "CtxEmptyAtEnd", "TreeConsistent", "SectionPlacement", "TransitionPlacement",
        "TitleOnlyInSection", "RowWidth"]
EXT = ["strikethrough", "dollarmath", "deflist"]


MARKER_DOCS = [
    ("# Install\n\nMKax see[^install] and[^n2]\n\n[^install]: Needs **MKbx** and `MKcx`\n\n[^n2]: MKdx\n", {}),
    ("(tgt)=\n# Tgt\n\nMKax[^tgt]\n\n[^tgt]: MKbx *MKcx*\n", {}),
    ("MKax\n\n:field MKbx: value MKcx\n:other: MKdx\n", {"myst_enable_extensions": ["fieldlist"]}),
    ("- [ ] MKax task\n- [x] MKbx done\n", {"myst_enable_extensions": ["tasklist"]}),
    ("```{note}\nMKax *MKbx* [MKcx](https://e.x)\n```\n\n:::{tip}\nMKdx\n:::\n", {"myst_enable_extensions": ["colon_fence"]}),
    ("MKax {sub}`MKbx` and {emphasis}`MKcx` {literal}`MKdx`\n", {}),
]


def gdefs(grammar):
    return {"GrammarV": "[" + ", ".join(f"{k} |-> " + "{" + ", ".join(f'"{x}"' for x in sorted(v)) + "}" for k, v in grammar.items()) + "]"}


# ------------------------------------------------------------------ events -> Markdown
def concretize(ev):
    """event sequence -> Markdown text (None if the shape cannot be written)"""
    pos = [0]

    def inline():
        out = []
        while pos[0] < len(ev):
            e = ev[pos[0]]
            if e["e"] == "close":
                return "".join(out)
            pos[0] += 1
            k = e["k"]
            if e["e"] == "leaf":
                if k == "text":
                    out.append(e["t"])
                elif k == "code_inline":
                    out.append("`" + e["t"] + "`")
                elif k == "softbreak":
                    out.append("\n")
                elif k == "hardbreak":
                    out.append("\\\n")
                elif k == "html_inline":
                    out.append(e["t"])
                elif k == "math_inline":
                    out.append("$" + e["t"] + "$")
                else:
                    raise ValueError(k)
            else:
                inner = inline()
                pos[0] += 1          # the close
                if k == "em":
                    out.append("*" + inner + "*")
                elif k == "strong":
                    out.append("**" + inner + "**")
                elif k == "link":
                    out.append("[" + inner + "](" + e["a"] + ")")
                elif k == "image":
                    out.append("![" + inner + "](" + e["a"] + ")")
                elif k == "s":
                    out.append("~~" + inner + "~~")
                elif k == "inline":
                    out.append(inner)
                else:
                    raise ValueError(k)
        return "".join(out)

    def blocks(tight_parent=False):
        out = []          # list of blocks, each a list of lines
        while pos[0] < len(ev):
            e = ev[pos[0]]
            if e["e"] == "close":
                break
            pos[0] += 1
            k = e["k"]
            if e["e"] == "leaf":
                if k == "hr":
                    out.append(["***"])
                elif k == "code_block":
                    out.append(["    " + ln for ln in e["t"].rstrip("\n").split("\n")])
                elif k == "fence":
                    out.append(["```" + e["a"]] + e["t"].rstrip("\n").split("\n") + ["```"])
                elif k == "html_block":
                    out.append(e["t"].rstrip("\n").split("\n"))
                else:
                    raise ValueError(k)
                continue
            if k == "paragraph":
                txt = inline()
                pos[0] += 1
                out.append(txt.split("\n"))
            elif k == "heading":
                txt = inline()
                pos[0] += 1
                if "\n" in txt:
                    raise ValueError("multi-line heading")
                out.append(["#" * int(e["a"]) + " " + txt])
            elif k == "blockquote":
                inner = join(blocks())
                pos[0] += 1
                out.append([("> " + ln) if ln else ">" for ln in inner])
            elif k == "table":
                rows = []
                aligns = []
                while ev[pos[0]]["e"] == "open" and ev[pos[0]]["k"] in ("thead", "tbody"):
                    pos[0] += 1
                    while ev[pos[0]]["e"] == "open" and ev[pos[0]]["k"] == "tr":
                        pos[0] += 1
                        cells = []
                        while ev[pos[0]]["e"] == "open" and ev[pos[0]]["k"] in ("th", "td"):
                            c = ev[pos[0]]
                            pos[0] += 1
                            txt = inline()
                            pos[0] += 1
                            cells.append(txt)
                            if c["k"] == "th":
                                aligns.append({"text-left": ":--", "text-right": "--:", "text-center": ":-:"}.get(c["a"], "---"))
                        pos[0] += 1
                        rows.append(cells)
                    pos[0] += 1
                pos[0] += 1
                lines = ["| " + " | ".join(rows[0]) + " |", "|" + "|".join(aligns) + "|"] + ["| " + " | ".join(r_) + " |" for r_ in rows[1:]]
                out.append(lines)
            elif k in ("bullet_list", "ordered_list"):
                lines = []
                n = 0
                while ev[pos[0]]["e"] == "open" and ev[pos[0]]["k"] == "list_item":
                    pos[0] += 1
                    inner = join(blocks()) or [""]
                    pos[0] += 1
                    mark = "- " if k == "bullet_list" else "1. "
                    if n:
                        lines.append("")
                    lines += [mark + inner[0]] + [(" " * len(mark) + ln) if ln else "" for ln in inner[1:]]
                    n += 1
                pos[0] += 1
                out.append(lines)
            elif k == "dl":
                lines = []
                while ev[pos[0]]["e"] == "open":
                    kk = ev[pos[0]]["k"]
                    pos[0] += 1
                    if kk == "dt":
                        txt = inline()
                        pos[0] += 1
                        if lines:
                            lines.append("")
                        lines.append(txt)
                    else:
                        inner = join(blocks()) or [""]
                        lines += [": " + inner[0]] + [("  " + ln) if ln else "" for ln in inner[1:]]
                    pos[0] += 1
                pos[0] += 1
                out.append(lines)
            else:
                raise ValueError(k)
        return out

    def join(bl):
        lines = []
        for b in bl:
            if lines:
                lines.append("")
            lines += b
        return lines
    try:
        text = "\n".join(join(blocks())) + "\n"
    except (ValueError, IndexError, KeyError):
        return None
    return text


def _strip(ev):
    return [{k: e[k] for k in ("e", "k", "t", "a")} for e in ev]


def _replay(case):
    """worker: one generated behaviour -> comparison in both front ends"""
    ev = _strip(case["ev"])
    text = concretize(ev)
    if text is None:
        return {"miss": "not writable"}
    cfg = {"enable_extensions": EXT}
    got, why = R.events_of(text, cfg)
    if got != ev:
        return {"miss": "re-abstraction differs", "text": text}
    try:
        doc, _ = R.parse_docutils(text, {"myst_enable_extensions": EXT, "myst_highlight_code_blocks": False}, transforms=False)
        nodes, par = R.project(doc)
    except Exception as e:  # noqa: BLE001
        return {"error": f"{type(e).__name__}: {e}", "text": text}
    return {"text": text, "nodes": nodes, "par": par}


# ------------------------------------------------------------------ V drivers
def corpus():
    from ..core import REPO
    out = []
    p = REPO / "tests" / "test_commonmark" / "commonmark.json"
    if p.exists():
        for ex in json.loads(p.read_text()):
            out.append(("commonmark.json#%s" % ex.get("example"), ex["markdown"]))
    for f in sorted((REPO / "tests").rglob("fixtures/*.md")):
        parts = re.split(r"^\.$", f.read_text(encoding="utf8"), flags=re.M)
        for i in range(1, len(parts) - 1, 3):
            out.append((f"{f.name}#{i // 3}", parts[i].strip("\n") + "\n"))
    return out


def gen_doc(rnd, depth=0):
    def inl(d=0):
        out = []
        for _ in range(rnd.randint(1, 4)):
            r = rnd.random()
            w = rnd.choice(["alpha", "b c", "é", "x_y", "1.", "a*b", "<", "&amp;", "end"])
            if r < 0.45 or d > 2:
                out.append(w)
            elif r < 0.55:
                out.append("*" + inl(d + 1) + "*")
            elif r < 0.65:
                out.append("**" + inl(d + 1) + "**")
            elif r < 0.75:
                dest = rnd.choice(["https://e.x/" + w.replace(" ", ""), "https://e.x/" + w.replace(" ", ""), "Docs/README.md", "LICENSE", "../Up/File.TXT"])
                out.append("[" + inl(d + 1) + "](" + dest + ")")
            elif r < 0.82:
                out.append("`" + w + "`")
            elif r < 0.87:
                out.append("![" + rnd.choice([w, "a `c` b", "e\\*s", "x &amp; y", "*em* t", "o ![i **s**](y.png) t", "![*e* `c`](z.png)", "[l *k*](https://e.x/q)"]) + "](" + rnd.choice(["i.png", "./a/i.png", "b//c.png?x=1", "d/../i.png", "dir/"]) + ")")
            elif r < 0.92:
                out.append("~~" + w + "~~")
            elif r < 0.96:
                out.append("$" + "x^2" + "$")
            else:
                out.append("<span>" + w + "</span>")
        return " ".join(out)
    blocks = []
    for _ in range(rnd.randint(1, 5)):
        r = rnd.random()
        if r < 0.3 or depth > 3:
            blocks.append([inl() + ("\n" + inl() if rnd.random() < 0.3 else "")])
        elif r < 0.4:
            blocks.append(["#" * rnd.randint(1, 4) + " " + inl()])
        elif r < 0.45:
            blocks.append([rnd.choice(["***", "---", "___"])])
        elif r < 0.52:
            blocks.append(["```" + rnd.choice(["", "python", "nosuchlang"]), "code " + str(rnd.randint(0, 99)), "  more", "```"])
        elif r < 0.57:
            blocks.append(["    indented code", "    line2"])
        elif r < 0.7:
            inner = gen_doc(rnd, depth + 1).rstrip("\n").split("\n")
            blocks.append([("> " + ln) if ln else ">" for ln in inner])
        elif r < 0.85:
            lines = []
            mark = rnd.choice(["- ", "* ", "1. ", "3) "])
            for n in range(rnd.randint(1, 3)):
                inner = gen_doc(rnd, depth + 2).rstrip("\n").split("\n")
                if n and rnd.random() < 0.5:
                    lines.append("")
                lines += [mark + inner[0]] + [(" " * len(mark) + ln) if ln else "" for ln in inner[1:]]
            blocks.append(lines)
        elif r < 0.92:
            blocks.append(["| a | b |", "|:--|--:|", f"| {inl(2)} | 2 |", "| 3 |"])
        elif r < 0.96:
            blocks.append(["term " + str(rnd.randint(0, 9)), ": " + inl(), "", "  second para"])
        else:
            blocks.append(["<div>", "html", "</div>"])
    lines = []
    for b in blocks:
        if lines:
            lines.append("")
        lines += b
    return "\n".join(lines) + "\n"


def _vjob(job):
    tid, name, text, cm, front = job
    cfg = {"commonmark_only": True} if cm else {"enable_extensions": EXT + (["attrs_block", "attrs_inline", "colon_fence", "html_admonition", "html_image"] if front in ("c03", "c03raw", "c03sup") else [])}
    try:
        ev, why = R.events_of(text, cfg)
    except Exception as e:  # noqa: BLE001
        return {"id": tid, "skip": f"markdown-it raised {type(e).__name__}"}
    c03only = ev is None
    if c03only and front not in ("c03", "c03raw", "c03sup"):
        return {"id": tid, "skip": why}
    ov = {"myst_commonmark_only": True} if cm else {"myst_enable_extensions": cfg["enable_extensions"], "myst_heading_anchors": 3 if front in ("c03", "c03raw", "c03sup") else 0}
    if front in ("c03", "c03raw", "c03sup") and not cm:
        ov["myst_enable_extensions"] = ov["myst_enable_extensions"] + ["substitution"]
        ov["myst_substitutions"] = {"prod": "[Widget]{#widget}[^f1]", "blk": "(tgs)=\n## Sub in substitution"}
    if front == "c03raw":
        # docutils' raw_enabled=False: every raw node is replaced by a warning node after the parse
        ov["raw_enabled"] = False
        ev, c03only = None, True
    if front == "c03sup":
        # every MyST warning suppressed: no warning nodes; the tree must be as well formed as with them
        ov["myst_suppress_warnings"] = ["myst", "ref"]
        ev, c03only = None, True
    ov["myst_highlight_code_blocks"] = False
    try:
        doc, _ = R.parse_docutils(text, ov, transforms=False)
        nodes, par = R.project(doc)
        doc2, _ = R.parse_docutils(text, ov, transforms=True)
        ids = R.idinfo(doc2)
        if front == "c03sup":
            for e in ids:
                e["warned"] = True      # (a missing target's warning is suppressed too: its refid is reported to nobody, by request)
        n2, p2 = R.project(doc2, messages=True)
        nw, pw = R.project(doc, messages=True)
    except Exception as e:  # noqa: BLE001
        return {"id": tid, "error": f"{type(e).__name__}: {e}"}
    return {"id": tid, "ev": [] if c03only else ev, "c03only": c03only, "obs": {"nodes": nodes, "par": par},
            "obsw": {"nodes": nw, "par": pw},
            "obs2": {"nodes": n2, "par": p2}, "ids": ids, "dups": R.dup_nodes(doc) + R.dup_nodes(doc2) + R.parent_mismatches(doc) + R.parent_mismatches(doc2)}


def _sphinx_batch(job):
    """Sphinx renderer: parse many documents in one project; doctree before resolution"""
    from ..sphinx_runner import run_project
    wd, items, cm = job
    d = Path(wd) / f"spr{os.getpid()}_{items[0][0]}"
    files = {f"d{tid}.md": text for tid, text in items}
    files["index.md"] = "# I\n\n```{toctree}\n:hidden:\n\n" + "\n".join(f"d{tid}" for tid, _ in items) + "\n```\n"
    conf = {"myst_commonmark_only": True} if cm else {"myst_enable_extensions": EXT}
    from ..sphinx_runner import STASH_PARSED
    r = run_project(d, files, conf, resolve=False, conf_extra=STASH_PARSED)
    out = {}
    for tid, _ in items:
        t = r["stash"].get(f"d{tid}")
        if not r["ok"] or t is None:
            out[tid] = {"error": r["error"] or "no doctree"}
        else:
            nodes, par = R.project(t)
            out[tid] = {"nodes": nodes, "par": par}
    shutil.rmtree(d, ignore_errors=True)
    return out


def judge_tree(exp_nodes, exp_par, nodes, par):
    if nodes == exp_nodes and par == exp_par:
        return None
    for j in range(max(len(nodes), len(exp_nodes))):
        a = (exp_nodes[j], exp_par[j]) if j < len(exp_nodes) else None
        b = (nodes[j], par[j]) if j < len(nodes) else None
        if a != b:
            return f"node {j + 1} (document order): expected {a}, observed {b} ((kind, text, attributes), parent index)"
    return "trees differ"


def run_render(ctx, focus):
    quick = ctx.tier == "quick"
    rnd = random.Random(ctx.seed + 2)
    # ---- T + export ---------------------------------------------------------------------------
    recs = []
    for name, sl in SLICES.items():
        grammar, nq, nt = sl[:3]
        depth = sl[3] if len(sl) > 3 else 3
        n = nq if quick else nt
        consts = {"Grammar": "<-GrammarV", "MaxItems": n, "MaxDepth": depth, "DevHrAnywhere": False, "DevAltTextOnly": False}
        r = tlc.run("Render", tlc.cfg(ctx, f"r_{name}.cfg", consts, invariants=INVS + ["Emit"]), wd=ctx.wd, timeout=3000, defs=gdefs(grammar), heap="10g")
        tlc.expect_holds(r, f"Render[{name}] M |= S")
        ctx.add_tlc(f"Render_{name}", r, f"items <= {n}, depth <= {depth}")
        recs += r.records
    rc = tlc.run("Render", tlc.cfg(ctx, "r_cov.cfg", {"Grammar": "<-GrammarV", "MaxItems": 2, "MaxDepth": 2, "DevHrAnywhere": False, "DevAltTextOnly": False}, invariants=INVS),
                 wd=ctx.wd, coverage=True, defs=gdefs(SLICES["blocks"][0]))
    for act in ("GenOpen", "GenLeaf", "GenClose", "GenDone", "Step", "Finish"):
        if rc.coverage.get(act, (0, 0))[0] == 0 and rc.coverage.get("Next", (0, 0))[0] == 0:
            raise tlc.MachineryFailure(f"Render: action {act} never taken (vacuous)")
    ctx.add_tlc("Render_cov", rc)
    rd = tlc.run("Render", tlc.cfg(ctx, "r_dev.cfg", {"Grammar": "<-GrammarV", "MaxItems": 2, "MaxDepth": 2, "DevHrAnywhere": True, "DevAltTextOnly": False},
                                   invariants=["TransitionPlacement"]), wd=ctx.wd, defs=gdefs(SLICES["blocks"][0]))
    tlc.expect_violation(rd, "TransitionPlacement", "Render Dev_HrAnywhere")
    ctx.add_tlc("Render_dev_hranywhere", rd, "expected counterexample found (transition under block_quote)")
    ra = tlc.run("Render", tlc.cfg(ctx, "r_dev_alt.cfg", {"Grammar": "<-GrammarV", "MaxItems": 3, "MaxDepth": 2, "DevHrAnywhere": False, "DevAltTextOnly": True},
                                   invariants=["LeavesFaithful"]), wd=ctx.wd, defs=gdefs(SLICES["images"][0]))
    tlc.expect_violation(ra, "LeavesFaithful", "Render Dev_AltTextOnly")
    ctx.add_tlc("Render_dev_alttextonly", ra, "expected counterexample found (inline code lost from an image's alt text)")
    return recs


def replay_leg(ctx, recs):
    cases = [{"ev": r["ev"], "nodes": r["nodes"], "par": r["par"]} for r in recs if r["ev"]]
    outs = pmap(_replay, cases, chunksize=64)
    miss = 0
    sp_items = []
    for c, o in zip(cases, outs):
        if "miss" in o:
            miss += 1
            continue
        ctx.count(("r", o["text"]), nontrivial=sum(1 for e in c["ev"] if e["e"] == "open") >= 2)
        ctx.traces_validated += 1
        if "error" in o:
            ctx.violation(f"docutils renderer raised {o['error']}", {"leg": "R", "markdown": o["text"]})
            continue
        exp_nodes = [dict(n) for n in c["nodes"]]
        d = judge_tree(exp_nodes, list(c["par"]), o["nodes"], o["par"])
        if d:
            ctx.violation(f"docutils doctree is not the image of the token tree: {d}", {"leg": "R", "front_end": "docutils", "markdown": o["text"]})
        sp_items.append((len(sp_items), o["text"], exp_nodes, list(c["par"])))
    ctx.gen_miss += miss
    if miss > 0.6 * len(cases):
        raise tlc.MachineryFailure(f"Render R: {miss} of {len(cases)} behaviours could not be concretised")
    # Sphinx renderer on a slice
    step = 6 if ctx.tier == "quick" else 2
    sl = sp_items[::step]
    jobs = [(str(ctx.wd / "docs"), [(i, t) for i, t, _, _ in sl[b:b + 150]], False) for b in range(0, len(sl), 150)]
    res = {}
    for part in (pmap(_sphinx_batch, jobs, procs=min(16, max(1, len(jobs))), chunksize=1) if len(jobs) >= 2 else [_sphinx_batch(j) for j in jobs]):
        res.update(part)
    for i, text, en, ep in sl:
        o = res.get(i)
        if o is None:
            continue
        ctx.count(("r-sphinx", text))
        ctx.traces_validated += 1
        if "error" in o:
            ctx.violation(f"Sphinx renderer raised {o['error']}", {"leg": "R", "front_end": "sphinx", "markdown": text})
            continue
        d = judge_tree(en, ep, o["nodes"], o["par"])
        if d:
            ctx.violation(f"Sphinx doctree is not the image of the token tree: {d}", {"leg": "R", "front_end": "sphinx", "markdown": text})
    ctx.leg("R", behaviours=len(cases), not_concretisable=miss, sphinx=len(sl))
    if sp_items:
        ctx.sample({"markdown": sp_items[len(sp_items) // 2][1], "expected_nodes": sp_items[len(sp_items) // 2][2][:8]})


def trace_leg(ctx, focus, extra_docs=()):
    quick = ctx.tier == "quick"
    rnd = random.Random(ctx.seed + 22)
    docs = corpus()
    docs += [(f"gen{t}", gen_doc(rnd)) for t in range(400 if quick else 8000)]
    docs += list(extra_docs)
    jobs = []
    kind = "c03" if focus == "C03" else "docutils"
    for n, (name, text) in enumerate(docs):
        jobs.append((3 * n, name, text, True, kind))
        jobs.append((3 * n + 1, name, text, False, kind))
        if focus == "C03" and name.startswith(("stress", "gen")) and n % 2 == 0:
            jobs.append((3 * n + 2, name + "/raw_enabled=False", text, False, "c03raw"))
        elif focus == "C03" and name.startswith(("stress", "gen")):
            jobs.append((3 * n + 2, name + "/warnings suppressed", text, False, "c03sup"))
    outs = pmap(_vjob, jobs, chunksize=32)
    traces, keep, skipped = [], {}, {}
    for j, o in zip(jobs, outs):
        if "skip" in o:
            skipped[o["skip"]] = skipped.get(o["skip"], 0) + 1
            continue
        case = {"leg": "V", "source": j[1], "markdown": j[2], "commonmark_only": j[3]}
        if "error" in o:
            ctx.violation(f"parsing raised {o['error']}", case)
            continue
        ctx.count(("v", j[0]), nontrivial=len(o["ev"]) > 6)
        keep[o["id"]] = (case, o)
        traces.append(o)
    consts = {"Grammar": "<-GrammarV", "MaxItems": 0, "MaxDepth": 0, "DevHrAnywhere": False, "DevAltTextOnly": False}
    # TLC reads a batch of traces at start-up: bounded batches, a few TLC processes side by side
    B = 1500
    batches = [traces[i:i + B] for i in range(0, len(traces), B)] or [[]]

    def _batch(nb):
        n, b = nb
        tf = ctx.wd / f"r_traces_{n}.ndjson"
        tlc.write_ndjson(tf, b)
        rv_ = tlc.run("RenderTrace", tlc.cfg(ctx, f"r_trace_{n}.cfg", consts, spec="TraceSpec",
                                            invariants=["Verdict", "TreeConsistent", "SectionPlacement", "TransitionPlacement", "TitleOnlyInSection"]),
                      wd=ctx.wd, env={"TRACE_FILE": str(tf)}, timeout=3000, defs=gdefs(SLICES["blocks"][0]), heap="6g", workers=8 if len(batches) > 1 else 16)
        tlc.expect_holds(rv_, "RenderTrace invariants")
        if len(rv_.records) != len(b):
            raise tlc.MachineryFailure(f"RenderTrace: {len(rv_.records)} verdicts for {len(b)} traces")
        tf.unlink()
        return rv_
    from concurrent.futures import ThreadPoolExecutor
    with ThreadPoolExecutor(3) as ex:
        rvs = list(ex.map(_batch, enumerate(batches)))
    for n, rv_ in enumerate(rvs):
        ctx.add_tlc("RenderTrace" if len(rvs) == 1 else f"RenderTrace_{n}", rv_)

    class _All:
        records = [x for rv_ in rvs for x in rv_.records]
    rv = _All
    for v in rv.records:
        case, o = keep[v["id"]]
        ctx.traces_validated += 1
        if focus == "C02" and not v["tree"]:
            n = v["firstdiff"]
            obs = (o["obs"]["nodes"][n - 1], o["obs"]["par"][n - 1]) if 0 < n <= len(o["obs"]["nodes"]) else None
            ctx.violation(f"doctree is not the image of the token tree ({case['source']}, commonmark_only={case['commonmark_only']}): "
                          f"node {n}: expected {v['exp'] or None}, observed {obs}", case)
        if focus == "C03" and not v["wf"]:
            ctx.violation(f"the parsed document is not a well-formed docutils tree ({case['source']}): section/transition placement, row width or parent order", case)
        if focus == "C03" and not v["wf2"]:
            ctx.violation(f"the document after the transform pipeline is not a well-formed docutils tree ({case['source']}): section/transition placement, row width, footnote label or parent order", case)
        if focus == "C03" and not v["ids"]:
            ctx.violation(f"identifiers: a duplicate id, or a refid/backref that points at no element and has no warning ({case['source']})", case)
    ctx.leg("V", traces=len(traces), outside_vocabulary=sum(skipped.values()), reasons=dict(sorted(skipped.items(), key=lambda kv: -kv[1])[:8]))
    return docs


LINK_TEXTS = ["plain", "*em* and **strong**", "`code`", "$E=mc^2$", "![](badge.svg)", "![alt](img.png)", "a ![b](i.png) c",
              "<kbd>x</kbd>", "~~gone~~", "$a$ and `b`", " ", "\\*lit\\*"]
LINK_DESTS = ["other.md", "other.md#sec", "./other.md", "nosuchdoc", "<project:other.md>", "extra.txt", "#sec", "<path:extra.txt>"]


def _leaves(nodes):
    return [(n["k"], n["t"]) for n in nodes if n["k"] in R.LEAF_NODES or n["k"] == "#text"]


def sphinx_link_leg(ctx):
    """The children of a link are rendered whatever kind of destination it has: a link to a document, a file, a label or
    an unknown name under Sphinx carries the same leaves (text, math, images, code, raw HTML) as the same link to a URL
    under docutils (Render.tla: a link is a container; its children are the image of the token's children)."""
    from ..sphinx_runner import STASH_PARSED, run_project
    docs, exp = {}, {}
    for i, txt in enumerate(LINK_TEXTS):
        base, _ = docutils_doctree(f"[{txt}](https://ex.org/x)\n", {"myst_enable_extensions": EXT})
        exp[i] = _leaves(R.project(base)[0])
        for j, dest in enumerate(LINK_DESTS):
            if dest.startswith("<"):
                if txt != "plain":
                    continue
                docs[f"l{i}_{j}"] = (i, f"{dest}\n", True)
            else:
                docs[f"l{i}_{j}"] = (i, f"[{txt}]({dest})\n", False)
    files = {f"{k}.md": v[1] for k, v in docs.items()}
    files["other.md"] = "# Other\n\n(sec)=\n## Sec\n"
    files["extra.txt"] = "x\n"
    files["index.md"] = "# I\n\n(sec)=\n## Here\n\n```{toctree}\n:hidden:\n\nother\n" + "\n".join(docs) + "\n```\n"
    r = run_project(ctx.wd / "sx_links", files, {"myst_enable_extensions": EXT}, resolve=False, conf_extra=STASH_PARSED)
    if not r["ok"]:
        ctx.violation(f"Sphinx build of the link documents failed: {r['error']}", {"leg": "R-sphinx-links", "files": files})
        return
    n = 0
    for k, (i, text, auto) in docs.items():
        t = r["stash"].get(k)
        ctx.count(("sphinx-link", k))
        ctx.traces_validated += 1
        n += 1
        if t is None:
            ctx.violation("no doctree for a link document", {"leg": "R-sphinx-links", "markdown": text})
            continue
        got = _leaves(R.project(t)[0])
        if auto:
            continue            # (an autolink has no children of its own; rendered = built)
        if got != exp[i]:
            ctx.violation(f"Sphinx: the children of the link {text.strip()!r} are not the image of the token's children: expected leaves {exp[i]}, observed {got}",
                          {"leg": "R-sphinx-links", "front_end": "sphinx", "markdown": text})
    ctx.leg("R-sphinx-links", documents=n)
    shutil.rmtree(ctx.wd / "sx_links", ignore_errors=True)


def highlight_leg(ctx):
    """code text with syntax highlighting ON (the default): known finding C02-lexer-newline"""
    n = 0
    for lang in ("python", "ruby", "c", "nosuchlang", ""):
        for wrap in ("", "> ", "- "):
            body = ["```" + lang, "x = 1", "", "y = 2", "```"]
            text = "\n".join((wrap + b) if (b or not wrap) else wrap.rstrip() for b in body) + "\n"
            if wrap == "- ":
                text = "- ```" + lang + "\n  x = 1\n\n  y = 2\n  ```\n"
            ev, why = R.events_of(text, {})
            want = [e["t"] for e in ev if e["k"] == "fence"][0]
            doc, _ = R.parse_docutils(text, {}, transforms=False)
            nodes, par = R.project(doc)
            got = [x["t"] for x in nodes if x["k"] == "literal_block"]
            n += 1
            ctx.count(("hl", lang, wrap))
            # the info string's language is kept on the node (a class under docutils), whether pygments knows it or not
            from docutils import nodes as _dn
            lbs = list(doc.findall(_dn.literal_block))
            if lang and (len(lbs) != 1 or lang not in lbs[0].get("classes", [])):
                ctx.violation(f"code block with language {lang!r}: the language is not recorded on the node (classes {lbs[0].get('classes') if lbs else None})",
                              {"leg": "R-highlight", "markdown": text})
            if got != [want]:
                fid = "C02-lexer-newline" if got == [want[:-1]] and want.endswith("\n") else None
                ctx.violation(f"code block text not verbatim with highlighting on (language {lang!r}): expected {want!r}, observed {got}",
                              {"leg": "R-highlight", "markdown": text}, finding=fid)
    ctx.leg("R-highlight", cases=n)
    # LeavesFaithful on constructs outside the token vocabulary of the model (footnotes, field lists, task lists,
    # directives with inline markup): every marker word of the source is in the doctree exactly once
    nm = 0
    for text, ov in MARKER_DOCS:
        for wrap in ("", "> ", "- "):
            src = "\n".join(((wrap if wrap != "- " or i == 0 else "  ") + ln) if ln or not wrap else wrap.rstrip() for i, ln in enumerate(text.split("\n"))) if wrap else text
            if wrap and text.startswith("#"):
                continue          # (a heading must stay at document level to make a name)
            nm += 1
            ctx.count(("markers", src))
            case = {"leg": "R-markers", "markdown": src, "overrides": ov}
            try:
                doc, _ = R.parse_docutils(src, ov, transforms=True)
            except Exception as e:  # noqa: BLE001
                ctx.violation(f"rendering raised {type(e).__name__}: {e}", case)
                continue
            from docutils import nodes as _n
            body = doc.deepcopy()
            for sm in list(body.findall(_n.system_message)):
                sm.parent.remove(sm)
            flat = body.astext()
            bad = {m: flat.count(m) for m in set(re.findall(r"MK\w+x", src)) if flat.count(m) != 1}
            if bad:
                ctx.violation(f"text leaves of the source occur {bad} times in the doctree (each exactly once expected)", case)
    ctx.leg("R-markers", documents=nm)


def run(ctx):
    ctx.rule = ("R: every well-nested event sequence of the four vocabulary slices within the bound (concretised, re-abstracted through markdown-it). "
                "V: commonmark.json, fixture inputs, grammar documents x {CommonMark, MyST} mode. non-trivial = at least two container tokens / more than 6 events")
    ctx.assumptions += ["markdown-it's token stream is the input side (trusted)", "code text compared with highlight_code_blocks off"]
    recs = run_render(ctx, "C02")
    replay_leg(ctx, recs)
    highlight_leg(ctx)
    sphinx_link_leg(ctx)
    trace_leg(ctx, "C02")
    shutil.rmtree(ctx.wd / "docs", ignore_errors=True)
    ctx.exhaustive = True


def replay(case) -> int:
    c = case.get("case", case)
    print(c.get("markdown"))
    print("clause:", case.get("clause"))
    return 1
