"""C09 -- local '#target' links resolve to the right node or warn exactly once.

T  Anchors.tla: the two registries (explicit target names, heading slugs) and the
   ResolveAnchorIds transform (M) |= ResolveRule ("explicit first, then the heading whose
   slug is the name, else missing; never a different target"), for every document within
   the bound; Dev_CaseSensitive regression.
R  every behaviour -> Markdown (link block at top level, in a block quote, in a list item,
   in a directive body) -> docutils: owner of every link's refid, link text (explicit text
   kept / empty text filled from the target's title or '#name'), one [myst.xref_missing]
   warning per missing link at the link's own line, no link dropped or duplicated.
V  random documents with random target/heading/link sets (the generator knows nothing about
   owners: TLC decides them), validated by AnchorsTrace.
"""
from __future__ import annotations

import random

from .. import anchors as A
from .. import tlc
from ..frontends import c2s, s2c
from ..pool import pmap

META = {
    "level": "model_checking",
    "text": "TLC checks the link-resolution model (explicit-target registry with docutils name normalisation, insertion-ordered heading slugs, the ResolveAnchorIds transform) against the declarative resolution rule for every document within the bound; every behaviour is replayed through the docutils front end with the links at four nesting positions, checking owner, text, warning count and warning line of every link; random documents are validated as traces by TLC.",
    "note": "Bound: documents <= 3 (quick) / 4 items over 5 headings + 3 '(name)=' targets x 18 links (existing, missing, case variants, explicit/empty text) x depths 0,1,2,7. Targets with equal normalised names are excluded (docutils then drops both names). Only the docutils front end is driven here; under Sphinx unresolved local links become pending_xref nodes, which C12 covers. For a missing target with empty link text the '#name' fallback is not shown (pinned by a repository fixture; see C14's finding).",
    "technique": "TLA+ spec + TLC exhaustive check; spec-behaviour replay into the code; TLC batch trace validation",
    "specs": ["Anchors", "AnchorsTrace"],
}

WRAPS = ["none", "quote", "list", "note"]


def judge(ctx, leg, items, links, exp_res, exp_title, o, depth):
    """compare one observation with M's prediction; items/links with string names"""
    case = {"leg": leg, "markdown": o["text"], "depth": depth}
    if o["problems"]:
        ctx.violation("; ".join(o["problems"]), case)
        return
    for l, (name, form) in enumerate(links):
        exp = list(exp_res[l])
        got = o["res"][l]
        if got != exp:
            ctx.violation(f"link {l + 1} '#{name}' ({form} text): expected {exp}, observed {got} "
                          "(explicit/slug -> item index of the owner; missing = warning)", {**case, "link": name})
            return
        txt = o["texts"][l]
        if form == "text" and A.icon_link(l + 1):
            if o["kinds"][l] != ["image"]:
                ctx.violation(f"link {l + 1} '#{name}': the link's own content (an image without alt text) is not kept as written: children {o['kinds'][l]}", case)
                return
        elif form == "text":
            if txt != f"L{l + 1}":
                ctx.violation(f"link {l + 1} '#{name}': explicit text L{l + 1} not kept (observed {txt!r})", case)
                return
        elif exp[0] != "missing":      # "empty" and "auto" (<project:#name>) forms
            t = exp_title[l]
            # the title as it stands in the doctree (images dropped); an empty title counts as none
            want = (o["sec_titles"].get(t, "") if t else "") or "#" + name
            if txt != want:
                ctx.violation(f"link {l + 1} '[](#{name})': text should be " + ("the target's title " if t else "") + f"{want!r}, observed {txt!r}", case)
                return
    want_lines = sorted(o["link_lines"][l + 1] for l in range(len(links)) if exp_res[l][0] == "missing")
    if o["warn_lines"] != want_lines:
        ctx.violation(f"[myst.xref_missing] warnings at lines {o['warn_lines']}, expected one per missing link at lines {want_lines}", case)
        return
    if o["other"]:
        ctx.violation(f"unexpected warnings {o['other']}", case)


def _sphinx_case(job):
    """one document = one Sphinx project (labels are project-wide: other documents must not offer targets)"""
    from pathlib import Path
    from ..sphinx_runner import run_docs
    rec = job["rec"]
    items = A.items_str(rec["items"])
    text, link_lines = A.doc_text(items, A.LINKS, rec.get("wrap", "none"))
    try:
        res = run_docs(Path(job["wd"]), {"doc": text}, {"myst_heading_anchors": rec["depth"], "myst_enable_extensions": ["attrs_block"]}, resolve=False)
    except Exception as e:  # noqa: BLE001
        return {"error": f"{type(e).__name__}: {e}", "text": text}
    import shutil
    shutil.rmtree(job["wd"], ignore_errors=True)
    r = res.get("doc")
    if not r or not r["ok"]:
        return {"error": (r or {}).get("error") or "no result", "text": text}
    return {"text": text, "link_lines": link_lines, "warn_lines": sorted(w["line"] for w in r["warnings"] if w["tag"] == "myst.xref_missing")}


def run(ctx):
    quick = ctx.tier == "quick"
    ctx.rule = ("R: every document within the bound x depth, links at 4 nesting positions (expected owner of every link exported by TLC). "
                "V: random documents of 1-9 items and up to 10 links. non-trivial = at least one target or anchored heading and one link that resolves")
    ctx.assumptions += ["docutils front end", "targets with equal normalised names excluded (docutils removes both names)"]
    recs = [r for r in A.t_leg(ctx, quick, focus="C09") if r["slug_func"] == "default"]
    for n, rec in enumerate(recs):
        rec["wrap"] = WRAPS[n % 4]
    outs = pmap(A.replay_case, recs, chunksize=64)
    for rec, o in zip(recs, outs):
        items = A.items_str(rec["items"])
        ctx.count((repr(rec["items"]), rec["depth"], rec["wrap"]), nontrivial=any(r[0] != "missing" for r in rec["res"]))
        ctx.traces_validated += 1
        if "error" in o:
            ctx.violation(f"rendering raised {o['error']}", {"leg": "R", "markdown": o["text"], "depth": rec["depth"]})
            continue
        judge(ctx, "R", items, A.LINKS, rec["res"], rec["title"], o, rec["depth"])
    mid = recs[len(recs) // 3]
    ctx.sample({"items": A.items_str(mid["items"]), "depth": mid["depth"],
                "links": [f"#{n} ({f})" for n, f in A.LINKS], "expected_owner_per_link": mid["res"]})
    ctx.leg("R", behaviours=len(recs))

    # ---- R (Sphinx front end): unresolved local links go on to MystReferenceResolver; one warning per missing link -------
    step = max(1, len(recs) // (40 if quick else 400))
    srecs = [r for r in recs[::step] if any(x[0] == "missing" for x in r["res"])]
    souts = pmap(_sphinx_case, [{"rec": r, "wd": str(ctx.wd / f"sx{n}")} for n, r in enumerate(srecs)], chunksize=1)
    for rec, o in zip(srecs, souts):
        ctx.count(("sphinx", repr(rec["items"]), rec["depth"], rec["wrap"]))
        ctx.traces_validated += 1
        case = {"leg": "R-sphinx", "markdown": o.get("text"), "depth": rec["depth"]}
        if "error" in o:
            ctx.violation(f"Sphinx build raised {o['error']}", case)
            continue
        want = sorted(o["link_lines"][l + 1] for l, r_ in enumerate(rec["res"]) if r_[0] == "missing")
        if o["warn_lines"] != want:
            ctx.violation(f"Sphinx: [myst.xref_missing] warnings at lines {o['warn_lines']}, expected one per missing link at lines {want}", case)
    ctx.leg("R-sphinx", builds=len(srecs))

    # ---- V ----------------------------------------------------------------------------------
    rnd = random.Random(ctx.seed + 9)
    cases = [A.random_case(rnd, t) for t in range(250 if quick else 5000)]
    vouts = pmap(A.v_case, cases, chunksize=16)
    traces, keep = [], {}
    for c, o in zip(cases, vouts):
        if o.get("miss"):
            ctx.gen_miss += 1
            continue
        if "error" in o:
            ctx.violation(f"rendering raised {o['error']}", {"leg": "V", "markdown": o["text"], "depth": c["depth"]})
            continue
        if not all(A.classified(it[1]) for it in o["aitems"]) or not all(A.classified(n) for n, _ in o["links"]):
            ctx.gen_miss += 1
            continue
        if any(it[0] == "h" and it[1] != it[1].strip() for it in o["aitems"]):
            continue        # anchors of such titles are C10's open finding (C10-slug-strip); not this property's business
        ctx.count(("v", c["id"]))
        keep[c["id"]] = (c, o)
        traces.append({"id": c["id"], "items": [[it[0], s2c(it[1])] + it[2:] for it in o["aitems"]], "depth": c["depth"],
                       "links": [[s2c(n), f] for n, f in o["links"]],
                       "obs": {"slugs": o["slugs"], "res": [r if r[0] in ("explicit", "slug", "missing") else ["other"] for r in o["res"]],
                               "nwarn": o["nwarn"]}})
    tf = ctx.wd / "an_traces.ndjson"
    tlc.write_ndjson(tf, traces)
    rv = tlc.run("AnchorsTrace", tlc.cfg(ctx, "an_trace.cfg", A.consts(0, [0]), spec="TraceSpec", invariants=["Verdict"] + A.INVS),
                 wd=ctx.wd, env={"TRACE_FILE": str(tf)}, timeout=3000, defs=A.defs())
    tlc.expect_holds(rv, "AnchorsTrace: S on the traced runs")
    ctx.add_tlc("AnchorsTrace", rv)
    if len(rv.records) != len(traces):
        raise tlc.MachineryFailure(f"AnchorsTrace: {len(rv.records)} verdicts for {len(traces)} traces")
    for v in rv.records:
        c, o = keep[v["id"]]
        ctx.traces_validated += 1
        items = c["items"]          # titles as written (markup kept) for the text clause
        judge(ctx, "V", items, o["links"], v["exp_res"], v["title"], o, c["depth"])
    ctx.leg("V", traces=len(traces))
    ctx.exhaustive = True


def replay(case) -> int:
    c = case.get("case", case)
    print(c.get("markdown"))
    print("clause:", case.get("clause"))
    return 1
