"""C13 -- config is validated and normalised; overrides behave the same at every level.

T  Config.tla: merge_file_level as Copy / ValidateUpdate / Assign / Normalise / EndParse over
   validator kinds and value forms, sequences of documents on one global object
   |= GlobalImmutable, GlobalNeverWritten, EffectRule (front matter == the same values set
   globally, dict fields merged, one warning per ignored entry), Normalised, NoLeak;
   Dev_AssignRaw regression.
R  (a) every TLC behaviour replayed on real fields (one per kind) through merge_file_level
   and through a real docutils parse;  (b) the spec's Accept/stored table bound to EVERY
   real field of the dataclass x value shapes x entry points (constructor, copy, front
   matter, docutils option strings);  (c) effect equivalence: doctree of a probing document
   under global vs front-matter setting.
V  random longer sequences of documents with multi-field front matter, validated by
   ConfigTrace.
Render phase (WithRender): the Sphinx parser renders a document without front matter with the
global object itself and one with front matter with the copy; figure-md mutates the object it is
given in place and rebinds.  TLC checks GlobalImmutable over object identity (alias / shared
containers; DevShallowCopy regression); every behaviour is replayed as a Sphinx project whose
conf.py records env.myst_config before every document (R-render), random longer builds are
validated as traces (V-render); the effective configuration is observed through the rendering.
"""
from __future__ import annotations

import copy
import dataclasses as dc
import random

from .. import tlc

META = {
    "level": "model_checking",
    "text": "TLC checks the front-matter merge model (copy, validate on the copy, merge, assign, normalise) over validator kinds and value forms for every sequence of documents within the bound against the declarative effect rule, immutability of the global object and normalisation; behaviours are replayed on real fields through merge_file_level and real parses, the spec's acceptance table is bound to every field of the dataclass over generated value shapes and entry points, and random longer sequences are validated as traces by TLC. The Sphinx render phase (which object a document is rendered with, figure-md's in-place change and restore) is modelled with object identity and bound to real Sphinx builds that record the global configuration object before every document.",
    "note": "Bound: 2 documents x <= 2 front-matter entries over a 13-entry vocabulary (6 fields, one per validator kind, + an unknown field); render phase: 2 (quick) / 3 (thorough) documents x (no front matter | front matter with <= 1 of 4 entries) x figure-md or not. Value shapes per real field: canonical, alternative spelling, wrong type, nested wrong type, null. Shapes that are only debatable readings of the documented type are not generated (bool where int is documented, tuple/set where a list is documented). Fields documented as global-only are excluded from the doctree effect equivalence. The Sphinx conf entry point shares MdParserConfig(**values) with the constructor and is covered through it.",
    "technique": "TLA+ spec + TLC exhaustive check; spec-behaviour replay into the code; TLC batch trace validation",
    "specs": ["Config", "ConfigTrace"],
}

KINDOF = {"fb": "bool", "fs": "setc", "fu": "dictc", "fd": "dictm", "fc": "call", "fl": "list"}
REAL = {"fb": "footnote_transition", "fs": "enable_extensions", "fu": "url_schemes", "fd": "substitutions",
        "fc": "heading_slug_func", "fl": "disable_syntax"}
UPDATES = [("fb", ("canon", 2)), ("fb", ("bad", 1)), ("fs", ("canon", 2)), ("fs", ("alt", 2)), ("fs", ("bad", 1)),
           ("fu", ("alt", 2)), ("fu", ("bad", 1)), ("fd", ("canon", {"k2": 2})), ("fd", ("canon", {"k1": 2})), ("fd", ("bad", None)),
           ("fc", ("alt", 2)), ("fl", ("canon", 2)), ("zz", ("canon", 1))]


def _tla_val(v):
    form, x = v
    if isinstance(x, dict):
        return '<<"%s", %s>>' % (form, " @@ ".join(f'("{k}" :> {i})' for k, i in x.items()))
    if x is None:
        return '<<"%s", <<>>>>' % form
    return '<<"%s", %d>>' % (form, x)


def _defs():
    return {"KindV": "[" + ", ".join(f'{f} |-> "{k}"' for f, k in KINDOF.items()) + "]",
            "UpdV": "{" + ", ".join(f'<<"{f}", {_tla_val(v)}>>' for f, v in UPDATES) + "}"}


# ------------------------------------------------------------------ abstract <-> concrete
def _funcs():
    from myst_parser.config.main import _test_slug_func
    from myst_parser.mdit_to_docutils.base import default_slugify
    return {1: _test_slug_func, 2: default_slugify}


PATHS = {1: "myst_parser.config.main._test_slug_func", 2: "myst_parser.mdit_to_docutils.base.default_slugify"}


def concrete(f, v):
    """abstract value -> Python value for the real field"""
    form, x = v
    if f == "fb":
        return {1: True, 2: False}[x] if form == "canon" else "yes"
    if f == "fs":
        s = {1: ["deflist"], 2: ["colon_fence", "tasklist"]}[x]
        return set(s) if form == "canon" else (list(s) if form == "alt" else ["nosuch_extension"])
    if f == "fu":
        s = {1: ["http"], 2: ["https", "ftp"]}[x]
        return {k: None for k in s} if form == "canon" else (list(s) if form == "alt" else [1, 2])
    if f == "fd":
        return {k: f"v{i}" for k, i in x.items()} if form == "canon" else ["not", "a", "dict"]
    if f == "fc":
        return _funcs()[x] if form == "canon" else (PATHS[x] if form == "alt" else 5)
    if f == "fl":
        s = {1: ["table"], 2: ["emphasis"]}[x]
        return list(s) if form == "canon" else "emphasis"
    return 1


def abstract(f, val):
    """Python value of the real field -> abstract <<form, id>> (or ["other", repr])"""
    if f == "fd":
        if isinstance(val, dict) and all(isinstance(v, str) and v[:1] == "v" and v[1:].isdigit() for v in val.values()):
            return ["canon", {k: int(v[1:]) for k, v in val.items()}]
        return ["other", 0]
    for form in ("canon", "alt"):
        if form == "alt" and KINDOF[f] not in ("setc", "dictc", "call"):
            continue
        for i in (1, 2):
            c = concrete(f, (form, i))
            if type(c) is type(val) and c == val:
                return [form, i]
    return ["other", 0]


def global_config():
    from myst_parser.config.main import MdParserConfig
    return MdParserConfig(**{REAL[f]: concrete(f, ("canon", {"k1": 1}) if f == "fd" else ("canon", 1)) for f in KINDOF})


def run_docs(docs, via_parse=False):
    """replay a sequence of documents (lists of (field, abstract value)) on ONE global object"""
    from myst_parser.config.main import merge_file_level
    G = global_config()
    out = []
    for upd in docs:
        top = {}
        for f, v in upd:
            top[REAL.get(f, "no_such_field")] = concrete(f, tuple(v))
        ws = []
        try:
            new = merge_file_level(G, {"myst": top}, lambda t, m: ws.append(t.value))
        except Exception as e:  # noqa: BLE001
            out.append({"error": f"{type(e).__name__}: {e}"})
            continue
        out.append({"eff": {f: abstract(f, getattr(new, REAL[f])) for f in KINDOF}, "warns": len(ws),
                    "tags": sorted(set(ws)), "G": {f: abstract(f, getattr(G, REAL[f])) for f in KINDOF}})
    return out


# ------------------------------------------------------------------ (b) the table on every real field
def field_table():
    """classify every dataclass field: kind + generated shapes {form: [values]}"""
    from myst_parser.config.main import MdParserConfig
    out = {}
    f5 = _funcs()
    for fld in dc.fields(MdParserConfig):
        n = fld.name
        default = getattr(MdParserConfig(), n)
        shapes = {"canon": [], "alt": [], "bad": []}
        if n in ("enable_extensions",):
            kind = "setc"
            shapes["canon"] = [set(), {"deflist", "tasklist"}]
            shapes["alt"] = [["deflist", "tasklist"], ("colon_fence",)]
            shapes["bad"] = [["nosuch"], 5, None, [1]]
        elif n == "fence_as_directive":
            kind = "setc"
            shapes["canon"] = [set(), {"mermaid"}]
            shapes["alt"] = [["mermaid"], ("dot", "mermaid")]
            shapes["bad"] = [5, None, [1], "mermaid"]
        elif n == "url_schemes":
            kind = "dictc"
            shapes["canon"] = [{"http": None}, {"gh": {"url": "https://g/{{path}}", "title": "t", "classes": ["c"]}}]
            shapes["alt"] = [["http", "ftp"], ("mailto",)]
            shapes["bad"] = [5, None, [1], {1: None}, {"a": 5}, {"a": {"url": 1}}, {"a": {"title": 1}}, "http",
                             {"a": {"url": "x", "classes": "abc"}}, {"a": {"url": "x", "classes": [1]}}, {"a": {"classes": ("c",)}}]
        elif n == "heading_slug_func":
            kind = "call"
            shapes["canon"] = [f5[1]]
            shapes["alt"] = [PATHS[1]]
            shapes["bad"] = [5, ["x"], "no_such_module_zz.func", "os.path.no_such_function", "os.sep", "nodot", "docutils.nodes."]
        elif n in ("html_meta",):
            kind = "dictm"
            shapes["canon"] = [{}, {"a": "b"}]
            shapes["bad"] = [5, None, ["a"], {"a": 1}, {1: "a"}, "x"]
        elif n == "substitutions":
            kind = "dictm"
            shapes["canon"] = [{}, {"a": "b", "c": 1}]
            shapes["bad"] = [5, None, ["a"], {1: "a"}, "x"]
        elif n == "sub_delimiters":
            kind = "list"
            shapes["canon"] = [("{", "}"), ("|", "|")]
            shapes["bad"] = [5, None, ("{",), ("{{", "}}"), (1, 2), "{}"[:1]]
        elif n == "inventories":
            kind = "list"
            shapes["canon"] = [{}, {"k": ("https://x/", None)}, {"k": ["https://x/", "o.inv"]}]
            shapes["bad"] = [5, None, ["a"], {"k": "u"}, {"k": (1, None)}, {"k": ("u", 1)}, {1: ("u", None)}, {"k": ("u",)}]
        elif n == "heading_anchors":
            kind = "int"
            shapes["canon"] = [0, 3, 7]
            shapes["bad"] = ["2", None, 8, -1, [1], 2.5, 0.0, 3.0]
        elif isinstance(default, bool):
            kind = "bool"
            shapes["canon"] = [True, False]
            shapes["bad"] = ["true", None, 1.5, [True], "no", 1, 0, 1.0, 0.0]       # (1 == True, but 1 is not a bool)
        elif isinstance(default, int):
            kind = "int"
            shapes["canon"] = [1, 250]
            shapes["bad"] = ["2", None, [1], 2.5, float(default), 250.0]            # (200.0 == 200, but is not an int)
        elif isinstance(default, str):
            kind = "list"
            shapes["canon"] = ["a|b"]
            shapes["bad"] = [5, None, ["a"]]
        elif n == "ref_domains":
            kind = "list"
            shapes["canon"] = [None, ["py"], []]
            shapes["bad"] = [5, [1], "py", {"a": 1}]
        elif isinstance(default, list):
            kind = "list"
            shapes["canon"] = [[], ["table"]]
            shapes["bad"] = [5, None, [1], "table", {"a": 1}]
        else:
            continue
        out[n] = (kind, shapes, fld)
    return out


def check_table(ctx, table):
    from myst_parser.config.main import MdParserConfig, merge_file_level
    ft = field_table()
    n = 0
    for name, (kind, shapes, fld) in ft.items():
        canon0 = None
        for form in ("canon", "alt", "bad"):
            want = table[kind][form]
            for val in shapes[form]:
                for entry in ("constructor", "copy", "front matter"):
                    n += 1
                    G = MdParserConfig()
                    snap = copy.deepcopy(G.as_dict())
                    ws = []
                    v = copy.deepcopy(val)
                    try:
                        if entry == "constructor":
                            obj = MdParserConfig(**{name: v})
                        elif entry == "copy":
                            obj = G.copy(**{name: v})
                        else:
                            obj = merge_file_level(G, {"myst": {name: v}}, lambda t, m: ws.append(t.value))
                        accepted = not ws
                    except (TypeError, ValueError):
                        accepted, obj = False, None
                    except Exception as e:  # noqa: BLE001
                        ctx.violation(f"{entry}: {name}={val!r} raised {type(e).__name__}: {e}",
                                      {"leg": "R-table", "field": name, "value": repr(val), "entry": entry})
                        continue
                    ctx.count(("table", name, repr(val), entry))
                    case = {"leg": "R-table", "field": name, "value": repr(val), "entry": entry, "kind": kind, "form": form}
                    if accepted != want["accept"]:
                        ctx.violation(f"{entry}: {name}={val!r} ({form} form of the documented type) is "
                                      f"{'accepted' if accepted else 'rejected'}, the documented type says {'accept' if want['accept'] else 'reject'}", case)
                        continue
                    if entry == "front matter" and not accepted:
                        if ws != ["topmatter"]:
                            ctx.violation(f"front matter {name}={val!r}: expected exactly one [myst.topmatter] warning, got {ws}", case)
                        elif obj.as_dict() != snap:
                            ctx.violation(f"front matter {name}={val!r}: invalid value not ignored", case)
                    if G.as_dict() != snap:
                        ctx.violation(f"{entry}: {name}={val!r} modified the global configuration object", case)
                    if accepted and want["stored"] == "canon":
                        got = getattr(obj, name)
                        # the stored form must not depend on the spelling: compare with the constructor on the canonical spelling
                        if form == "canon" and entry == "constructor":
                            pass
                        ref = _canonical_of(name, kind, val)
                        if ref is not None and (type(got) is not type(ref) or got != ref):
                            if not (kind == "dictm" and entry == "front matter"):
                                ctx.violation(f"{entry}: {name}={val!r} stored as {got!r}, canonical form is {ref!r}", case)
    return n


def _canonical_of(name, kind, val):
    if kind == "setc":
        return set(val)
    if kind == "dictc":
        if isinstance(val, (list, tuple)):
            return {v: None for v in val}
        return {k: ({"url": v} if isinstance(v, str) else v) for k, v in val.items()}
    if kind == "call":
        return _funcs()[1]
    if kind in ("bool", "int"):
        return val
    return None


# ------------------------------------------------------------------ (c) effect equivalence
PROBE = """# Title

## Sub heading

Text with a [link](https://example.com), <https://auto.link>, a mailto:x@y.z and [^fn].

term
: definition

- [ ] task
- [x] done

:::{{note}}
colon fence
:::

{{{{ k1 }}}} and ~~strike~~ and $a=1$ "quotes" -- dash

```python
code = 1
```

```mermaid
graph
```

| a | b |
|---|---|
| 1 | 2 |

[^fn]: footnote text

[^unused]: other
"""


def effect_cases():
    """(field, value as YAML text, python value) for fields with local scope"""
    return [
        ("enable_extensions", "[deflist, tasklist, colon_fence, substitution, strikethrough, dollarmath, smartquotes, replacements]",
         ["deflist", "tasklist", "colon_fence", "substitution", "strikethrough", "dollarmath", "smartquotes", "replacements"]),
        ("enable_extensions", "[deflist]", ["deflist"]),
        ("url_schemes", "[http]", ["http"]),
        ("url_schemes", "{https: null, mailto: null}", {"https": None, "mailto": None}),
        ("all_links_external", "true", True),
        ("links_external_new_tab", "true", True),
        ("disable_syntax", "[table, emphasis]", ["table", "emphasis"]),
        ("heading_anchors", "2", 2),
        ("footnote_sort", "false", False),
        ("footnote_transition", "false", False),
        ("fence_as_directive", "[mermaid]", ["mermaid"]),
        ("number_code_blocks", "[python]", ["python"]),
        ("substitutions", "{k1: VALUE}", {"k1": "VALUE"}),
        ("html_meta", "{description: d}", {"description": "d"}),
        ("enable_checkboxes", "true", True),
        ("highlight_code_blocks", "false", False),
        ("title_to_header", "true", True),
        # commonmark_only / gfm_only are not probed: front matter is itself MyST syntax, a strict
        # CommonMark parse of the same file has no front matter to read the setting from
    ]


def check_effect(ctx):
    from docutils import nodes
    from ..frontends import docutils_doctree
    body = PROBE.format()
    base = {"myst_enable_extensions": ["substitution"], "myst_substitutions": {"k0": "zero"}}
    n = 0
    for name, ytxt, val in effect_cases():
        n += 1
        # (the closing fence of a front-matter block may be longer than three dashes and may carry trailing blanks)
        fm = f"---\nmyst:\n  {name}: {ytxt}\n{['---', '----', '---  ', '------'][n % 4]}\n\n"
        pad = "\n" * (fm.count("\n"))         # same line numbers in both documents
        try:
            d1, w1 = docutils_doctree(fm + body, dict(base))
            ov = dict(base)
            gv = val
            if name == "substitutions":
                gv = {**base["myst_substitutions"], **val}
            ov["myst_" + name] = gv
            d2, w2 = docutils_doctree(pad + body, ov)
        except Exception as e:  # noqa: BLE001
            ctx.violation(f"effect equivalence for {name}: rendering raised {type(e).__name__}: {e}",
                          {"leg": "R-effect", "field": name, "front_matter": fm})
            continue
        ctx.count(("effect", name, ytxt))
        p1, p2 = d1.pformat(), d2.pformat()
        t1 = sorted((str(w["tag"]), w["line"] or 0) for w in w1)
        t2 = sorted((str(w["tag"]), w["line"] or 0) for w in w2)
        if p1 != p2 or t1 != t2:
            import difflib
            diff = "\n".join(list(difflib.unified_diff(p2.splitlines(), p1.splitlines(), "global", "front matter", lineterm="", n=1))[:12])
            ctx.violation(f"'{name}: {ytxt}' in front matter does not have the effect of the same global setting:\n{diff}",
                          {"leg": "R-effect", "field": name, "front_matter": fm, "warnings_front_matter": t1, "warnings_global": t2})
    return n


# ------------------------------------------------------------------ docutils option strings
def check_optstrings(ctx):
    from docutils.frontend import OptionParser
    from myst_parser.config.main import MdParserConfig
    from myst_parser.parsers.docutils_ import Parser, create_myst_config
    cases = [("footnote_sort", "no", False), ("footnote_sort", "yes", True), ("footnote_transition", "false", False),
             ("heading_anchors", "3", 3), ("heading_anchors", "0", 0), ("words_per_minute", "100", 100),
             ("enable_extensions", "deflist,tasklist", {"deflist", "tasklist"}), ("disable_syntax", "table,emphasis", ["table", "emphasis"]),
             ("url_schemes", "http,ftp", {"http": None, "ftp": None}), ("url_schemes", "{gh: 'https://g/{{path}}'}", {"gh": "https://g/{{path}}"}),
             ("fence_as_directive", "mermaid", {"mermaid"}), ("number_code_blocks", "python", ["python"]),
             ("substitutions", "{a: b}", {"a": "b"}), ("html_meta", "{a: b}", {"a": "b"}),
             ("highlight_code_blocks", "0", False), ("linkify_fuzzy_links", "off", False), ("dmath_allow_labels", "no", False),
             ("all_links_external", "1", True), ("title_to_header", "true", True), ("enable_checkboxes", "on", True),
             ("suppress_warnings", "myst.header,myst.xref_missing", ["myst.header", "myst.xref_missing"]),
             ("heading_slug_func", PATHS[1], PATHS[1]), ("commonmark_only", "yes", True),
             # white space around the items of a comma-separated value (command line / docutils.conf spelling)
             ("suppress_warnings", "myst.header, myst.xref_missing", ["myst.header", "myst.xref_missing"]),
             ("suppress_warnings", "myst.header,\nmyst.xref_missing\n", ["myst.header", "myst.xref_missing"]),
             ("enable_extensions", "deflist, tasklist", {"deflist", "tasklist"}), ("disable_syntax", "table , emphasis", ["table", "emphasis"]),
             ("url_schemes", "http, ftp", {"http": None, "ftp": None}), ("fence_as_directive", "mermaid, dot", {"mermaid", "dot"}),
             ("number_code_blocks", "python, c", ["python", "c"]),
             # the YAML-dictionary spelling of url_schemes in block style (no braces) and as a multi-line value
             ("url_schemes", "gh: 'https://g/{{path}}'", {"gh": "https://g/{{path}}"}),
             ("url_schemes", "http: null\ngh: 'https://g/{{path}}'\n", {"http": None, "gh": "https://g/{{path}}"})]
    n = 0
    for name, text, val in cases:
        n += 1
        flag = "--myst-" + name.replace("_", "-")
        try:
            settings = OptionParser(components=(Parser,)).parse_args([f"{flag}={text}"])
            got = create_myst_config(settings)
            ref = MdParserConfig(**{name: val})
        except SystemExit:
            ctx.violation(f"docutils option {flag}={text} rejected", {"leg": "R-optstring", "option": flag, "value": text})
            continue
        except Exception as e:  # noqa: BLE001
            ctx.violation(f"docutils option {flag}={text} raised {type(e).__name__}: {e}", {"leg": "R-optstring", "option": flag, "value": text})
            continue
        ctx.count(("optstring", name, text))
        if got.as_dict() != ref.as_dict():
            d = {k: (got.as_dict()[k], ref.as_dict()[k]) for k in ref.as_dict() if got.as_dict()[k] != ref.as_dict()[k]}
            ctx.violation(f"docutils option {flag}={text} gives a different configuration than MdParserConfig({name}={val!r}): {d}",
                          {"leg": "R-optstring", "option": flag, "value": text})
    # option strings that are YAML but not a mapping: rejected like the same value given to the constructor
    for name in ("html_meta", "substitutions", "inventories"):
        for text in ("[]", "0", "0.0", "false", "no", "null", "~", "[a]", "1", "true", "a"):
            n += 1
            flag = "--myst-" + name.replace("_", "-")
            ctx.count(("optstring-bad", name, text))
            try:
                import contextlib, io
                with contextlib.redirect_stderr(io.StringIO()):
                    settings = OptionParser(components=(Parser,)).parse_args([f"{flag}={text}"])
                got = create_myst_config(settings)
            except (SystemExit, Exception):  # noqa: BLE001
                continue
            ctx.violation(f"docutils option {flag}={text} (no mapping) is accepted and stored as {getattr(got, name)!r}; MdParserConfig rejects such a value",
                          {"leg": "R-optstring", "option": flag, "value": text})
    return n



# ------------------------------------------------------------------ the Sphinx render phase (WithRender)
UPD_R = [("fs", ("alt", 2)), ("fs", ("bad", 1)), ("fb", ("canon", 2)), ("fb", ("bad", 1))]
YAML_R = {("fs", ("alt", 2)): "enable_extensions: [colon_fence, tasklist]", ("fs", ("bad", 1)): "enable_extensions: [nosuch_extension]",
          ("fb", ("canon", 2)): "footnote_transition: false", ("fb", ("bad", 1)): 'footnote_transition: "yes"'}
CONF_R = {"myst_enable_extensions": ["deflist"], "myst_footnote_transition": True}
BODY_R = ("Term\n: Definition\n\n:::{note}\ncolon\n:::\n\n- [ ] task\n\n<img src=\"x.png\" alt=\"a\">\n\ntext[^f]\n\n[^f]: note\n")
FIG_R = "```{figure-md} fig-%s\n<img src=\"y.png\" alt=\"b\">\n\ncaption\n```\n\n"


def _defs_r():
    d = _defs()
    d["UpdR"] = "{" + ", ".join(f'<<"{f}", {_tla_val(v)}>>' for f, v in UPD_R) + "}"
    d["KindR"] = '[fs |-> "setc", fb |-> "bool"]'
    return d


def doc_text(doc, tag):
    """doc = {upd: [(f, v)], fm, fig}"""
    head = ""
    if doc["fm"]:
        lines = [YAML_R[(f, tuple(v))] for f, v in doc["upd"]]
        head = "---\n" + ("myst:\n" + "".join(f"  {ln}\n" for ln in lines) if lines else "author: someone\n") + "---\n\n"
    return head + (FIG_R % tag if doc["fig"] else "") + BODY_R


def _proj_doc(tree):
    from docutils import nodes
    ext = set()
    if list(tree.findall(nodes.definition_list)):
        ext.add("deflist")
    if any(isinstance(n, nodes.note) for n in tree.findall(nodes.Admonition)):
        ext.add("colon_fence")
    if any("task-list-item-checkbox" in n.astext() for n in tree.findall(nodes.raw)):
        ext.add("tasklist")
    if any(n.get("uri", "").endswith("x.png") for n in tree.findall(nodes.image)):
        ext.add("html_image")
    fs = {frozenset({"deflist"}): ["canon", 1], frozenset({"colon_fence", "tasklist"}): ["canon", 2],
          frozenset({"deflist", "html_image"}): ["canon", 101], frozenset({"colon_fence", "tasklist", "html_image"}): ["canon", 102]
          }.get(frozenset(ext), ["other", sorted(ext)])
    fb = ["canon", 1] if any("footnotes" in n.get("classes", []) for n in tree.findall(nodes.transition)) else ["canon", 2]
    fig = any(n.get("uri", "").endswith("y.png") for n in tree.findall(nodes.image))
    return {"fs": fs, "fb": fb}, fig


def _proj_G(snap, snap0):
    ext = snap.get("enable_extensions")
    fs = {("deflist",): ["canon", 1], ("deflist", "html_image"): ["canon", 101]}.get(tuple(ext) if isinstance(ext, list) else None, ["other", repr(ext)])
    rest = all(snap[k] == snap0[k] for k in snap0 if k != "enable_extensions")
    return {"fs": fs, "fb": ["canon", 1] if snap.get("footnote_transition") == "True" else ["other", snap.get("footnote_transition")], "rest": rest}


def _build_r(args):
    """one Sphinx project holding several behaviours back to back (the global object is shared by all of them)"""
    from pathlib import Path
    from .. import sphinx_runner as sr
    wd, batch = args                  # batch: [(bid, [doc, ...])]
    docs, order = {}, []
    for bid, seq in batch:
        for k, d in enumerate(seq):
            name = f"b{bid:05d}x{k}"
            docs[name] = doc_text(d, f"{bid}-{k}")
            order.append((bid, k, name))
    files = {f"{n}.md": t for n, t in docs.items()}
    files["zindex.md"] = "# Index\n\n```{toctree}\n:hidden:\n\n" + "\n".join(sorted(docs)) + "\n```\n"
    r = sr.run_project(Path(wd), files, {**CONF_R, "master_doc": "zindex"}, conf_extra=sr.SNAP_CONFIG)
    if not r["ok"] or not r.get("data"):
        return {"error": r["error"] or "no configuration snapshots recorded", "batch": [b for b, _ in batch]}
    snaps = r["data"]                  # [[docname, snapshot before that document], ..., ["<end>", snapshot]]
    names = [s[0] for s in snaps]
    snap0 = snaps[0][1]
    out = {}
    for bid, k, name in order:
        i = names.index(name)
        before, after = snaps[i][1], snaps[i + 1][1]
        tree = r["doctrees"].get(name)
        eff, fig = _proj_doc(tree)
        nw = sum(1 for w in r["warnings"] if w["tag"] == "myst.topmatter" and w["src"] and name in w["src"])
        out.setdefault(bid, []).append({"eff": eff, "figure": fig, "warns": nw, "G": _proj_G(after, snap0),
                                        "G_before": _proj_G(before, snap0)})
    import shutil
    shutil.rmtree(wd, ignore_errors=True)
    return {"out": out}


def run_render(ctx, seqs, leg):
    """seqs: {bid: [doc]} -> {bid: [observation per doc]}; a behaviour that started from an already modified global
    object (an earlier behaviour of the same project leaked) is rebuilt on its own"""
    from ..pool import pmap
    ids = sorted(seqs)
    B = 25
    batches = [(str(ctx.wd / f"sx_{leg}_{i}"), [(b, seqs[b]) for b in ids[i:i + B]]) for i in range(0, len(ids), B)]
    res = {}
    redo = []
    for (wd, batch), r in zip(batches, pmap(_build_r, batches, chunksize=1)):
        if "error" in r:
            redo += [b for b, _ in batch]
            continue
        for b, obs in r["out"].items():
            g0 = obs[0]["G_before"]
            if g0["fs"] != ["canon", 1] or g0["fb"] != ["canon", 1] or not g0["rest"]:
                redo.append(b)
            else:
                res[b] = obs
    singles = [(str(ctx.wd / f"sx_{leg}_s{b}"), [(b, seqs[b])]) for b in redo]
    for (wd, batch), r in zip(singles, pmap(_build_r, singles, chunksize=1)):
        b = batch[0][0]
        res[b] = {"error": r["error"]} if "error" in r else r["out"][b]
    return res


def run(ctx):
    quick = ctx.tier == "quick"
    rnd = random.Random(ctx.seed + 13)
    ctx.rule = ("R: every sequence of 2 documents x <= 2 front-matter entries over the 13-entry vocabulary; the acceptance table on every "
                "dataclass field x generated shapes x 3 entry points; 17 effect-equivalence cases; 23 docutils option strings. "
                "V: random sequences of 3-6 documents. non-trivial = at least one accepted override")
    ctx.assumptions += ["value shapes follow the documented type (doc_type metadata / annotation); debatable shapes are not generated"]
    consts = {"KindOf": "<-KindV", "Updates": "<-UpdV", "MaxDocs": 2, "MaxUpd": 2, "DevAssignRaw": False, "DevValidateOnGlobal": False,
              "WithRender": False, "DevShallowCopy": False}
    invs = ["GlobalImmutable", "EffectRule", "Normalised", "NoLeak"]
    r = tlc.run("Config", tlc.cfg(ctx, "cf_mc.cfg", consts, invariants=invs + ["Emit", "TableOut"], properties=["GlobalNeverWritten"]),
                wd=ctx.wd, timeout=3000, defs=_defs())
    tlc.expect_holds(r, "Config M |= S")
    ctx.add_tlc("Config_mc", r, "2 documents x <= 2 entries over 13 updates")
    rc = tlc.run("Config", tlc.cfg(ctx, "cf_cov.cfg", {**consts, "MaxDocs": 1}, invariants=invs), wd=ctx.wd, coverage=True, defs=_defs())
    for act in ("ValidateUpdate", "Assign", "Normalise", "EndMerge"):
        if rc.coverage.get(act, (0, 0))[0] == 0:
            raise tlc.MachineryFailure(f"Config: action {act} never taken (vacuous)")
    ctx.add_tlc("Config_cov", rc)
    for dev, inv in (("DevAssignRaw", "Normalised"), ("DevValidateOnGlobal", "GlobalImmutable")):
        rd = tlc.run("Config", tlc.cfg(ctx, f"cf_{dev}.cfg", {**consts, dev: True, "MaxDocs": 1, "MaxUpd": 1}, invariants=[inv]), wd=ctx.wd, defs=_defs())
        tlc.expect_violation(rd, inv, f"Config {dev}")
        ctx.add_tlc(f"Config_{dev}", rd, "expected counterexample found")
    table = None
    hists = []
    for rec in r.records:
        if "table" in rec:
            table = rec["table"]
        else:
            hists.append(rec["hist"])
    if table is None:
        raise tlc.MachineryFailure("Config: table not exported")

    # ---- R (a): behaviours on real fields ------------------------------------------------------
    skipped = 0
    for hist in hists:
        docs = [[(u[0], (u[1][0], u[1][1] if not isinstance(u[1][1], list) else None)) for u in d["upd"]] for d in hist]
        if any(len({f for f, _ in d}) != len(d) for d in docs):
            skipped += 1            # the same key twice cannot be written in one YAML mapping
            continue
        outs = run_docs(docs)
        ctx.count(repr(docs), nontrivial=any(d for d in docs))
        ctx.traces_validated += 1
        for n, (d, o) in enumerate(zip(hist, outs)):
            case = {"leg": "R", "documents": [[(REAL.get(f, "no_such_field"), repr(concrete(f, v))) for f, v in dd] for dd in docs], "document": n + 1}
            if "error" in o:
                ctx.violation(f"merge_file_level raised {o['error']}", case)
                break
            exp_eff = {f: list(d["eff"][f]) if not isinstance(d["eff"][f][1], dict) else [d["eff"][f][0], d["eff"][f][1]] for f in KINDOF}
            if o["eff"] != exp_eff:
                bad = {REAL[f]: (o["eff"][f], exp_eff[f]) for f in KINDOF if o["eff"][f] != exp_eff[f]}
                ctx.violation(f"effective configuration of document {n + 1} differs (observed, expected as [form, value id]): {bad}", case)
                break
            if o["warns"] != d["warns"] or (o["warns"] and o["tags"] != ["topmatter"]):
                ctx.violation(f"document {n + 1}: expected {d['warns']} [myst.topmatter] warning(s), observed {o['warns']} {o['tags']}", case)
                break
            if any(o["G"][f] != (["canon", {"k1": 1}] if f == "fd" else ["canon", 1]) for f in KINDOF):
                ctx.violation(f"the global configuration was modified by parsing document {n + 1}: {o['G']}", case)
                break
    ctx.leg("R", behaviours=len(hists), same_key_twice_skipped=skipped)
    ctx.sample({"documents": [[(REAL.get(u[0], u[0]), u[1]) for u in d["upd"]] for d in hists[len(hists) // 2]],
                "expected_effective": hists[len(hists) // 2][-1]["eff"]})
    # ---- R (b), (c), option strings ------------------------------------------------------------
    nt = check_table(ctx, table)
    ne = check_effect(ctx)
    no = check_optstrings(ctx)
    ctx.leg("R-table", executions=nt, fields=len(field_table()))
    ctx.leg("R-effect", cases=ne)
    ctx.leg("R-optstring", cases=no)

    # ---- V ----------------------------------------------------------------------------------
    traces = []
    for t in range(200 if quick else 4000):
        docs = []
        for _ in range(rnd.randint(3, 6)):
            k = rnd.randint(0, 4)
            fs = rnd.sample(list(KINDOF) + ["zz"], min(k, 7))
            upd = []
            for f in fs:
                if f == "zz":
                    v = ("canon", 1)
                elif f == "fd":
                    v = rnd.choice([("canon", {"k2": 2}), ("canon", {"k1": 2}), ("canon", {"k1": 2, "k2": 1}), ("bad", None)])
                else:
                    forms = ["canon", "bad"] + (["alt"] if KINDOF[f] in ("setc", "dictc", "call") else [])
                    v = (rnd.choice(forms), rnd.choice([1, 2]))
                upd.append((f, v))
            docs.append(upd)
        outs = run_docs(docs)
        if any("error" in o for o in outs):
            e = next(o["error"] for o in outs if "error" in o)
            ctx.violation(f"merge_file_level raised {e}", {"leg": "V", "documents": repr(docs)})
            continue
        ctx.count(("v", t))
        traces.append({"id": t, "docs": [{"upd": [[f, [v[0], v[1] if v[1] is not None else []]] for f, v in d],
                                          "eff": o["eff"], "warns": o["warns"], "G": o["G"]} for d, o in zip(docs, outs)], "_docs": docs})
    tf = ctx.wd / "cf_traces.ndjson"
    tlc.write_ndjson(tf, [{k: v for k, v in t.items() if k != "_docs"} for t in traces])
    rv = tlc.run("ConfigTrace", tlc.cfg(ctx, "cf_trace.cfg", {**consts, "MaxDocs": 100, "MaxUpd": 0}, spec="TraceSpec",
                                        invariants=["Verdict", "GlobalImmutable", "EffectRule", "Normalised", "NoLeak"]),
                 wd=ctx.wd, env={"TRACE_FILE": str(tf)}, timeout=3000, defs=_defs())
    tlc.expect_holds(rv, "ConfigTrace: S on the traced runs")
    ctx.add_tlc("ConfigTrace", rv)
    rv.records = [x for x in rv.records if "id" in x]      # (the constant TableOut is printed once at start-up)
    if len(rv.records) != len(traces):
        raise tlc.MachineryFailure(f"ConfigTrace: {len(rv.records)} verdicts for {len(traces)} traces")
    byid = {t["id"]: t for t in traces}
    for v in rv.records:
        ctx.traces_validated += 1
        for n, s in enumerate(v["seen"]):
            if not (s["eff"] and s["warns"] and s["global"]):
                what = [k for k in ("eff", "warns", "global") if not s[k]]
                t = byid[v["id"]]
                ctx.violation(f"recorded sequence is not a behaviour of the config model: document {n + 1}: {what} differ "
                              f"(eff = effective configuration, global = the shared object after the parse)",
                              {"leg": "V", "documents": [[(REAL.get(f, "no_such_field"), repr(concrete(f, vv))) for f, vv in d] for d in t["_docs"]],
                               "observed": t["docs"][n]})
                break
    ctx.leg("V", traces=len(traces))

    # ---- the Sphinx render phase: object identity of the configuration -------------------------
    rconsts = {"KindOf": "<-KindR", "Updates": "<-UpdR", "MaxDocs": 2 if quick else 3, "MaxUpd": 1, "DevAssignRaw": False,
               "DevValidateOnGlobal": False, "WithRender": True, "DevShallowCopy": False}
    rr = tlc.run("Config", tlc.cfg(ctx, "cf_render.cfg", rconsts, invariants=invs + ["Emit"], properties=["GlobalNeverWritten"]),
                 wd=ctx.wd, timeout=3000, defs=_defs_r())
    tlc.expect_holds(rr, "Config (render phase) M |= S")
    ctx.add_tlc("Config_render", rr, f"{rconsts['MaxDocs']} documents x (front matter with <= 1 entry | none) x figure-md or not")
    rcv = tlc.run("Config", tlc.cfg(ctx, "cf_render_cov.cfg", {**rconsts, "MaxDocs": 1}, invariants=invs), wd=ctx.wd, coverage=True, defs=_defs_r())
    for act in ("FigAdd", "FigRestore", "EndRender", "EndMerge"):
        if rcv.coverage.get(act, (0, 0))[0] == 0:
            raise tlc.MachineryFailure(f"Config (render): action {act} never taken (vacuous)")
    ctx.add_tlc("Config_render_cov", rcv)
    rd = tlc.run("Config", tlc.cfg(ctx, "cf_DevShallowCopy.cfg", {**rconsts, "DevShallowCopy": True, "MaxDocs": 1}, invariants=["GlobalImmutable"]),
                 wd=ctx.wd, defs=_defs_r())
    tlc.expect_violation(rd, "GlobalImmutable", "Config DevShallowCopy")
    ctx.add_tlc("Config_DevShallowCopy", rd, "expected counterexample found")
    rh = [rec["hist"] for rec in rr.records if "hist" in rec]
    seqs = {n: [{"upd": [(u[0], (u[1][0], u[1][1])) for u in d["upd"]], "fm": d["fm"], "fig": d["fig"]} for d in h] for n, h in enumerate(rh)}
    robs = run_render(ctx, seqs, "r")
    for n, h in enumerate(rh):
        obs = robs.get(n)
        case = {"leg": "R-render", "documents": [doc_text(d, f"{n}-{k}") for k, d in enumerate(seqs[n])], "conf": CONF_R}
        if obs is None or isinstance(obs, dict):
            ctx.violation(f"Sphinx build of a generated project failed: {(obs or {}).get('error')}", case)
            continue
        ctx.count(("render", repr(seqs[n])), nontrivial=any(d["fig"] for d in seqs[n]))
        ctx.traces_validated += 1
        for k, (d, o) in enumerate(zip(h, obs)):
            exp = {"fs": list(d["eff"]["fs"]), "fb": list(d["eff"]["fb"])}
            if o["G"]["fs"] != ["canon", 1] or o["G"]["fb"] != ["canon", 1] or not o["G"]["rest"]:
                ctx.violation(f"the global configuration was modified by reading document {k + 1} "
                              f"(front matter: {d['fm']}, figure-md: {d['fig']}): enable_extensions is now {o['G']['fs']}", case)
                break
            if o["eff"] != exp:
                ctx.violation(f"document {k + 1}: effective configuration seen through its rendering differs: expected {exp}, observed {o['eff']} "
                              f"([form, value id]; 1 = the global value, 2 = the front-matter value, +100 = html_image on)", case)
                break
            if o["warns"] != d["warns"]:
                ctx.violation(f"document {k + 1}: expected {d['warns']} [myst.topmatter] warning(s), observed {o['warns']}", case)
                break
            if o["figure"] != d["fig"]:
                ctx.violation(f"document {k + 1}: figure-md body {'not ' if d['fig'] else ''}rendered as an image", case)
                break
    ctx.leg("R-render", behaviours=len(rh))
    # V: longer random sequences through Sphinx, validated by ConfigTrace (WithRender)
    vseqs = {}
    for t in range(40 if quick else 600):
        seq = []
        for _ in range(rnd.randint(3, 7)):
            fm = rnd.random() < 0.6
            upd = [rnd.choice(UPD_R)] if fm and rnd.random() < 0.7 else []
            if fm and len(upd) == 1 and rnd.random() < 0.3:
                u2 = rnd.choice(UPD_R)
                if u2[0] != upd[0][0]:
                    upd.append(u2)
            seq.append({"upd": upd, "fm": fm, "fig": rnd.random() < 0.4})
        vseqs[t] = seq
    vobs = run_render(ctx, vseqs, "v")
    rtraces = []
    for t, seq in vseqs.items():
        obs = vobs.get(t)
        if obs is None or isinstance(obs, dict):
            ctx.violation(f"Sphinx build of a generated project failed: {(obs or {}).get('error')}",
                          {"leg": "V-render", "documents": [doc_text(d, f"{t}-{k}") for k, d in enumerate(seq)]})
            continue
        ctx.count(("vrender", t))
        rtraces.append({"id": t, "docs": [{"upd": [[f, [v[0], v[1]]] for f, v in d["upd"]], "fm": d["fm"], "fig": d["fig"], "obs": ["fs", "fb"],
                                           "eff": o["eff"], "warns": o["warns"],
                                           "G": {"fs": o["G"]["fs"] if o["G"]["rest"] else ["other", 0], "fb": o["G"]["fb"]}} for d, o in zip(seq, obs)]})
    tfr = ctx.wd / "cf_rtraces.ndjson"
    tlc.write_ndjson(tfr, rtraces)
    rvr = tlc.run("ConfigTrace", tlc.cfg(ctx, "cf_rtrace.cfg", {**rconsts, "MaxDocs": 100, "MaxUpd": 0}, spec="TraceSpec",
                                         invariants=["Verdict", "GlobalImmutable", "EffectRule", "Normalised", "NoLeak"]),
                  wd=ctx.wd, env={"TRACE_FILE": str(tfr)}, timeout=3000, defs=_defs_r())
    tlc.expect_holds(rvr, "ConfigTrace (render): S on the traced runs")
    ctx.add_tlc("ConfigTrace_render", rvr)
    rvr.records = [x for x in rvr.records if "id" in x]
    if len(rvr.records) != len(rtraces):
        raise tlc.MachineryFailure(f"ConfigTrace (render): {len(rvr.records)} verdicts for {len(rtraces)} traces")
    for v in rvr.records:
        ctx.traces_validated += 1
        for n, sn in enumerate(v["seen"]):
            if not (sn["eff"] and sn["warns"] and sn["global"]):
                what = [k for k in ("eff", "warns", "global") if not sn[k]]
                ctx.violation(f"recorded Sphinx build is not a behaviour of the config model: document {n + 1}: {what} differ "
                              f"(eff = effective configuration seen through the rendering, global = env.myst_config after the document)",
                              {"leg": "V-render", "documents": [doc_text(d, f"{v['id']}-{k}") for k, d in enumerate(vseqs[v["id"]])],
                               "observed": [t for t in rtraces if t["id"] == v["id"]][0]["docs"][n]})
                break
    ctx.leg("V-render", traces=len(rtraces))
    ctx.exhaustive = True


def replay(case) -> int:
    import json
    print(json.dumps(case, indent=1, default=str)[:4000])
    return 1
