"""C10 -- heading anchors follow the GitHub slug rule, are unique, match myst-anchors.

T  Anchors.tla: compute_unique_slug's loop over the insertion-ordered slugs (M) |= the
   declarative rule "b if free else b-k for the least free k" (SlugRule), SlugsUnique,
   DepthRule, SelfResolve, SlugWarnings, for every document within the bound, all depths,
   default / custom / failing slug function; Dev_CompoundSuffix regression.
R  every behaviour -> Markdown -> (i) section['slug'] in the doctree, (ii) the ids printed by
   myst-anchors for the same text and depth, (iii) refid of '[..](#slug)' links.
V  random Unicode / punctuation / inline-markup titles (title text taken from markdown-it's
   token stream), validated by AnchorsTrace; CLI output compared with the same expected slugs.
"""
from __future__ import annotations

import random

from .. import anchors as A
from .. import tlc
from ..frontends import c2s, s2c
from ..pool import pmap

META = {
    "level": "model_checking",
    "text": "TLC checks the slug-assignment model (slugify by character class, the uniqueness loop over the insertion-ordered slug list, the depth limit, custom and failing slug functions) against the declarative GitHub rule for every document within the bound; every behaviour is replayed through the docutils renderer and the myst-anchors CLI, and random Unicode/markup titles are validated as traces by TLC.",
    "note": "Bound: documents <= 3 (quick) / 4 items over 5 headings + 3 targets, and title sequences <= 5 / 6 over {a, a-1, a-1-1, a-2}; depths 0,1,2,7. Slugify is modelled for ASCII, Latin-1, CJK and a few listed letters; V titles use only classified characters. markdown-it's inline tokenisation of titles is trusted (titles are read from its token stream).",
    "technique": "TLA+ spec + TLC exhaustive check; spec-behaviour replay into the code; TLC batch trace validation",
    "specs": ["Anchors", "AnchorsTrace"],
}


def run(ctx):
    quick = ctx.tier == "quick"
    ctx.rule = ("R: every document within the bound x depth x slug function (expected slugs and link owners exported by TLC). "
                "V: random documents of 1-9 items with Unicode/markup titles. non-trivial = at least two anchored headings")
    ctx.assumptions += ["docutils front end; headings at document level", "title text = text + code_inline children of markdown-it's inline token"]
    recs = A.t_leg(ctx, quick, focus="C10")
    for rec in recs:
        rec["cli"] = True
    outs = pmap(A.replay_case, recs, chunksize=64)
    for rec, o in zip(recs, outs):
        key = (repr(rec["items"]), rec["depth"], rec["slug_func"])
        ctx.count(key, nontrivial=len(rec["slugs"]) >= 2)
        ctx.traces_validated += 1
        if "error" in o:
            ctx.violation(f"rendering raised {o['error']}", {"leg": "R", "markdown": o["text"], "depth": rec["depth"], "slug_func": rec["slug_func"]})
            continue
        case = {"leg": "R", "markdown": o["text"], "depth": rec["depth"], "slug_func": rec["slug_func"]}
        exp = [[list(s), i] for s, i in rec["slugs"]]
        if o["slugs"] != exp:
            ctx.violation(f"heading anchors differ: expected {[(c2s(s), i) for s, i in exp]}, observed {[(c2s(s), i) for s, i in o['slugs']]} (slug, item index)",
                          {**case, "expected": [(c2s(s), i) for s, i in exp], "observed": [(c2s(s), i) for s, i in o["slugs"]]})
            continue
        if o["nwarn"] != rec["nwarn"]:
            ctx.violation(f"[myst.heading_slug] warnings: expected {rec['nwarn']}, observed {o['nwarn']}", case)
            continue
        if rec["slug_func"] == "default" and o.get("cli") is not None and o["cli"] != [c2s(s) for s, _ in exp]:
            ctx.violation(f"myst-anchors prints {o['cli']}, rendering assigned {[c2s(s) for s, _ in exp]}", {**case, "cli": o["cli"]})
            continue
        # every anchor resolves to its own heading (links of the fixed block that name a slug)
        links = rec.get("links") or A.LINKS
        for l, (name, form) in enumerate(links):
            if l < len(o["res"]) and rec["res"][l][0] == "slug" and o["res"][l] != list(rec["res"][l]):
                ctx.violation(f"'#{name}' should resolve to heading item {rec['res'][l][1]}, observed {o['res'][l]}", case)
                break
    mid = recs[len(recs) // 2]
    ctx.sample({"items": A.items_str(mid["items"]), "depth": mid["depth"], "expected_slugs": [(c2s(s), i) for s, i in mid["slugs"]]})
    ctx.leg("R", behaviours=len(recs))

    # ---- V ----------------------------------------------------------------------------------
    rnd = random.Random(ctx.seed + 10)
    cases = [A.random_case(rnd, t) for t in range(250 if quick else 5000)]
    vouts = pmap(A.v_case, cases, chunksize=16)
    traces, keep = [], {}
    for c, o in zip(cases, vouts):
        if o.get("miss"):
            ctx.gen_miss += 1
            continue
        if "error" in o:
            ctx.violation(f"rendering raised {o['error']}", {"leg": "V", "markdown": o["text"], "depth": c["depth"]})
            continue
        if not all(A.classified(it[1]) for it in o["aitems"]) or not all(A.classified(n) for n, _ in o["links"]):
            ctx.gen_miss += 1
            continue
        ctx.count(("v", c["id"]))
        keep[c["id"]] = (c, o)
        traces.append({"id": c["id"], "items": [[it[0], s2c(it[1])] + it[2:] for it in o["aitems"]], "depth": c["depth"],
                       "links": [[s2c(n), f] for n, f in o["links"]],
                       "obs": {"slugs": o["slugs"], "res": [r if r[0] in ("explicit", "slug", "missing") else ["other"] for r in o["res"]],
                               "nwarn": o["nwarn"]}})
    tf = ctx.wd / "an_traces.ndjson"
    tlc.write_ndjson(tf, traces)
    rv = tlc.run("AnchorsTrace", tlc.cfg(ctx, "an_trace.cfg", A.consts(0, [0]), spec="TraceSpec", invariants=["Verdict"] + A.INVS),
                 wd=ctx.wd, env={"TRACE_FILE": str(tf)}, timeout=3000, defs=A.defs())
    tlc.expect_holds(rv, "AnchorsTrace: S on the traced runs")
    ctx.add_tlc("AnchorsTrace", rv)
    if len(rv.records) != len(traces):
        raise tlc.MachineryFailure(f"AnchorsTrace: {len(rv.records)} verdicts for {len(traces)} traces")
    suspects = []
    for v in rv.records:
        c, o = keep[v["id"]]
        ctx.traces_validated += 1
        case = {"leg": "V", "markdown": o["text"], "depth": c["depth"]}
        exp = [c2s(s) for s, _ in v["exp_slugs"]]
        edge = any(it[0] == "h" and it[1] != it[1].strip() for it in o["aitems"])
        if not v["slugs"] or not v["nwarn"]:
            if edge:
                suspects.append(v["id"])        # decided below by the Dev_NoStrip model
            else:
                ctx.violation(f"heading anchors differ: expected {exp}, observed {[c2s(s) for s, _ in o['slugs']]}", case)
        elif o.get("cli") is not None and o["cli"] != exp:
            ctx.violation(f"myst-anchors prints {o['cli']}, rendering assigned {exp}", {**case, "cli": o["cli"]})
    if suspects:
        # known finding C10-slug-strip: the observation must be exactly what the model with
        # Dev_NoStrip predicts, and myst-anchors must print the intended (stripped) anchors
        tf2 = ctx.wd / "an_traces_dev.ndjson"
        tlc.write_ndjson(tf2, [t for t in traces if t["id"] in set(suspects)])
        rv2 = tlc.run("AnchorsTrace", tlc.cfg(ctx, "an_trace_dev.cfg", A.consts(0, [0], dev_nostrip=True), spec="TraceSpec", invariants=["Verdict"]),
                      wd=ctx.wd, env={"TRACE_FILE": str(tf2)}, timeout=3000, defs=A.defs())
        ctx.add_tlc("AnchorsTrace_dev_nostrip", rv2, "traces whose titles start/end with white space, against the as-built model")
        intended = {v["id"]: [c2s(s) for s, _ in v["exp_slugs"]] for v in rv.records}
        for v in rv2.records:
            c, o = keep[v["id"]]
            case = {"leg": "V", "markdown": o["text"], "depth": c["depth"]}
            if v["slugs"] and v["nwarn"] and (o.get("cli") is None or o["cli"] == intended[v["id"]]):
                ctx.violation("rendered anchors differ from myst-anchors for a title with leading/trailing white space", case, finding="C10-slug-strip")
            else:
                ctx.violation(f"heading anchors differ: expected {intended[v['id']]}, observed {[c2s(s) for s, _ in o['slugs']]}, myst-anchors {o.get('cli')}", case)
    ctx.leg("V", traces=len(traces))
    ctx.exhaustive = True


def replay(case) -> int:
    c = case.get("case", case)
    print(c.get("markdown"))
    print("clause:", case.get("clause"))
    return 1
