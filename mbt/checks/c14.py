"""C14 -- warnings: closed typed catalogue; suppression has no side effects.

T  Warnings.tla with Catalogue and Sites EXTRACTED from the working tree (enum values; AST
   scan of every create_warning / log_warning / logger.warning / ParseWarnings / callback
   call): SitesTyped, NoUntyped; the suppression loop (M) |= the documented matching
   relation (LoopCorrect) for every tag x suppress list within the bound; suppression as a
   self-composition over sequences of emitting render actions (NoSideEffects); Dev
   regressions (break-on-other-type, fallback text, footnote transition).
R  every (tag, suppress list) behaviour replayed through warnings_.create_warning on a
   docutils document and on a document carrying a Sphinx environment; a trigger library
   (one document per reachable catalogue tag) rendered with and without suppress lists.
V  random concatenations of trigger documents x random suppress lists; both runs recorded as
   item sequences and validated by WarningsTrace (relation + catalogue membership).
"""
from __future__ import annotations

import random
import types

from .. import sites, tlc
from ..pool import pmap

META = {
    "level": "model_checking",
    "text": "TLC checks, on constants extracted from the working tree (warning catalogue and every warning call site), that every statically typed MyST warning site uses a catalogue tag and none logs untyped; it checks the suppression loop against the documented matching relation for every tag x suppress list within the bound and the no-side-effect relation as a self-composition; behaviours are replayed through create_warning in both front-end branches, a trigger library is rendered with and without suppress lists, and random combinations are validated as trace pairs by TLC.",
    "note": "Bound: suppress lists <= 3 over 9 entries (exact, bare type, type.*, other types, dotted subtype) x 4 tags; action sequences <= 2. The AST scan is a static extraction feeding the spec (call sites whose subtype is a run-time value are forwarders and are covered by the run-time legs). Trigger documents exist for 19 catalogue tags under docutils; xref_ambiguous / iref_ambiguous / domains / render need a Sphinx project or an unsupported token and are covered only statically.",
    "technique": "TLA+ spec + TLC exhaustive check on constants extracted from the source; spec-behaviour replay into the code; TLC batch trace validation",
    "specs": ["Warnings", "WarningsTrace"],
}

TAGS = [("myst", "header"), ("myst", "xref_missing"), ("ref", "footnote"), ("myst", "topmatter")]
ENTRIES = [("myst", ""), ("myst", "header"), ("myst", "*"), ("myst", "xref_missing"), ("ref", "footnote"), ("ref", ""),
           ("epub", "unknown_project_files"), ("myst", "header.x"), ("docutils", "")]


def boom(t):
    raise ValueError("no slug")


def trigger_library():
    return {
        "header": ("## H2 first\n", {}, ("myst", "header")),
        "role_in_heading": ("# T {nosuchrole}`x` end\n\ntext\n", {}, ("myst", "role_unknown")),
        "strike_in_heading": ("## S ~~gone~~\n\ntext\n", {"myst_enable_extensions": ["strikethrough"]}, ("myst", "strikethrough")),
        # the warning node sits inside nested inline markup of the title
        "strike_nested_heading": ("# T *~~a~~* b\n\ntext\n", {"myst_enable_extensions": ["strikethrough"]}, ("myst", "strikethrough")),
        "role_nested_heading": ("# T **{nosuchrole}`x`** end\n\ntext\n", {}, ("myst", "role_unknown")),
        # a suppress list written in the document's front matter: the global list keeps deciding
        "fm_suppress_list": ("---\nmyst:\n  suppress_warnings: ['myst.strikethrough']\n---\n\n## H2 first\n\n~~x~~ text\n",
                             {"myst_enable_extensions": ["strikethrough"]}, ("myst", "header")),
        "fm_suppress_empty": ("---\nmyst:\n  suppress_warnings: []\n---\n\n# A\n\n### C\n", {}, ("myst", "header")),
        "header_text": ("## H2 first\n\ntext below\n", {}, ("myst", "header")),
        "header_jump": ("# A\n\n### B\n\ntext\n", {}, ("myst", "header")),
        "header_jump2": ("# A\n\n## B\n\n#### C\n\n## D\n", {}, ("myst", "header")),
        "topmatter": ("---\nmyst: 1\n---\n\ntext\n", {}, ("myst", "topmatter")),
        "topmatter_field": ("---\nmyst:\n  nosuch: 1\n---\n\ntext\n", {}, ("myst", "topmatter")),
        # a file-level configuration problem in a document whose body is one section (docutils promotes it to the title)
        "topmatter_h1": ("---\nmyst:\n  nosuch: 1\n---\n\n# Only title\n\ntext\n", {}, ("myst", "topmatter")),
        "duplicate_def": ("[a]: http://b.c\n[a]: http://c.d\n\n[a]\n", {}, ("myst", "duplicate_def")),
        "directive_unknown": ("```{nosuchdir}\nbody\n```\n", {}, ("myst", "directive_unknown")),
        "role_unknown": ("{nosuchrole}`x`\n", {}, ("myst", "role_unknown")),
        "directive_parse": ("```{note} first\n:class: a\n\nbody\n```\n", {}, ("myst", "directive_parse")),
        "directive_option": ("```{note}\n:nosuch: 1\n\nbody\n```\n", {}, ("myst", "directive_option")),
        "directive_comments": ("```{note}\n:class: a # c\n\nbody\n```\n", {}, ("myst", "directive_comments")),
        "xref_missing": ("[a](#nosuch)\n", {}, ("myst", "xref_missing")),
        "xref_missing_empty": ("[](#nosuch)\n", {}, ("myst", "xref_missing")),
        "heading_slug": ("# T\n", {"myst_heading_anchors": 2, "myst_heading_slug_func": boom}, ("myst", "heading_slug")),
        "strikethrough": ("~~a~~\n", {"myst_enable_extensions": ["strikethrough"]}, ("myst", "strikethrough")),
        "html": ("<div class=\"admonition\">\n<![<\n</div>\n", {"myst_enable_extensions": ["html_admonition"]}, ("myst", "html")),
        "attribute": ("![a](b.png){width=1zz}\n", {"myst_enable_extensions": ["attrs_inline"]}, ("myst", "attribute")),
        "attribute_code": ("```python\n:emphasize-lines: 9\na = 1\n```\n", {}, ("myst", "attribute")),
        "substitution": ("{{ nosuch }}\n", {"myst_enable_extensions": ["substitution"]}, ("myst", "substitution")),
        "deprecated": ("text\n", {"myst_enable_extensions": ["attrs_image"]}, ("myst", "deprecated")),
        "not_supported": ("<project:x.md>\n", {}, ("myst", "not_supported")),
        "inv_retrieval": ("<inv:k#x>\n", {"myst_inventories": {"k": ["https://x/", "/nonexistent/o.inv"]}}, ("myst", "inv_retrieval")),
        "footnote_dup": ("[^a]: x\n\n[^a]: y\n\nsee [^a]\n", {}, ("ref", "footnote")),
        "footnote_dup_only": ("[^a]: x\n\n[^a]: y\n", {}, ("ref", "footnote")),
        "footnote_unref": ("text\n\n[^a]: x\n", {}, ("ref", "footnote")),
    }


def entry_str(e):
    return e[0] + ("." + e[1] if e[1] else "")


XFORMS = {"doctitle_xform": True, "sectsubtitle_xform": True}


def render_items(text, overrides, suppress):
    """render with docutils -> item sequence [kind, payload] (document order, then log lines)"""
    import re
    from docutils import nodes
    from ..frontends import docutils_doctree
    ov = dict(overrides)
    ov["myst_suppress_warnings"] = [entry_str(e) for e in suppress]
    doc, warns = docutils_doctree(text, ov)
    return items_of(doc, warns)


def items_of(doc, warns):
    import re
    from docutils import nodes
    items = []
    tagre = re.compile(r"\[([\w]+)\.([\w.\-*]+)\]\s*$")
    for n in doc.findall():
        if isinstance(n, nodes.Text):
            if any(isinstance(a, nodes.system_message) for a in _anc(n)):
                continue
            items.append(["node", "T:" + str(n)])
        elif isinstance(n, nodes.system_message):
            if any(isinstance(a, nodes.system_message) for a in _anc(n)):
                continue
            m = tagre.search(n.astext())
            items.append(["warn", [m.group(1), m.group(2)]] if m else ["node", "system_message:" + n.astext()[:60]])
        elif isinstance(n, nodes.Element):
            if any(isinstance(a, nodes.system_message) for a in _anc(n)):
                continue
            at = {k: v for k, v in n.attributes.items() if v not in ([], "", None) and k not in ("source", "line", "backrefs")}
            items.append(["node", n.tagname + repr(sorted(at.items(), key=lambda kv: kv[0]))])
    logs = sorted([w["tag"].split(".", 1) for w in warns if w["tag"]])
    untagged = [w["msg"][:50] for w in warns if not w["tag"] and w["level"] == "WARNING"]
    return items + [["log", t] for t in logs], untagged


def _anc(n):
    p = n.parent
    while p is not None:
        yield p
        p = p.parent


def check_option_strings(ctx):
    """every spelling of a comma-separated list that docutils accepts must suppress the same warnings"""
    import io
    from docutils.frontend import OptionParser
    from docutils.utils import new_document
    from myst_parser.parsers.docutils_ import Parser
    text = "## H2 first\n\n~~s~~ {nosuchrole}`x`\n"           # myst.header, myst.strikethrough, myst.role_unknown
    n = 0
    for lst in (["myst.header"], ["myst.header", "myst.strikethrough"], ["myst.strikethrough", "myst.header", "myst.role_unknown"]):
        for spelling in (",".join(lst), ", ".join(lst), " , ".join(lst), ",\n".join(lst), "\n" + ",\n".join(lst) + "\n", ",".join(lst) + ","):
            n += 1
            case = {"leg": "R-optstring", "option": "--myst-suppress-warnings", "value": spelling, "markdown": text}
            try:
                settings = OptionParser(components=(Parser,)).parse_args(["--myst-suppress-warnings=" + spelling, "--myst-enable-extensions=strikethrough"])
                settings.warning_stream = io.StringIO()
                settings.report_level = 2
                settings.halt_level = 5
                doc = new_document("<string>", settings)
                Parser().parse(text, doc)
            except (Exception, SystemExit) as e:  # noqa: BLE001
                ctx.violation(f"--myst-suppress-warnings={spelling!r}: {type(e).__name__}: {e}", case)
                continue
            ctx.count(("optstring", spelling))
            ctx.traces_validated += 1
            log = settings.warning_stream.getvalue()
            for tag in ("myst.header", "myst.strikethrough", "myst.role_unknown"):
                shown = f"[{tag}]" in log
                if shown == (tag in lst):
                    ctx.violation(f"--myst-suppress-warnings={spelling!r}: [{tag}] is {'shown' if shown else 'suppressed'}, "
                                  f"the list {'contains' if tag in lst else 'does not contain'} it", case)
    return n


SPHINX_SKIP = {"heading_slug", "inv_retrieval", "deprecated", "not_supported", "topmatter", "topmatter_field", "html"}


def _sphinx_build(job):
    """one Sphinx project holding every trigger document; -> {name: items}"""
    from pathlib import Path
    from ..sphinx_runner import run_docs
    wd, suppress = job
    lib = trigger_library()
    names = [n for n in lib if n not in SPHINX_SKIP]
    exts = sorted({e for n in names for e in lib[n][1].get("myst_enable_extensions", [])})
    docs = {f"t_{n}": f"# Doc {n}\n\n" + lib[n][0] if not lib[n][0].startswith(("#", "---")) else lib[n][0] for n in names}
    conf = {"myst_enable_extensions": exts, "keep_warnings": True, "suppress_warnings": [entry_str(e) for e in suppress]}
    res = run_docs(Path(wd), docs, conf, resolve=True)
    out = {}
    for n in names:
        r = res.get(f"t_{n}")
        if not r or not r["ok"] or r["doctree"] is None:
            out[n] = {"error": (r or {}).get("error") or "no doctree"}
            continue
        ws = [{"tag": w["tag"], "msg": w["msg"], "level": w["level"]} for w in r["warnings"]]
        items, untagged = items_of(r["doctree"], ws)
        # (ids of generated nodes and absolute paths differ between builds of different directories)
        import re
        items = [[k, re.sub(r"/[^\s'\"]*?/(?=t_)", "", p) if isinstance(p, str) else p] for k, p in items]
        out[n] = {"items": items, "untagged": untagged, "text": docs[f"t_{n}"]}
    import shutil
    shutil.rmtree(wd, ignore_errors=True)
    return out


def sphinx_pairs(ctx, first_id):
    """the trigger documents through the Sphinx front end: built without and with suppress lists (keep_warnings on, so
    that the warning nodes stay in the doctree); -> pair records in the format of _pair"""
    lists = [[], [("myst", "")], [("myst", "*"), ("ref", "footnote")], [("myst", "header"), ("myst", "xref_missing"), ("myst", "role_unknown")],
             [("epub", "x"), ("myst", "strikethrough"), ("myst", "directive_unknown"), ("myst", "duplicate_def")]]
    builds = pmap(_sphinx_build, [(str(ctx.wd / f"sx{n}"), sup) for n, sup in enumerate(lists)], procs=len(lists), chunksize=1)
    base = builds[0]
    outs = []
    tid = first_id
    for sup, b in zip(lists[1:], builds[1:]):
        for n, a in base.items():
            o = {"id": tid, "names": [n + " (sphinx)"], "text": a.get("text", ""), "suppress": [list(e) for e in sup], "front": "sphinx"}
            tid += 1
            if "error" in a or "error" in b.get(n, {"error": "missing"}):
                o["error"] = a.get("error") or b.get(n, {}).get("error", "missing")
            else:
                o.update({"outA": a["items"], "outB": b[n]["items"], "untagged": a["untagged"] + b[n]["untagged"]})
            outs.append(o)
    return outs


def _pair(job):
    """worker: render (text, overrides) with [] and with `suppress`"""
    tid, names, text, ov, suppress = job
    try:
        a, ua = render_items(text, ov, [])
        b, ub = render_items(text, ov, suppress)
        res = {"id": tid, "names": names, "text": text, "suppress": suppress, "outA": a, "outB": b, "untagged": ua + ub}
        if suppress and tid % 2 == 0:
            # a suppressed warning is reported at NO level: the same run with every message level on the stream
            b1, _ = render_items(text, {**ov, "report_level": 1}, suppress)
            res["info_leak"] = [it[1] for it in b1 if it[0] in ("log", "warn") and _supp(it[1], suppress)]
        if ov.get("doctitle_xform"):
            # the same pair without docutils' title promotion, and the shape of the unsuppressed document (for the
            # signature of the finding C14-doctitle-promotion)
            plain = {k: v for k, v in ov.items() if k not in XFORMS}
            res["xforms"] = True
            res["plainA"], _ = render_items(text, plain, [])
            res["plainB"], _ = render_items(text, plain, suppress)
            res["top"] = top_shape(text, plain)
        return res
    except Exception as e:  # noqa: BLE001
        return {"id": tid, "error": f"{type(e).__name__}: {e}", "names": names, "text": text, "suppress": suppress}


def top_shape(text, ov):
    """kinds of the document's children without suppression and without title promotion"""
    from docutils import nodes
    from ..frontends import docutils_doctree
    doc, _ = docutils_doctree(text, {**ov, "myst_suppress_warnings": []})
    import re
    tagre = re.compile(r"\[([\w]+\.[\w.\-*]+)\]\s*$")

    def wtag(c):
        m = tagre.search(c.astext())
        return "warn:" + (m.group(1) if m else "untagged")
    out = [wtag(c) if isinstance(c, nodes.system_message) else c.tagname for c in doc.children]
    secs = [c for c in doc.children if isinstance(c, nodes.section)]
    if len(secs) == 1 and len(secs[0]) and isinstance(secs[0][0], nodes.title) and list(secs[0][0].findall(nodes.system_message)):
        out.append("title-warn")         # the only section's title holds a warning node (its text ends up in document['title'])
    return out


def _supp(tag, suppress):
    return any(e[0] == tag[0] and e[1] in ("", "*", tag[1]) for e in suppress)


TRAILING_SITES = {"warn:myst.duplicate_def", "warn:ref.footnote", "warn:myst.heading_slug"}


def _only_promotion(o):
    """signature of C14-doctitle-promotion: exactly one top-level section, everything after it are warning nodes, at least
    one of which the list suppresses; AND without the doctitle/subtitle transforms the pair satisfies the relation"""
    # (footnotes and their transition are moved to the end of the document only AFTER docutils' title promotion has run)
    top = [k for k in o["top"] if k not in ("comment", "target", "substitution_definition", "pending", "meta", "docinfo", "title-warn", "footnote", "transition")]
    title_warn = "title-warn" in o["top"]
    lead = 0
    while lead < len(top) and top[lead].startswith("warn"):
        lead += 1
    # (the call sites that put a warning at document level after the content: the duplicate-definition report of
    # _render_finalise and the footnote reports; a warning of any other origin in that place is not this finding)
    shape = (top[lead:lead + 1] == ["section"] and len(top) > lead + 1 and all(k.startswith("warn") for k in top[lead + 1:])
             and all(k in TRAILING_SITES for k in top[lead + 1:]))
    shape = shape or (title_warn and top.count("section") == 1)
    if not shape:
        return False
    filt = [it for it in o["plainA"] if not (it[0] in ("warn", "log") and _supp(it[1], o["suppress"]))]
    return filt == o["plainB"] and filt != o["plainA"]


def run(ctx):
    from ..core import REPO
    quick = ctx.tier == "quick"
    rnd = random.Random(ctx.seed + 14)
    ctx.rule = ("R: every (tag, suppress list <= 3 over 9 entries) through create_warning in both front-end branches; every trigger document x "
                "{own tag, bare type, type.*, unrelated} suppress lists. V: random concatenations of 2-4 trigger documents x random suppress lists. "
                "non-trivial = a run pair in which at least one warning is suppressed")
    ctx.assumptions += ["the AST scan finds every warning call written as create_warning / log_warning / <logger>.warning / ParseWarnings / warning(MystWarnings..)",
                        "docutils front end for the trigger library; the Sphinx branch of create_warning is driven directly"]
    cat = sites.catalogue(REPO)
    ss = sites.scan(REPO)
    findings = ctx.open_findings
    known_untyped = {(f["file"], f["func"]) for f in findings.values() if f.get("file")}
    site_expr = "{" + ", ".join("[file |-> %s, func |-> %s, api |-> %s, type |-> %s, subtype |-> %s, how |-> %s]" % tuple(
        tlc.tla_expr(str(s[k])) for k in ("file", "func", "api", "type", "subtype", "how")) for s in ss) + "}"
    defs = {"SitesV": site_expr,
            "KnownV": "{" + ", ".join(tlc.tla_expr([a, b]) for a, b in sorted(known_untyped)) + "}",
            "TagsV": "{" + ", ".join(tlc.tla_expr(list(t)) for t in TAGS) + "}",
            "EntriesV": "{" + ", ".join(tlc.tla_expr(list(e)) for e in ENTRIES) + "}"}
    consts = {"Catalogue": set(cat.values()), "Sites": "<-SitesV", "KnownUntyped": "<-KnownV", "Tags": "<-TagsV", "Entries": "<-EntriesV",
              "MaxList": 3, "MaxActs": 0, "DevBreakOnOtherType": False, "DevFallbackText": False, "DevTransitionCounts": False, "DevLoneSection": False}
    # ---- T 1+2 ------------------------------------------------------------------------------
    r = tlc.run("Warnings", tlc.cfg(ctx, "w_mc.cfg", consts, invariants=["SitesTyped", "NoUntyped", "LoopCorrect", "OperatorForm", "Emit"],
                                    properties=["Terminates"]), wd=ctx.wd, timeout=3000, defs=defs)
    ctx.add_tlc("Warnings_sites_and_loop", r, f"{len(ss)} call sites, {len(cat)} catalogue tags; lists <= 3 over {len(ENTRIES)} entries x {len(TAGS)} tags")
    ctx.extra["call_sites"] = len(ss)
    ctx.extra["catalogue"] = sorted(cat.values())
    if "SitesTyped" in r.violated or "NoUntyped" in r.violated:
        # constants were extracted from the tree: this is a verdict about the code
        static = [s for s in ss if s["how"] in ("literal", "enum", "enum_value", "enum_name")]
        bad = [s for s in static if s["type"] == "myst" and s["subtype"] not in cat.values() and (s["file"], s["func"]) not in known_untyped]
        bad += [s for s in ss if s["how"] in ("untyped", "missing") and (s["file"], s["func"]) not in known_untyped]
        for s in bad:
            what = ("logs a warning without type/subtype" if s["how"] in ("untyped", "missing")
                    else f"uses the tag myst.{s['subtype']} ({s['how']}), which is not in the MystWarnings catalogue")
            ctx.violation(f"{s['file']}:{s['line']} ({s['func']}, {s['api']}) {what}", {"leg": "T-sites", "site": s})
        if not bad:
            raise tlc.MachineryFailure(f"Warnings: TLC reports {r.violated} but no offending site was found")
        # TLC stops at a false constant-level invariant: run the loop part again without the two site clauses
        r = tlc.run("Warnings", tlc.cfg(ctx, "w_mc_b.cfg", consts, invariants=["LoopCorrect", "OperatorForm", "Emit"],
                                        properties=["Terminates"]), wd=ctx.wd, timeout=3000, defs=defs)
        tlc.expect_holds(r, "Warnings loop M |= S")
        ctx.add_tlc("Warnings_loop", r)
    elif r.violated:
        raise tlc.MachineryFailure(f"Warnings M |= S: {r.violated}\n{r.trace[:1500]}")
    for f in findings.values():
        if f.get("file") and any((s["file"], s["func"]) == (f["file"], f["func"]) and s["how"] in ("untyped", "missing") for s in ss):
            ctx.known_hits.setdefault(f["id"], {"n": 0, "example": f["file"]})["n"] += 1
    # ---- T 3 --------------------------------------------------------------------------------
    c3 = {**consts, "MaxList": 2, "MaxActs": 2, "Entries": "<-Entries3V"}
    d3 = {**defs, "Entries3V": "{" + ", ".join(tlc.tla_expr(list(e)) for e in ENTRIES[:6]) + "}"}
    r3 = tlc.run("Warnings", tlc.cfg(ctx, "w_mc3.cfg", c3, invariants=["LoopCorrect", "NoSideEffects"]), wd=ctx.wd, timeout=3000, defs=d3, coverage=False)
    tlc.expect_holds(r3, "Warnings self-composition")
    ctx.add_tlc("Warnings_selfcomposition", r3, "action sequences <= 2 over 4 kinds x 4 tags, lists <= 2")
    rc = tlc.run("Warnings", tlc.cfg(ctx, "w_cov.cfg", {**c3, "MaxList": 1, "MaxActs": 1}, invariants=["NoSideEffects"]), wd=ctx.wd, coverage=True, defs=d3)
    for act in ("Loop", "LoopEnd", "Render"):
        if rc.coverage.get(act, (0, 0))[0] == 0:
            raise tlc.MachineryFailure(f"Warnings: action {act} never taken (vacuous)")
    ctx.add_tlc("Warnings_cov", rc)
    for dev, inv in (("DevBreakOnOtherType", "LoopCorrect"), ("DevFallbackText", "NoSideEffects"), ("DevTransitionCounts", "NoSideEffects"),
                     ("DevLoneSection", "NoSideEffects")):
        rd = tlc.run("Warnings", tlc.cfg(ctx, f"w_{dev}.cfg", {**c3, dev: True, "MaxActs": 1}, invariants=[inv]), wd=ctx.wd, defs=d3)
        tlc.expect_violation(rd, inv, f"Warnings {dev}")
        ctx.add_tlc(f"Warnings_{dev}", rd, "expected counterexample found")

    # ---- R 1: create_warning in both branches ----------------------------------------------------
    from docutils.utils import new_document
    from docutils.frontend import get_default_settings
    from myst_parser.parsers.docutils_ import Parser
    from myst_parser.warnings_ import create_warning
    import io
    import logging
    lg = logging.getLogger("sphinx")
    lg.addHandler(logging.NullHandler())       # the Sphinx-branch log lines are not observed here
    lg.propagate = False
    recs = [x for x in r.records if "tag" in x]
    for rec in recs:
        tag, lst = tuple(rec["tag"]), [tuple(e) for e in rec["lst"]]
        sup = [entry_str(e) for e in lst]
        for branch in ("docutils", "sphinx"):
            settings = get_default_settings(Parser)
            settings.warning_stream = io.StringIO()
            settings.myst_suppress_warnings = sup
            doc = new_document("<string>", settings)
            if branch == "sphinx":
                settings.env = types.SimpleNamespace(config=types.SimpleNamespace(suppress_warnings=sup), docname="index")
            try:
                node = create_warning(doc, "message", tag[1], wtype=tag[0], line=1, append_to=doc)
            except Exception as e:  # noqa: BLE001
                ctx.violation(f"create_warning raised {type(e).__name__}: {e} ({branch}, tag {tag}, suppress {sup})",
                              {"leg": "R-create_warning", "tag": tag, "suppress": sup, "branch": branch})
                continue
            ctx.count(("cw", tag, tuple(sup), branch), nontrivial=rec["suppressed"])
            ctx.traces_validated += 1
            shown = node is not None
            in_tree = len(doc.children) == 1
            if shown == rec["suppressed"] or in_tree != shown:
                ctx.violation(f"{branch}: warning [{tag[0]}.{tag[1]}] with suppress_warnings={sup}: expected "
                              f"{'suppressed' if rec['suppressed'] else 'shown'}, observed {'shown' if shown else 'suppressed'}"
                              f"{'' if in_tree == shown else ' (node/return value disagree)'}",
                              {"leg": "R-create_warning", "tag": tag, "suppress": sup, "branch": branch})
            elif branch == "docutils" and shown != (f"[{tag[0]}.{tag[1]}]" in settings.warning_stream.getvalue()):
                ctx.violation(f"docutils: warning [{tag[0]}.{tag[1]}] with suppress {sup}: log and tree disagree",
                              {"leg": "R-create_warning", "tag": tag, "suppress": sup, "branch": branch})
    ctx.leg("R-create_warning", behaviours=len(recs) * 2)
    ctx.sample({"tag": recs[len(recs) // 2]["tag"], "suppress_list": recs[len(recs) // 2]["lst"], "suppressed": recs[len(recs) // 2]["suppressed"]})

    # ---- R: the suppress list written as a docutils option string (command line / docutils.conf) ------
    nopt = check_option_strings(ctx)
    ctx.leg("R-optstring", cases=nopt)

    # ---- R 2 + V: trigger library --------------------------------------------------------------
    lib = trigger_library()
    jobs = []
    tid = 0
    for name, (text, ov, tag) in lib.items():
        for sup in ([tag], [(tag[0], "")], [(tag[0], "*")], [("epub", "x"), tag], [("myst", "nosuchtag")], [(tag[0], tag[1] + ".x")]):
            jobs.append((tid, [name], text, ov, [list(e) for e in sup]))
            tid += 1
        # docutils' own defaults: a lone top-level section is promoted to the document title (a warning node in the
        # wrong place changes whether the section is "lone")
        jobs.append((tid, [name], text, {**ov, **XFORMS}, [list(tag)]))
        tid += 1
    nlib = len(jobs)
    alltags = sorted({t for _, _, t in lib.values()})
    names = [n for n in lib if n not in ("topmatter", "topmatter_field", "deprecated", "heading_slug", "inv_retrieval", "fm_suppress_list", "fm_suppress_empty", "topmatter_h1")]
    for _ in range(150 if quick else 3000):
        pick = rnd.sample(names, rnd.randint(2, 4))
        text = "\n".join(lib[n][0] for n in pick)
        ov = {}
        exts = set()
        for n in pick:
            for k, v in lib[n][1].items():
                if k == "myst_enable_extensions":
                    exts |= set(v)
                else:
                    ov[k] = v
        if exts:
            ov["myst_enable_extensions"] = sorted(exts)
        sup = []
        for _ in range(rnd.randint(1, 3)):
            t = rnd.choice(alltags)
            sup.append(rnd.choice([list(t), [t[0], ""], [t[0], "*"], ["epub", "x"], [t[0], t[1] + "x"]]))
        if rnd.random() < 0.4:
            ov.update(XFORMS)
        jobs.append((tid, pick, text, ov, sup))
        tid += 1
    outs = pmap(_pair, jobs, chunksize=8)
    souts = sphinx_pairs(ctx, tid)
    outs = list(outs) + souts
    # the reference run (nothing suppressed) of one document is the same every time it is made: what an earlier run
    # suppressed, or merely that there was an earlier run, must not show in a later one
    first_ref = {}
    for o in outs:
        if "outA" not in o or o.get("front") == "sphinx":
            continue
        k = (tuple(o["names"]), o["text"], bool(o.get("xforms")))
        if k not in first_ref:
            first_ref[k] = o
        elif first_ref[k]["outA"] != o["outA"]:
            a, b = first_ref[k]["outA"], o["outA"]
            d = next((i for i in range(max(len(a), len(b))) if i >= len(a) or i >= len(b) or a[i] != b[i]), 0)
            ctx.violation(f"the unsuppressed output of document(s) {o['names']} differs between two runs with the same input and configuration "
                          f"(first difference at item {d + 1}: {a[d] if d < len(a) else None} / {b[d] if d < len(b) else None})",
                          {"leg": "R-triggers", "documents": o["names"], "markdown": o["text"]})
            first_ref[k] = o
    intern = {}
    traces, keep = [], {}
    reached = set()
    for o in outs:
        case = {"leg": "R-sphinx" if o.get("front") == "sphinx" else "R-triggers" if o["id"] < nlib else "V", "documents": o["names"], "markdown": o["text"], "suppress_warnings": [entry_str(e) for e in o["suppress"]]}
        if "error" in o:
            ctx.violation(f"rendering raised {o['error']}", case)
            continue
        if o["untagged"]:
            ctx.violation(f"warning without a [type.subtype] tag: {o['untagged'][:2]}", case)
            continue
        for it in o["outA"]:
            if it[0] in ("warn", "log"):
                reached.add(tuple(it[1]))

        def enc(items):
            return [[k, (intern.setdefault(p, len(intern) + 1) if k == "node" else p)] for k, p in items]
        keep[o["id"]] = (o, case)
        traces.append({"id": o["id"], "lst": o["suppress"], "outA": enc(o["outA"]), "outB": enc(o["outB"])})
    tf = ctx.wd / "w_traces.ndjson"
    tlc.write_ndjson(tf, traces)
    rv = tlc.run("WarningsTrace", tlc.cfg(ctx, "w_trace.cfg", {**consts, "MaxList": 0}, spec="TraceSpec", invariants=["Verdict"]),
                 wd=ctx.wd, env={"TRACE_FILE": str(tf)}, timeout=3000, defs=defs)
    ctx.add_tlc("WarningsTrace", rv)
    tlc.expect_holds(rv, "WarningsTrace")
    if len(rv.records) != len(traces):
        raise tlc.MachineryFailure(f"WarningsTrace: {len(rv.records)} verdicts for {len(traces)} traces")
    for v in rv.records:
        o, case = keep[v["id"]]
        anysup = o["outA"] != o["outB"]
        ctx.count(("pair", v["id"]), nontrivial=anysup)
        ctx.traces_validated += 1
        if o.get("info_leak"):
            ctx.violation(f"suppress_warnings={case['suppress_warnings']}: with report_level=1 the suppressed warning(s) {o['info_leak']} are still reported", case)
        if not v["catalogue"]:
            ctx.violation("a [myst.*] tag outside the MystWarnings catalogue was emitted", case)
        if not v["relation"]:
            sup = {tuple(e) for e in o["suppress"]}
            fid = None
            if "xref_missing_empty" in o["names"] and any(e[0] == "myst" and e[1] in ("", "*", "xref_missing") for e in sup):
                fid = "C14-xref-fallback"
            if "footnote_dup_only" in o["names"] and len(o["names"]) == 1 and any(e[0] == "ref" and e[1] in ("", "*", "footnote") for e in sup):
                fid = "C14-footnote-transition"
            if fid is None and o.get("xforms") and _only_promotion(o):
                fid = "C14-doctitle-promotion"
            n = v["firstdiff"]
            fa = [it for it in o["outA"]]
            ctx.violation(f"suppress_warnings={case['suppress_warnings']} changes more than the suppressed warnings "
                          f"(first difference at item {n} of the filtered output; with: {o['outB'][max(0, n - 2):n + 1]})", case, finding=fid)
    lib_missing = sorted(set(alltags) - reached)
    for t in lib_missing:
        # (the library reaches every one of these tags on the unchanged tree: a trigger whose warning no longer carries
        # its tag is a verdict about the code)
        names_ = [n for n, (_, _, tg) in lib.items() if tuple(tg) == tuple(t)]
        ctx.violation(f"the catalogue warning [{t[0]}.{t[1]}] is no longer emitted with its tag by the document(s) that trigger it ({names_})",
                      {"leg": "R-triggers", "tag": list(t), "documents": names_, "markdown": lib[names_[0]][0] if names_ else None})
    ctx.leg("R-triggers", pairs=nlib, tags_reached=sorted(".".join(t) for t in reached))
    ctx.leg("V", pairs=len(traces) - nlib - len(souts))
    ctx.leg("R-sphinx", pairs=len(souts))
    ctx.exhaustive = True


def replay(case) -> int:
    import json
    print(json.dumps(case, indent=1, default=str)[:4000])
    return 1
