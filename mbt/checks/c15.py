"""C15 -- output depends only on document and config: no leakage across parses / workers.

T  Session.tla: histories of parses in one process over document kinds that touch or observe
   a channel of process state |= NonInterference, StateUntouched; Sphinx builds as
   fork / read / merge over every assignment of documents to workers and every order
   |= ScheduleIndependent, MergedComplete; three Dev regressions.
R  every TLC history replayed in ONE fresh process (docutils front end), each output compared
   with the same document parsed first in a fresh process; every TLC schedule imposed on a
   real Sphinx build (order through env-before-read-docs, assignment by substituting
   sphinx.builders.make_chunks in the build process), compared with the serial build.
V  random longer histories and random schedules of a larger project, validated by
   SessionTrace.
"""
from __future__ import annotations

import itertools
import os
import random
import re
import shutil
from pathlib import Path

from .. import tlc
from ..pool import _one, pmap

META = {
    "level": "model_checking",
    "text": "TLC checks the session model (process state that outlives a parse; Sphinx's fork/read/merge of document chunks) for non-interference over every history of document kinds within the bound and for schedule independence over every assignment and order of a document set; every history is replayed in one fresh process and compared with fresh-process outputs, every schedule is imposed on a real parallel Sphinx build and compared with the serial build; random longer histories and schedules are validated as traces by TLC.",
    "note": "Bound: histories <= 3 over 10 document kinds (docutils front end); builds of 4 documents on <= 2-3 workers, every assignment x every order (quick: a third of them). Every compared build runs in its own fresh process. Roles/directives defined through eval-rst live in docutils' own global registries (docutils' design, also for rST) and are kept out of the histories.",
    "technique": "TLA+ spec + TLC exhaustive check; spec-behaviour replay into the code (histories in one process, imposed parallel-read schedules); TLC batch trace validation",
    "specs": ["Session", "SessionTrace"],
}

KINDS = ["plain", "include", "evalrst_include_opt", "html_img", "inv_wild", "subst", "subst_circ", "frontmatter_ext", "anchors", "footnotes",
         "inv_stable", "inv_latest", "scheme_cls", "scheme_plain", "unknown_lexer", "footnote_num", "include_chain", "include_prev", "fm_footnotes"]
# kinds also rendered through ONE parser object (create_md_parser + DocutilsRenderer) that is reused for the whole history
API_KINDS = ["plain", "include", "html_img", "subst", "subst_circ", "frontmatter_ext", "anchors", "footnotes", "scheme_cls", "scheme_plain",
             "unknown_lexer", "footnote_num", "include_chain", "include_prev"]
SPHINX_KINDS = ["figure_md", "html_img", "anchors", "xlink", "include", "frontmatter_ext", "figure_md_fail", "plain"]


def kind_text(k, name="doc"):
    return {
        "plain": "# Title\n\ntext *em*\n",
        "include": "```{include} inc.md\n:heading-offset: 1\n```\n",
        "evalrst_include_opt": "```{eval-rst}\n.. include:: r.rst\n   :heading-offset: 1\n```\n",
        "html_img": '<img src="a.png" alt="x">\n',
        "inv_wild": "<inv:k:*:*#na*>\n\n<inv:k:std:label#n\\*>\n",
        "scheme_cls": "[x](wiki:P){.special} and <wiki:Q>{.other}\n",      # links of a url scheme that has classes, with classes of their own
        "scheme_plain": "[y](wiki:R) and <wiki:S>\n",
        "inv_stable": "<inv:k#name1>\n",          # parsed with the inventory's base URL .../stable/
        "inv_latest": "<inv:k#name1>\n",          # the same file configured with the base URL .../latest/
        "subst": "{{ sa }} and {{ sb }}\n",
        "subst_circ": "{{ ca }}\n\nafter\n",
        "frontmatter_ext": '---\nmyst:\n  enable_extensions: [html_image, deflist]\n  heading_anchors: 1\n---\n\n<img src="a.png" alt="y">\n\nterm\n: def\n\n# H\n',
        "anchors": "# Anchor title\n\n## Sub\n\n## Sub\n\n[](#sub-1)\n",
        "footnotes": "x [^a] [^b]\n\n[^b]: two\n\n[^a]: one\n",
        "fm_footnotes": "---\nmyst:\n  footnote_sort: false\n  footnote_transition: false\n---\n\nx [^b] [^a]\n\n[^a]: one\n\n[^b]: two\n\nend\n",
        "footnote_num": "x [^1] y [^n]\n\n[^1]: one\n\n[^n]: named\n",
        "unknown_lexer": "```nosuchlanguage\ncode\n```\n\n```nosuchlanguage\nmore\n```\n",     # one warning per block, in every document
        "include_prev": "```{include} docp.md\n```\n",            # docp.md: the path under which the reused parser object renders 'include' documents
        "include_chain": "```{include} chain.md\n```\n",          # chain.md includes inc.md, which other documents include directly
        # (with front matter: the document then has its own, file-level configuration object)
        "figure_md": "---\nmyst:\n  footnote_transition: false\n---\n\n```{figure-md} fig-" + name + "\n![alt](a.png)\n\ncaption text\n```\n",
        "figure_md_plain": "```{figure-md} figp-" + name + "\n![alt](a.png)\n\ncaption text\n```\n",
        "figure_md_fail": "```{figure-md}\nnot an image\n```\n",
        "xlink": "# X\n\n[](anchors_doc.md#sub-1) and [t](anchors_doc.md#sub)\n",
        # a page that switches smartquotes on for itself, and a plain page whose quotes Sphinx's own transform converts
        "fm_smartquotes": '---\nmyst:\n  enable_extensions: [smartquotes]\n---\n\n# SQ ' + name + '\n\n"quoted" -- text...\n',
        "quotes_plain": '# Plain ' + name + '\n\n"hello" -- it\'s...\n',
        "include_doc": "# Includes a document\n\n```{include} inca.md\n```\n",
        "amsmath": "# Math\n\n\\begin{align*}\na &= b\\\\\nc &= d\n\\end{align*}\n\ntext\n",      # (written by the process that did not read it)
        "strike": "# S " + name + "\n\nsome ~~struck~~ text\n",                          # one warning per document, whoever was read before      # another document of the build, which itself includes a file
    }[k]


def docutils_overrides(d: Path):
    import zlib
    p = d / "objects.inv"
    if not p.exists():
        body = "name1 std:label -1 a.html#n N1\nn* std:label -1 b.html -\n"
        p.write_bytes(("# Sphinx inventory version 2\n# Project: p\n# Version: 1\n"
                       "# The remainder of this file is compressed using zlib.\n").encode() + zlib.compress(body.encode()))
    return {"myst_enable_extensions": ["substitution", "attrs_inline"],
            "myst_url_schemes": {"http": None, "https": None, "wiki": {"url": "https://w/{{path}}", "classes": ["wk"]}},
            "myst_substitutions": {"sa": "A", "sb": "*b*", "ca": "{{ cb }}", "cb": "{{ ca }}"},
            "myst_inventories": {"k": ["https://e.x/", str(p)]}, "myst_heading_anchors": 2}


def _setup_dir(d: Path):
    d.mkdir(parents=True, exist_ok=True)
    (d / "inc.md").write_text("## Included\n\ninc text\n")
    (d / "r.rst").write_text("rst text\n")
    (d / "docp.md").write_text("text of docp\n")
    (d / "chain.md").write_text("chain\n\n```{include} inc.md\n```\n")


def parse_one(d: Path, k, shared=None):
    from ..frontends import docutils_doctree
    text = kind_text(k)
    # (one settings dictionary for the whole history, as a process with fixed settings has: its values are shared by
    # all parses and must come out of each of them unchanged)
    ov = dict(shared) if shared is not None else docutils_overrides(d)
    if k in ("inv_stable", "inv_latest"):
        ov["myst_inventories"] = {"k": [f"https://e.x/{k[4:]}/", ov["myst_inventories"]["k"][1]]}
    try:
        doc, warns = docutils_doctree(text, ov, source_path=str(d / "doc.md"))
    except Exception as e:  # noqa: BLE001
        return {"sig": f"raised {type(e).__name__}: {e}", "abs": "raised"}
    from docutils import nodes
    sig = doc.pformat() + "\n" + repr(sorted((w["tag"] or w["msg"][:40], w["line"] or 0) for w in warns))
    if k == "evalrst_include_opt":
        ab = "option error" if any("include" in w["msg"] and w["level"] in ("ERROR", "SEVERE") for w in warns) else "option accepted"
    elif k == "html_img":
        ab = "image" if list(doc.findall(nodes.image)) else "raw"
    elif k in ("inv_stable", "inv_latest"):
        uris = [r.get("refuri", "") for r in doc.findall(nodes.reference)]
        ab = "stable url" if any("/stable/" in u for u in uris) else ("latest url" if any("/latest/" in u for u in uris) else "no link")
    else:
        ab = "ok"
    return {"sig": sig, "abs": ab}


def api_parser(d: Path):
    from myst_parser.config.main import MdParserConfig
    from myst_parser.mdit_to_docutils.base import DocutilsRenderer
    from myst_parser.parsers.mdit import create_md_parser
    ov = docutils_overrides(d)
    cfg = MdParserConfig(**{k[5:]: ({kk: tuple(vv) for kk, vv in v.items()} if k == "myst_inventories" else v) for k, v in ov.items()})
    return create_md_parser(cfg, DocutilsRenderer)


def parse_api(md, d: Path, k, name="doc.md"):
    """render through the given (possibly already used) parser object into a new document"""
    import io
    from myst_parser.mdit_to_docutils.base import make_document
    doc = make_document(source_path=str(d / name))
    ws = io.StringIO()
    doc.reporter.stream = ws
    doc.reporter.halt_level = 5
    doc.reporter.report_level = 2
    doc.settings.halt_level = 5
    md.options["document"] = doc
    try:
        md.render(kind_text(k))
    except Exception as e:  # noqa: BLE001
        return {"sig": f"raised {type(e).__name__}: {e}"}
    return {"sig": doc.pformat() + "\n" + re.sub(r"/[^\s\"']*?/(?=[\w.-]+\.md)", "", ws.getvalue())}


def parse_settings(settings, d: Path, k):
    """publish_doctree with the given (possibly already used) docutils settings OBJECT"""
    import io
    from docutils.core import publish_doctree
    from myst_parser.parsers.docutils_ import Parser
    ws = io.StringIO()
    settings.warning_stream = ws
    try:
        doc = publish_doctree(kind_text(k), source_path=str(d / "doc.md"), parser=Parser(), settings=settings)
    except Exception as e:  # noqa: BLE001
        return {"sig": f"raised {type(e).__name__}: {e}"}
    return {"sig": doc.pformat() + "\n" + ws.getvalue()}


def settings_object(d: Path):
    from docutils.frontend import get_default_settings
    from myst_parser.parsers.docutils_ import Parser
    st = get_default_settings(Parser)
    for k, v in {"halt_level": 5, "report_level": 2, "doctitle_xform": False, "sectsubtitle_xform": False, **docutils_overrides(d)}.items():
        setattr(st, k, v)
    return st


# kinds also converted with the public helper to_html5_demo(text, **settings), each kind with settings of its own
DEMO_KW = {"plain": {}, "scheme_plain": {}, "html_img": {}, "footnotes": {}, "anchors": {"myst_heading_anchors": 2},
           "scheme_cls": {"myst_enable_extensions": ["attrs_inline"], "myst_url_schemes": {"http": None, "wiki": {"url": "https://w/{{path}}", "classes": ["wk"]}}},
           "subst": {"myst_enable_extensions": ["substitution"], "myst_substitutions": {"sa": "A", "sb": "*b*"}},
           "frontmatter_ext": {"myst_enable_extensions": ["html_image"]}}


def parse_demo(k):
    import io
    from myst_parser.parsers.docutils_ import to_html5_demo
    try:
        return {"sig": to_html5_demo(kind_text(k), warning_stream=io.StringIO(), **DEMO_KW[k])}
    except Exception as e:  # noqa: BLE001
        return {"sig": f"raised {type(e).__name__}: {e}"}


SETTINGS_KINDS = ["plain", "footnotes", "footnote_num", "fm_footnotes", "frontmatter_ext", "html_img", "anchors", "subst", "include"]


def run_history(job):
    """executed in its own fresh process: parse the kinds of the history in order"""
    wd, hist = job
    d = Path(wd)
    shared = docutils_overrides(d)
    out = [parse_one(d, k, shared) for k in hist]
    # the same history with ONE docutils settings object handed to every publish call
    st = settings_object(d)
    for k, o in zip(hist, out):
        o["st"] = parse_settings(st, d, k) if k in SETTINGS_KINDS else None
    for k, o in zip(hist, out):
        o["demo"] = parse_demo(k) if k in DEMO_KW else None
    # the same history through one reused parser object (the documents have different paths)
    md = api_parser(d)
    for n, (k, o) in enumerate(zip(hist, out)):
        o["api"] = parse_api(md, d, k, "docp.md" if k == "include" else f"doc{n % 2}.md") if k in API_KINDS else None
    return out


# ------------------------------------------------------------------ Sphinx builds
def build(job):
    """executed in its own fresh process: build the project under an imposed schedule.
    job: (dir, docs [(name, kind)], order [names] | None, chunks [[names]] | None)"""
    wd, docs, order, chunks = job
    from ..sphinx_runner import run_project
    d = Path(wd)
    files = {f"{n}.md": kind_text(k, n) for n, k in docs}
    files["inc.md"] = "## Included\n\ninc text\n"
    files["index.md"] = "# Index\n\n```{toctree}\n" + "\n".join(n for n, _ in docs) + "\n```\n"
    extra = ""
    if order:
        extra = ("\n\n_ORDER = " + repr(["index"] + list(order)) + "\n\n"
                 "def _reorder(app, env, docnames):\n"
                 "    docnames.sort(key=lambda n: _ORDER.index(n) if n in _ORDER else len(_ORDER))\n\n"
                 "def setup(app):\n    app.connect('env-before-read-docs', _reorder)\n")
    parallel = 0
    if chunks:
        import sphinx.builders as SB
        want = [list(c) for c in chunks if c]

        def fake_chunks(arguments, nproc, maxbatch=10):
            names = list(arguments)
            out = [[n for n in c if n in names] for c in want]
            rest = [n for n in names if not any(n in c for c in out)]
            if rest:
                out[0] = rest + out[0]          # (index is read with the first chunk)
            return [c for c in out if c]
        SB.make_chunks = fake_chunks
        parallel = max(2, len(want))
    r = run_project(d, files, {"myst_heading_anchors": 2, "exclude_patterns": ["_build", "inc.md"], "myst_enable_extensions": ["amsmath", "strikethrough"]},
                    builder="html", parallel=parallel, conf_extra=extra, want_html=True)
    out = {"ok": r["ok"], "error": r["error"], "docs": {}}
    if r["ok"]:
        from docutils import nodes
        for n, k in docs:
            t = r["doctrees"].get(n)
            ws = sorted((w["tag"] or w["msg"][:50], w["line"] or 0) for w in (r.get("build_warnings") or []) if w["src"] and os.path.basename(w["src"]).split(".")[0] == n)
            sig = (t.pformat() if t is not None else "<none>") + "\n" + repr(ws)
            body = re.search(r'<div class="body" role="main">(.*?)<div class="sphinxsidebar"', (r.get("html") or {}).get(n) or "", re.S)
            sig += "\n--- written html ---\n" + (body.group(1) if body else "<none>")
            sig = re.sub(r"/[^\s\"']*?/(?=[\w.-]+\.(md|png))", "", sig)      # absolute source directories differ between builds
            ab = "ok"
            if k == "html_img" and t is not None:
                ab = "image" if list(t.findall(nodes.image)) else "raw"
            out["docs"][n] = {"sig": sig, "abs": ab}
    shutil.rmtree(d, ignore_errors=True)
    return out


def _api_sig(sig):
    return re.sub(r"doc[01p]\.md", "doc.md", sig)


def run(ctx):
    quick = ctx.tier == "quick"
    rnd = random.Random(ctx.seed + 15)
    ctx.rule = ("R: every history <= MaxHist over the document kinds (one fresh process each) and every assignment x order of the build's documents. "
                "V: random longer histories and schedules. non-trivial = a history of >= 2 parses / a schedule with >= 2 non-empty chunks")
    ctx.assumptions += ["histories: docutils front end; builds: in-process Sphinx in a fresh forked process per build, html builder",
                        "the schedule is imposed from outside the code under test (env-before-read-docs handler; substituted make_chunks)"]
    base = {"Kinds": set(KINDS), "MaxHist": 2 if quick else 3, "Docs": {"d1"}, "MaxWorkers": 1, "DocKind": "<-DocKindV", "Part": "history",
            "DevIncludeSpecMutation": False, "DevSharedExtensionSet": False, "DevEnvAttribute": False, "DevInventoryCache": False}
    bdocs = [("figdoc", "figure_md"), ("imgdoc", "html_img"), ("anchors_doc", "anchors"), ("xdoc", "xlink"), ("fig2", "figure_md_plain")]
    dk = {"DocKindV": "(" + " @@ ".join(f'"{n}" :> "{k}"' for n, k in bdocs) + ")"}
    invs = ["NonInterference", "StateUntouched", "ScheduleIndependent", "MergedComplete", "Emit"]
    rh = tlc.run("Session", tlc.cfg(ctx, "s_hist.cfg", base, invariants=invs, properties=["Terminates"]), wd=ctx.wd, timeout=3000, defs=dk, coverage=True)
    tlc.expect_holds(rh, "Session[history] M |= S")
    ctx.add_tlc("Session_history", rh, f"histories <= {base['MaxHist']} over {len(KINDS)} kinds")
    nw = 2 if quick else 3
    bconst = {**base, "Part": "build", "Docs": {n for n, _ in bdocs}, "MaxWorkers": nw, "Kinds": {"plain"}, "MaxHist": 0}
    rb = tlc.run("Session", tlc.cfg(ctx, "s_build.cfg", bconst, invariants=invs, properties=["Terminates"]), wd=ctx.wd, timeout=3000, defs=dk, coverage=True)
    tlc.expect_holds(rb, "Session[build] M |= S")
    ctx.add_tlc("Session_build", rb, f"{len(bdocs)} documents, {nw} workers, every assignment x order")
    for act, res in (("Parse", rh), ("EndHist", rh), ("Read", rb), ("EndBuild", rb)):
        if res.coverage.get(act, (0, 0))[0] == 0:
            raise tlc.MachineryFailure(f"Session: action {act} never taken (vacuous)")
    for dev, inv, cons in (("DevIncludeSpecMutation", "NonInterference", {**base, "MaxHist": 2}), ("DevInventoryCache", "NonInterference", {**base, "MaxHist": 2}),
                           ("DevSharedExtensionSet", "ScheduleIndependent", bconst), ("DevEnvAttribute", "MergedComplete", bconst)):
        rd = tlc.run("Session", tlc.cfg(ctx, f"s_{dev}.cfg", {**cons, dev: True}, invariants=[inv]), wd=ctx.wd, defs=dk)
        tlc.expect_violation(rd, inv, f"Session {dev}")
        ctx.add_tlc(f"Session_{dev}", rd, "expected counterexample found")

    # ---- R histories -------------------------------------------------------------------------
    hd = ctx.wd / "hist"
    _setup_dir(hd)
    fresh = {}
    for k in KINDS:
        o = _one(run_history, (str(hd), [k]))
        if isinstance(o, dict):
            raise tlc.MachineryFailure(f"fresh parse of kind {k} failed: {o}")
        fresh[k] = o[0]
    hists = [rec["hist"] for rec in rh.records if rec["hist"]]
    # (TLC checks every history; of those of length 3 every eighth is also executed: each one costs a fresh process
    # and three passes over its documents)
    hists = [h for n, h in enumerate(hists) if len(h) < 3 or n % 8 == 0]
    exp = {tuple(rec["hist"]): rec["outs"] for rec in rh.records}
    outs = pmap(_hist_job, [(str(hd), h) for h in hists], procs=16, chunksize=4)
    traces = []
    intern = {}
    for h, o in zip(hists, outs):
        ctx.count(("h", tuple(h)), nontrivial=len(h) >= 2)
        ctx.traces_validated += 1
        case = {"leg": "R-history", "history": h, "documents": [kind_text(k) for k in h]}
        if isinstance(o, dict):
            ctx.violation(f"history {h}: {o.get('error')}", case)
            continue
        for n, (k, got) in enumerate(zip(h, o)):
            if got["abs"] != exp[tuple(h)][n] and got["abs"] != "ok":
                ctx.violation(f"history {h}: parse {n + 1} ({k}) gives '{got['abs']}', parsed first in a fresh process it gives '{exp[tuple(h)][n]}'", case)
                break
            if got["sig"] != fresh[k]["sig"]:
                import difflib
                diff = "\n".join(list(difflib.unified_diff(fresh[k]["sig"].splitlines(), got["sig"].splitlines(), "fresh process", f"after {h[:n]}", lineterm="", n=0))[:8])
                ctx.violation(f"history {h}: the output of parse {n + 1} ({k}) depends on what was parsed before:\n{diff}", case)
                break
            if got.get("st") and got["st"]["sig"] != fresh[k]["st"]["sig"]:
                import difflib
                diff = "\n".join(list(difflib.unified_diff(fresh[k]["st"]["sig"].splitlines(), got["st"]["sig"].splitlines(), "new settings object", f"settings object used for {h[:n]}", lineterm="", n=0))[:8])
                ctx.violation(f"history {h} published with one reused docutils settings object: the output of parse {n + 1} ({k}) depends on what was parsed before:\n{diff}", case)
                break
            if got.get("demo") and got["demo"]["sig"] != fresh[k]["demo"]["sig"]:
                ctx.violation(f"history {h} converted with to_html5_demo (each document with its own settings): the output of call {n + 1} ({k}) depends on the calls before", case)
                break
            if got.get("api") and _api_sig(got["api"]["sig"]) != _api_sig(fresh[k]["api"]["sig"]):
                import difflib
                diff = "\n".join(list(difflib.unified_diff(fresh[k]["api"]["sig"].splitlines(), got["api"]["sig"].splitlines(), "new parser object", f"parser object used for {h[:n]}", lineterm="", n=0))[:8])
                ctx.violation(f"history {h} rendered through one reused parser object: the output of render {n + 1} ({k}) depends on what was rendered before:\n{diff}", case)
                break
    ctx.leg("R-history", histories=len(hists))
    # ---- V: random longer histories -----------------------------------------------------------
    vh = [[rnd.choice(KINDS) for _ in range(rnd.randint(4, 9))] for _ in range(40 if quick else 300)]
    vouts = pmap(_hist_job, [(str(hd), h) for h in vh], procs=16, chunksize=2)
    traces = []
    for t, (h, o) in enumerate(zip(vh, vouts)):
        ctx.count(("vh", t))
        if isinstance(o, dict):
            ctx.violation(f"history {h}: {o.get('error')}", {"leg": "V-history", "history": h})
            continue
        traces.append({"id": t, "hist": h, "abs": [g["abs"] for g in o], "same": [g["sig"] == fresh[k]["sig"] and (not g.get("demo") or g["demo"]["sig"] == fresh[k]["demo"]["sig"]) and (not g.get("st") or g["st"]["sig"] == fresh[k]["st"]["sig"]) and (not g.get("api") or _api_sig(g["api"]["sig"]) == _api_sig(fresh[k]["api"]["sig"]))
                                for k, g in zip(h, o)]})
    tf = ctx.wd / "s_traces.ndjson"
    tlc.write_ndjson(tf, traces)
    rv = tlc.run("SessionTrace", tlc.cfg(ctx, "s_trace.cfg", {**base, "MaxHist": 0}, spec="TraceSpec", invariants=["Verdict", "NonInterference", "StateUntouched"]),
                 wd=ctx.wd, env={"TRACE_FILE": str(tf)}, timeout=3000, defs=dk)
    tlc.expect_holds(rv, "SessionTrace: S on the traced runs")
    ctx.add_tlc("SessionTrace", rv)
    if len(rv.records) != len(traces):
        raise tlc.MachineryFailure(f"SessionTrace: {len(rv.records)} verdicts for {len(traces)} traces")
    for v in rv.records:
        ctx.traces_validated += 1
        if v["differs"] or v["channel"]:
            h = vh[v["id"]]
            n = min(list(v["differs"]) + list(v["channel"]))
            ctx.violation(f"history {h}: the output of parse {n} ({h[n - 1]}) depends on what was parsed before",
                          {"leg": "V-history", "history": h, "documents": [kind_text(k) for k in h]})
    ctx.leg("V-history", histories=len(traces))
    ctx.sample({"history": hists[len(hists) // 2], "expected_outputs": exp[tuple(hists[len(hists) // 2])]})

    # ---- R schedules ---------------------------------------------------------------------------
    names = [n for n, _ in bdocs]
    serial = _one(build, (str(ctx.wd / "b_serial"), bdocs, sorted(names), None))
    if not serial.get("ok"):
        ctx.violation(f"serial Sphinx build failed: {serial.get('error')}", {"leg": "R-schedule", "schedule": "serial"})
        serial = None
    elif any(k == "html_img" and serial["docs"][n]["abs"] != "raw" for n, k in bdocs):
        ctx.violation("serial build: a raw <img> document (html_image not enabled) is rendered as an image: it depends on the documents read before it",
                      {"leg": "R-schedule", "schedule": "serial", "documents": {n: kind_text(k, n) for n, k in bdocs}})
    scheds = []
    for rec in rb.records:
        order = [a[0] for a in rec["assign"]]
        chunks = [[a[0] for a in rec["assign"] if a[1] == w] for w in range(1, nw + 1)]
        scheds.append((order, [c for c in chunks if c]))
    seen, uniq = set(), []
    for s in scheds:
        key = repr(s)
        if key not in seen:
            seen.add(key)
            uniq.append(s)
    if quick:
        uniq = [s for s in uniq if len(s[1]) >= 2]
        rnd.shuffle(uniq)
        uniq = uniq[:40]
    jobs = [(str(ctx.wd / f"b_{n}"), bdocs, order, chunks if len(chunks) > 1 else None) for n, (order, chunks) in enumerate(uniq)]
    bouts = pmap(_build_job, jobs, procs=8, chunksize=1)
    for (order, chunks), o in zip(uniq, bouts):
        case = {"leg": "R-schedule", "read_order": order, "chunks": chunks, "documents": {n: kind_text(k, n) for n, k in bdocs}}
        ctx.count(("b", repr((order, chunks))), nontrivial=len(chunks) >= 2)
        ctx.traces_validated += 1
        if not o.get("ok"):
            ctx.violation(f"Sphinx build under schedule order={order} chunks={chunks} failed: {o.get('error')}", case)
            continue
        bad_abs = [n for n, k in bdocs if k == "html_img" and o["docs"][n]["abs"] != "raw"]
        if bad_abs:
            ctx.violation(f"document {bad_abs[0]} (a raw <img>, html_image not enabled) is rendered as '{o['docs'][bad_abs[0]]['abs']}' under read order {order}, chunks {chunks}: "
                          "it depends on what the same process read before", case)
            continue
        if serial is None:
            continue
        for n, k in bdocs:
            if o["docs"][n]["sig"] != serial["docs"][n]["sig"]:
                import difflib
                diff = "\n".join(list(difflib.unified_diff(serial["docs"][n]["sig"].splitlines(), o["docs"][n]["sig"].splitlines(), "serial", "parallel", lineterm="", n=0))[:8])
                ctx.violation(f"document {n} ({k}) differs between the serial build and the build with read order {order}, chunks {chunks}:\n{diff}", case)
                break
    # a second, small family: a document that includes another document of the build (which includes a file); every
    # read order, serial and split over two workers -- each document's output must be the same in all of them
    bdocs2 = [("inca", "include"), ("incb", "include_doc"), ("imgz", "html_img"), ("amath", "amsmath"), ("s1", "strike"), ("s2", "strike"),
              ("sq1", "fm_smartquotes"), ("sq2", "quotes_plain")]
    names2 = [n for n, _ in bdocs2]
    rot = lambda k: names2[k:] + names2[:k]      # noqa: E731
    sch2 = [(names2, None), (names2[::-1], None), (rot(1), None), (rot(2), None), (rot(4), None), (["incb", "inca", "s2", "s1", "amath", "imgz"], None)]
    sch2 += [(names2, [names2[:3], names2[3:]]), (names2, [names2[::2], names2[1::2]]), (names2[::-1], [["s2", "amath"], ["s1", "imgz", "incb", "inca"]]),
             (rot(3), [["amath"], ["s1", "s2", "inca", "incb", "imgz"]])]
    outs2 = pmap(_build_job, [(str(ctx.wd / f"b2_{n}"), bdocs2, order, chunks) for n, (order, chunks) in enumerate(sch2)], procs=8, chunksize=1)
    ref2 = None
    for (order, chunks), o in zip(sch2, outs2):
        case = {"leg": "R-schedule", "read_order": order, "chunks": chunks, "documents": {n: kind_text(k, n) for n, k in bdocs2}}
        ctx.count(("b2", repr((order, chunks))), nontrivial=True)
        ctx.traces_validated += 1
        if not o.get("ok"):
            ctx.violation(f"Sphinx build (include chain) under schedule order={order} chunks={chunks} failed: {o.get('error')}", case)
            continue
        if ref2 is None:
            ref2 = (order, chunks, o)
            continue
        for n, k in bdocs2:
            if o["docs"][n]["sig"] != ref2[2]["docs"][n]["sig"]:
                import difflib
                diff = "\n".join(list(difflib.unified_diff(ref2[2]["docs"][n]["sig"].splitlines(), o["docs"][n]["sig"].splitlines(),
                                                           f"order {ref2[0]}", f"order {order} chunks {chunks}", lineterm="", n=0))[:8])
                ctx.violation(f"document {n} ({k}) differs between the build with read order {ref2[0]} and the one with read order {order}, chunks {chunks}:\n{diff}", case)
                break
    ctx.leg("R-schedule", schedules=len(uniq), include_chain_schedules=len(sch2))
    shutil.rmtree(hd, ignore_errors=True)
    ctx.exhaustive = not quick


def _hist_job(job):
    return _one(run_history, job)


def _build_job(job):
    return _one(build, job)


def replay(case) -> int:
    import json
    print(json.dumps(case, indent=1, default=str)[:4000])
    return 1
