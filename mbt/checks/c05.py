"""C05 -- heading levels determine section nesting; nested headings never make sections.

T  Sections.tla: renderer registers (open levels, heading offset, current node, saved
   contexts) |= DeclParent for every item sequence within the bound; Dev_PruneOff regression.
R  every TLC behaviour (micro-event sequence + predicted result per event) concretised to
   Markdown (+ included files) and rendered by the docutils front end, pre-transform; section
   parents, rubric levels, paragraph placement and [myst.header] warning lines compared.
V  random long documents with deeper nesting; traces validated by SectionsTrace (M's actions
   consume the events; S is evaluated on the observation).
"""
from __future__ import annotations

import os
import random
import shutil
from pathlib import Path

from .. import tlc
from ..mdgen import marker_lines, render
from ..pool import pmap

META = {
    "level": "model_checking",
    "text": "TLC checks the section-register model against the declarative parent rule for every item sequence within the bound (levels 1-6, containers, heading-offset includes, paragraphs); every behaviour is replayed through the docutils front end and random long documents are validated as traces against the model with the declarative rule evaluated on the observed tree.",
    "note": "Bound: sequences <= 4 headings over levels 1-6 plus <= 3 items over the full alphabet (quick). Only the docutils front end is driven here (the Sphinx renderer shares render_heading). markdown-it's tokenisation of the generated text is trusted; doctitle/sectsubtitle transforms off, pre-transform tree observed.",
    "technique": "TLA+ spec + TLC exhaustive check; spec-behaviour replay into the code; TLC batch trace validation",
    "specs": ["Sections", "SectionsTrace"],
}

KIND_NODE = {"quote": "block_quote", "item": "list_item", "note": "note"}
DIR_TOP = [("note", ""), ("topic", "Tt"), ("sidebar", "Tt"), ("admonition", "Tt"), ("tip", "")]
DIR_ANY = [("note", ""), ("admonition", "Tt"), ("tip", ""), ("warning", "")]


def micro_to_blocks(ev):
    """micro events -> block tree for mdgen; marker text T<n>/P<n> with n the micro index."""
    root: list = []
    stack = [root]
    kinds_open: list = []
    inc_n = 0
    for n, e in enumerate(ev, 1):
        t = e[0]
        if t == "h":
            stack[-1].append({"k": "h", "level": e[1], "text": f"T{n}"})
        elif t == "p":
            stack[-1].append({"k": "p", "text": f"P{n}"})
        elif t == "open":
            kind = e[1]
            if kind == "quote":
                b = {"k": "quote", "kids": []}
            elif kind == "titles":
                # a directive that parses its body with match_titles=True (registered by the harness, like Sphinx's `only`)
                b = {"k": "dir", "name": "verif-titles", "colon": n % 2 == 0, "kids": []}
            elif kind == "item":
                b = {"k": "item", "kids": []}
            else:
                # any body-level directive: a heading inside it is a rubric.  topic / sidebar are docutils "Structural"
                # nodes but no sections; they are only allowed at document / section level
                top = len(stack) == 1 or all(x == "inc" for x in kinds_open)
                name, arg = (DIR_TOP if top else DIR_ANY)[n % len(DIR_TOP if top else DIR_ANY)]
                b = {"k": "dir", "name": name, "arg": arg, "colon": n % 2 == 0, "kids": []}
            kinds_open.append(kind)
            stack[-1].append(b)
            stack.append(b["kids"])
        elif t == "enter":
            inc_n += 1
            b = {"k": "inc", "file": f"inc{n}.md", "opts": [("heading-offset", str(e[1]))] if e[1] else [], "kids": []}
            kinds_open.append("inc")
            stack[-1].append(b)
            stack.append(b["kids"])
        elif t in ("close", "exit"):
            stack.pop()
            kinds_open.pop()
    return root


def _run_case(case):
    """worker: concretise, render with docutils, project. -> dict(obs..., or error)"""
    from docutils import nodes
    from ..frontends import docutils_doctree
    ev = case["ev"]
    wd = Path(case["wd"]) / f"w{os.getpid()}"
    wd.mkdir(parents=True, exist_ok=True)
    files: dict = {}
    text = "\n".join(render(micro_to_blocks(ev), files)) + "\n"
    for fn, content in files.items():
        (wd / fn).write_text(content)
    src = wd / "doc.md"
    src.write_text(text)
    try:
        doc, warns = docutils_doctree(text, {"myst_enable_extensions": ["colon_fence"]}, transforms=False, source_path=str(src))
    except Exception as e:
        return {"error": f"{type(e).__name__}: {e}", "text": text, "files": files}
    # projection
    res = [["-"] for _ in ev]
    marker_of = {}
    for sec in doc.findall(nodes.section):
        if len(sec) and isinstance(sec[0], nodes.title):
            marker_of[id(sec)] = sec[0].astext()
    problems = []
    for sec in doc.findall(nodes.section):
        m = marker_of.get(id(sec))
        if not m or not m.startswith("T"):
            problems.append("section without marker title")
            continue
        n = int(m[1:])
        par = sec.parent
        if isinstance(par, nodes.document):
            p = 0
        elif isinstance(par, nodes.section) and marker_of.get(id(par), "").startswith("T"):
            p = int(marker_of[id(par)][1:])
        else:
            p = -2  # a section under something that is neither document nor section
        res[n - 1] = ["section", p]
    for rub in doc.findall(nodes.rubric):
        m = rub.astext()
        if m.startswith("T") and m[1:].isdigit():
            res[int(m[1:]) - 1] = ["rubric", rub.get("level", -99)]
    for para in doc.findall(nodes.paragraph):
        m = para.astext()
        if m.startswith("P") and m[1:].isdigit() and not isinstance(para.parent, nodes.system_message):
            par = para.parent
            if isinstance(par, nodes.document):
                p = 0
            elif isinstance(par, nodes.section):
                p = int(marker_of[id(par)][1:]) if marker_of.get(id(par), "").startswith("T") else -2
            else:
                p = -1
            res[int(m[1:]) - 1] = ["para", p]
    # warnings -> micro indices through the marker on that line of that file
    lines_main = {v: k for k, v in marker_lines(text).items() if k.startswith("T")}
    lines_inc = {fn: {v: k for k, v in marker_lines(c).items() if k.startswith("T")} for fn, c in files.items()}
    wn, other = [], []
    for w in warns:
        if w["tag"] == "myst.header":
            base = os.path.basename(w["src"])
            table = lines_main if base == "doc.md" else lines_inc.get(base, {})
            mk = table.get(w["line"])
            if mk is None and base != "doc.md":
                # line accuracy inside included files is C04's business (known finding there:
                # included lines are reported +1); headings are separated by blank lines, so the
                # preceding line identifies the heading unambiguously
                mk = table.get((w["line"] or 0) - 1)
            wn.append(int(mk[1:]) if mk else -1)
        else:
            other.append(w["tag"] or w["msg"][:40])
    return {"res": res, "warns": sorted(wn), "other": other, "text": text, "files": files, "problems": problems}


def run(ctx):
    quick = ctx.tier == "quick"
    rnd = random.Random(ctx.seed)
    ctx.rule = ("R: every item sequence within the bound (TLC-exported micro events with predicted section parent / rubric level / "
                "paragraph parent / warning set). V: random documents of 5-40 items with nesting depth <= 3. "
                "non-trivial = at least two headings, or a nested heading, or an include")
    ctx.assumptions += ["docutils front end, pre-transform doctree, doctitle_xform off",
                        "the generated Markdown tokenises to the intended blocks (marker words are checked to be present exactly once)"]
    full = {"Levels": {1, 2, 3, 4, 5, 6}, "CLevels": {1, 3}, "Kinds": "<-AllKinds", "Incs": "<-IncsSmall",
            "WithPara": True, "WithNestedInc": False, "DevPruneOff": False, "DevMatchTitles": False}
    honly = {"Levels": {1, 2, 3, 4, 5, 6}, "CLevels": {1}, "Kinds": "<-NoIncs", "Incs": "<-NoIncs",
             "WithPara": False, "WithNestedInc": False, "DevPruneOff": False, "DevMatchTitles": False}
    from .c18 import _cfg
    invs = ["Structure", "Warnings", "Restored", "OpenMap"]
    # ---- T --------------------------------------------------------------------------------
    r = tlc.run("Sections", _cfg(ctx, "s_mc_full.cfg", {**full, "MaxLen": 3 if quick else 4}, invariants=invs),
                wd=ctx.wd, coverage=True, timeout=3000)
    tlc.expect_holds(r, "Sections(full alphabet) M |= S")
    for act in ("HeadingSection", "HeadingRubric", "Para", "OpenC", "CloseC", "EnterInc", "ExitInc"):
        if r.coverage.get(act, (0, 0))[0] == 0:
            raise tlc.MachineryFailure(f"Sections: action {act} never taken (vacuous)")
    ctx.add_tlc("Sections_mc_full", r)
    r = tlc.run("Sections", _cfg(ctx, "s_mc_h.cfg", {**honly, "MaxLen": 5 if quick else 6}, invariants=invs),
                wd=ctx.wd, timeout=3000)
    tlc.expect_holds(r, "Sections(levels only) M |= S")
    ctx.add_tlc("Sections_mc_levels", r)
    rd = tlc.run("Sections", _cfg(ctx, "s_dev.cfg", {**honly, "MaxLen": 4, "DevPruneOff": True, "DevMatchTitles": False}, invariants=["Structure"]), wd=ctx.wd)
    tlc.expect_violation(rd, "Structure", "Sections Dev_PruneOff")
    ctx.add_tlc("Sections_dev_pruneoff", rd, "expected counterexample found (needs e.g. 1,2,1,3)")

    # ---- R --------------------------------------------------------------------------------
    recs = []
    rg = tlc.run("Sections", _cfg(ctx, "s_gen_full.cfg", {**full, "MaxLen": 3 if quick else 4}, invariants=["Emit"]),
                 wd=ctx.wd, timeout=3000)
    ctx.add_tlc("Sections_gen_full", rg)
    recs += rg.records
    rg = tlc.run("Sections", _cfg(ctx, "s_gen_h.cfg", {**honly, "MaxLen": 4 if quick else 6}, invariants=["Emit"]),
                 wd=ctx.wd, timeout=3000)
    ctx.add_tlc("Sections_gen_levels", rg)
    recs += rg.records
    titles = {"Levels": {1, 2, 3}, "CLevels": {1, 3}, "Kinds": "<-TitleKinds", "Incs": "<-NoIncs", "WithPara": True, "WithNestedInc": False,
              "DevPruneOff": False, "DevMatchTitles": False}
    nested = {"Levels": {1, 2, 3}, "CLevels": {1}, "Kinds": "<-NoIncs", "Incs": "<-IncsSmall", "WithPara": False, "WithNestedInc": True,
              "DevPruneOff": False, "DevMatchTitles": False}
    rg = tlc.run("Sections", _cfg(ctx, "s_gen_nested.cfg", {**nested, "MaxLen": 3 if quick else 4}, invariants=invs + ["Emit"]), wd=ctx.wd, timeout=3000)
    tlc.expect_holds(rg, "Sections(nested includes) M |= S")
    ctx.add_tlc("Sections_gen_nested_includes", rg, "an included file that includes a file, with heading offsets on both")
    recs += rg.records
    deep = {"Levels": {1, 2}, "CLevels": {1}, "Kinds": "<-NoIncs", "Incs": "<-IncsDeep", "WithPara": False, "WithNestedInc": False,
            "DevPruneOff": False, "DevMatchTitles": False}
    rg = tlc.run("Sections", _cfg(ctx, "s_gen_deep.cfg", {**deep, "MaxLen": 3}, invariants=invs + ["Emit"]), wd=ctx.wd, timeout=3000)
    tlc.expect_holds(rg, "Sections(deep heading offsets) M |= S")
    ctx.add_tlc("Sections_gen_deep_offsets", rg, "includes whose offset pushes headings to levels 10-12")
    recs += rg.records
    rg = tlc.run("Sections", _cfg(ctx, "s_gen_titles.cfg", {**titles, "MaxLen": 3 if quick else 4}, invariants=invs + ["Emit"]),
                 wd=ctx.wd, timeout=3000)
    tlc.expect_holds(rg, "Sections(match_titles directives, intended) M |= S")
    ctx.add_tlc("Sections_gen_titles", rg, "containers incl. a directive that parses with match_titles=True")
    recs += rg.records
    rd = tlc.run("Sections", _cfg(ctx, "s_dev_titles.cfg", {**titles, "MaxLen": 1, "DevMatchTitles": True}, invariants=["Structure"]), wd=ctx.wd)
    tlc.expect_violation(rd, "Structure", "Sections Dev_MatchTitles")
    ctx.add_tlc("Sections_dev_matchtitles", rd, "expected counterexample found (a heading inside the directive opens a section)")
    seen, cases = set(), []
    for rec in recs:
        key = repr(rec["ev"])
        if key in seen:
            continue
        seen.add(key)
        cases.append({"ev": rec["ev"], "res": rec["res"], "warns": sorted(rec["warns"]), "wd": str(ctx.wd / "docs")})
    outs = pmap(_run_case, cases)
    suspects = []
    for n, (case, o) in enumerate(zip(cases, outs)):
        if _has_titles_heading(case["ev"]) and "error" not in o and not o["problems"] and (o["res"] != case["res"] or o["warns"] != case["warns"]):
            suspects.append((n, case, o))       # decided by the model with the as-built deviation switched on
            continue
        _judge(ctx, case, o, "R")
    _known(ctx, suspects, full, "R")
    ctx.sample({"micro_events": cases[len(cases) // 2]["ev"], "expected": cases[len(cases) // 2]["res"],
                "markdown": outs[len(cases) // 2].get("text")})

    # ---- V --------------------------------------------------------------------------------
    vcases = []
    for t in range(300 if quick else 4000):
        vcases.append({"id": t, "ev": _random_events(rnd), "wd": str(ctx.wd / "docs")})
    vouts = pmap(_run_case, vcases)
    traces = []
    for c, o in zip(vcases, vouts):
        if "error" in o:
            ctx.violation(f"rendering raised {o['error']}", {"leg": "V", "markdown": o["text"], "files": o["files"]})
            continue
        if o["problems"] or -1 in o["warns"]:
            ctx.violation("unexplained section / warning in the rendered tree: " + "; ".join(o["problems"] or ["[myst.header] warning at a line without heading"]),
                          {"leg": "V", "markdown": o["text"], "files": o["files"], "warn_events": o["warns"]})
            continue
        ctx.count(("v", c["id"]))
        traces.append({"id": c["id"], "ev": c["ev"], "res": o["res"], "warns": o["warns"]})
    tf = ctx.wd / "s_traces.ndjson"
    tlc.write_ndjson(tf, traces)
    rv = tlc.run("SectionsTrace", _cfg(ctx, "s_trace.cfg", {**full, "MaxLen": 0}, spec="TraceSpec", invariants=["Verdict"]),
                 wd=ctx.wd, env={"TRACE_FILE": str(tf)}, timeout=3000)
    ctx.add_tlc("SectionsTrace", rv)
    if len(rv.records) != len(traces):
        raise tlc.MachineryFailure(f"SectionsTrace: {len(rv.records)} verdicts for {len(traces)} traces")
    byid = {c["id"]: (c, o) for c, o in zip(vcases, vouts)}
    vsus = []
    for v in rv.records:
        ctx.traces_validated += 1
        if not (v["m"] and v["s"]):
            c, o = byid[v["id"]]
            if _has_titles_heading(c["ev"]):
                vsus.append((v["id"], {"ev": c["ev"], "d": max(v["firstdiff"] - 1, 0)}, o))
                continue
            n = v["firstdiff"]
            ctx.violation("recorded render is not a behaviour of the section model"
                          + (f" (first difference at micro event {n}: {c['ev'][n - 1]}, observed {o['res'][n - 1] if n <= len(o['res']) else None})" if n else " (warning set differs)"),
                          {"leg": "V", "markdown": o["text"], "files": o["files"], "events": c["ev"], "observed": o["res"], "observed_warns": o["warns"]})
    _known(ctx, vsus, full, "V")
    if traces:
        ctx.sample({"trace_events": traces[0]["ev"][:12], "observed": traces[0]["res"][:12]})
    shutil.rmtree(ctx.wd / "docs", ignore_errors=True)
    ctx.exhaustive = True


def _has_titles_heading(ev):
    """signature of the finding C05-match-titles: a heading somewhere inside a match_titles directive"""
    depth = []
    for e in ev:
        if e[0] == "open":
            depth.append(e[1])
        elif e[0] == "close":
            depth.pop()
        elif e[0] == "h" and "titles" in depth:
            return True
    return False


def _known(ctx, suspects, consts, leg):
    """a mismatch with the finding's signature is the KNOWN-FINDING only if the observation is exactly what the model
    predicts with DevMatchTitles on"""
    if not suspects:
        return
    from .c18 import _cfg
    traces = [{"id": n, "ev": case["ev"], "res": o["res"], "warns": o["warns"]} for n, case, o in suspects]
    tf = ctx.wd / f"s_known_{leg}.ndjson"
    tlc.write_ndjson(tf, traces)
    rv = tlc.run("SectionsTrace", _cfg(ctx, f"s_known_{leg}.cfg", {**consts, "MaxLen": 0, "DevMatchTitles": True}, spec="TraceSpec", invariants=["Verdict"]),
                 wd=ctx.wd, env={"TRACE_FILE": str(tf)}, timeout=3000)
    ctx.add_tlc(f"SectionsTrace_dev_matchtitles_{leg}", rv, "mismatches with the finding's signature, validated against the as-built model")
    ok = {v["id"]: v["m"] for v in rv.records}
    for n, case, o in suspects:
        ctx.count(repr(case["ev"]), True)
        ctx.traces_validated += 1
        d = case["d"] if "d" in case else next((i for i, (a, b) in enumerate(zip(o["res"], case["res"])) if a != b), 0)
        msg = (f"a heading inside a directive that parses with match_titles=True opens a section (event {d + 1} {case['ev'][d]}: observed {o['res'][d]})"
               if ok.get(n) else f"section structure differs from the specification and from the as-built model at event {d + 1} {case['ev'][d]}: observed {o['res'][d]}")
        ctx.violation(msg, {"leg": leg, "markdown": o["text"], "files": o["files"], "events": case["ev"], "observed": o["res"]},
                      finding="C05-match-titles" if ok.get(n) else None)


def _judge(ctx, case, o, leg):
    ev = case["ev"]
    nontrivial = sum(1 for e in ev if e[0] == "h") >= 2 or any(e[0] in ("open", "enter") for e in ev)
    ctx.count(repr(ev), nontrivial)
    ctx.traces_validated += 1
    if "error" in o:
        ctx.violation(f"rendering raised {o['error']}", {"leg": leg, "markdown": o["text"], "files": o["files"], "events": ev})
        return
    if o["res"] != case["res"]:
        d = next(i for i, (a, b) in enumerate(zip(o["res"], case["res"])) if a != b)
        ctx.violation(f"section structure differs from the specification at event {d + 1} {ev[d]}: expected {case['res'][d]}, observed {o['res'][d]} "
                      "(section -> parent heading index, 0 = document; rubric -> level; para -> enclosing section)",
                      {"leg": leg, "markdown": o["text"], "files": o["files"], "events": ev, "expected": case["res"], "observed": o["res"]})
        return
    if o["warns"] != case["warns"]:
        ctx.violation(f"[myst.header] warnings differ: expected at heading events {case['warns']}, observed {o['warns']}",
                      {"leg": leg, "markdown": o["text"], "files": o["files"], "events": ev})
        return
    if o["problems"]:
        ctx.violation("; ".join(o["problems"]), {"leg": leg, "markdown": o["text"], "events": ev})


def _random_events(rnd):
    ev = []

    def block(depth, in_inc):
        r = rnd.random()
        if r < 0.45:
            ev.append(["h", rnd.randint(1, 6 if not in_inc else 4)])
        elif r < 0.6:
            ev.append(["p"])
        elif r < 0.85 and depth < 3:
            ev.append(["open", rnd.choice(["quote", "item", "note", "note", "titles"])])
            for _ in range(rnd.randint(1, 3)):
                block(depth + 1, in_inc)
            ev.append(["close"])
        elif not in_inc and depth == 0:
            ev.append(["enter", rnd.randint(0, 3)])
            for _ in range(rnd.randint(1, 3)):
                block(depth, True)
            if rnd.random() < 0.3:          # an include inside the included file
                ev.append(["enter", rnd.randint(0, 2)])
                for _ in range(rnd.randint(1, 2)):
                    block(depth, True)
                ev.append(["exit"])
                if rnd.random() < 0.5:
                    block(depth, True)
            ev.append(["exit"])
        else:
            ev.append(["h", rnd.randint(1, 6)])
    for _ in range(rnd.randint(5, 40)):
        block(0, False)
    return ev


def replay(case) -> int:
    print(__import__("json").dumps(case, indent=1)[:6000])
    return 1
