"""C18 -- inventory loading agrees with Sphinx and is independent of stream chunking.

T  InvReader.tla: every file (valid/invalid/truncated header, any body) x EVERY partition of
   the byte stream into read() results: entry lines = lines of the bytes (chunking-
   independent), byte conservation, error iff the header is invalid, termination.
   InvEntry.tla: loop body of _load_v2 |= "last entry wins, first py:module wins".
R  TLC-exported entry tables serialised in Sphinx's format, loaded through a chunk-limited
   stream under every 2-split (and 1-byte / fixed-size schedules), compared with TLC's
   expected table; M is cross-checked against sphinx.util.inventory.InventoryFile on every
   case (disagreement = machinery failure); to_sphinx/from_sphinx round trip.
   TLC-exported abstract files (header variants, truncations, blank lines) concretised and
   loaded under every partition.
V  larger generated inventories (v1 and v2, odd names, malformed lines), random chunk sizes
   1 byte..64 KiB; each execution's logged reads are validated by InvReaderTrace.
"""
from __future__ import annotations

import io
import itertools
import random
import zlib

from .. import tlc
from ..frontends import c2s, s2c

META = {
    "level": "model_checking",
    "text": "TLC explores the chunked reader model under every partition of the byte stream into reads and the entry-table model against the declarative Sphinx semantics; TLC-generated tables/files are replayed into inventory.load under enumerated chunkings with Sphinx's own loader as cross-check of the model, and recorded executions with random chunk sizes are validated as traces against the reader model.",
    "note": "Streaming zlib decompression is abstracted as a homomorphism over concatenation (the harness's shadow decompressor supplies the released byte counts for traces). Sphinx's InventoryFile is the oracle of the model on every replayed table. Streams return b'' only at the end.",
    "technique": "TLA+ spec + TLC exhaustive check over read schedules; spec-behaviour replay into the code; TLC batch trace validation",
    "specs": ["InvReader", "InvEntry", "InvReaderTrace"],
}

ABS = {"V1Line": "<-AbsV1", "V2Line": "<-AbsV2", "ZMark": "<-AbsZ"}
H1 = "# Sphinx inventory version 1"
H2 = "# Sphinx inventory version 2"
ZL = "# The remainder of this file is compressed using zlib."


class ChunkStream:
    """read(n) returns at most the next scheduled size (>= 1 while data is left)."""

    def __init__(self, data: bytes, sizes):
        self.data, self.pos, self.sizes, self.log = data, 0, iter(sizes), []

    def read(self, n=-1):
        left = len(self.data) - self.pos
        if left == 0:
            self.log.append(0)
            return b""
        k = next(self.sizes, None)
        if k is None:
            k = left
        k = max(1, min(k, left, n if n and n > 0 else left))
        out = self.data[self.pos:self.pos + k]
        self.pos += k
        self.log.append(k)
        return out


def _cfg(ctx, name, consts, **kw):
    # constants given as "<-Op" become substitutions
    path = ctx.wd / name
    plain = {k: v for k, v in consts.items() if not (isinstance(v, str) and v.startswith("<-"))}
    tlc.write_cfg(path, constants=plain, **kw)
    subs = [f"  {k} <- {v[2:]}" for k, v in consts.items() if isinstance(v, str) and v.startswith("<-")]
    if subs:
        txt = path.read_text()
        if "CONSTANTS" in txt:
            txt = txt.replace("CONSTANTS\n", "CONSTANTS\n" + "\n".join(subs) + "\n", 1)
        else:
            txt = "CONSTANTS\n" + "\n".join(subs) + "\n" + txt
        path.write_text(txt)
    return path


def _flat(inv):
    return [(d, t, n, it["loc"], it["text"]) for d, dd in inv["objects"].items()
            for t, td in dd.items() for n, it in td.items()]


def _sphinx_flat(data: bytes):
    from sphinx.util.inventory import InventoryFile
    inv = InventoryFile.loads(data, uri="")
    out = []
    for typ, objs in inv.data.items():
        d, t = typ.split(":", 1)
        for n, item in objs.items():
            disp = item.display_name
            out.append((d, t, n, item.uri, None if (not disp or disp == "-") else disp))
    return out


def run(ctx):
    from myst_parser import inventory as I

    quick = ctx.tier == "quick"
    rnd = random.Random(ctx.seed)
    ctx.rule = ("R: every entry table <= MaxLines over 24 basic entry shapes (<= 3 lines) and all 72 (<= 2 lines) (TLC-exported expected table) x chunk schedules "
                "{whole, every 2-split, 1-byte, fixed 2..7}; every abstract file (header variants, truncations) x every partition. "
                "V: random inventories x random chunk sizes. non-trivial = table has a duplicate key, a malformed line, '$' or a spaced name / file read in > 1 chunk")
    ctx.assumptions += ["streaming zlib decompression is a homomorphism over concatenation",
                        "a stream's read() returns b'' only at end of data",
                        ]

    # ---- T: reader under every read schedule ---------------------------------------
    mb = 6 if quick else 8
    base = {**ABS, "MaxBody": mb, "DevDropCarry": False, "DevKeepLast": False, "DevDropRest": False}
    cfg = _cfg(ctx, "ir_mc.cfg", base, invariants=["Correct", "ErrorIff", "Conserve"], properties=["Terminates"])
    r = tlc.run("InvReader", cfg, wd=ctx.wd, coverage=True, timeout=3000)
    tlc.expect_holds(r, "InvReader M |= S")
    for act in ("TakeLine", "TakeRest", "ReadMore", "V1Last", "BodyChunk", "Split", "Finish"):
        if r.coverage.get(act, (0, 0))[0] == 0:
            raise tlc.MachineryFailure(f"InvReader: action {act} never taken (vacuous)")
    ctx.add_tlc("InvReader_mc", r, f"MaxBody={mb}, every partition into reads")
    cfg = _cfg(ctx, "ir_dev.cfg", {**base, "MaxBody": 2, "DevDropCarry": True}, invariants=["Conserve"])
    rd = tlc.run("InvReader", cfg, wd=ctx.wd)
    tlc.expect_violation(rd, "Conserve", "InvReader Dev_DropCarry")
    ctx.add_tlc("InvReader_dev_dropcarry", rd, "expected counterexample found")
    cfg = _cfg(ctx, "ir_dev2.cfg", {**base, "MaxBody": 2, "DevDropRest": True}, invariants=["Correct"])
    rd = tlc.run("InvReader", cfg, wd=ctx.wd)
    tlc.expect_violation(rd, "Correct", "InvReader Dev_DropRest")
    ctx.add_tlc("InvReader_dev_droprest", rd, "expected counterexample found")

    # ---- T: entry table ---------------------------------------------------------------
    scopes = [("core", 3 if quick else 4), ("all", 2 if quick else 3)]
    rgs = []
    for shapes, ml in scopes:
        cfg = _cfg(ctx, f"ie_mc_{shapes}.cfg", {"MaxLines": ml, "Shapes": shapes, "DevKeepLast": False}, invariants=["SameSet", "NoDupKeys", "Nested", "Emit"])
        r = tlc.run("InvEntry", cfg, wd=ctx.wd, timeout=3000, heap="12g")
        tlc.expect_holds(r, f"InvEntry[{shapes}] M |= S")
        ctx.add_tlc(f"InvEntry_mc_{shapes}", r, f"entry tables <= {ml} lines over the {'24 basic' if shapes == 'core' else '72'} entry shapes")
        rgs += r.records
    cfg = _cfg(ctx, "ie_cov.cfg", {"MaxLines": 2, "Shapes": "core", "DevKeepLast": False}, invariants=["SameSet", "NoDupKeys", "Nested"])
    rcv = tlc.run("InvEntry", cfg, wd=ctx.wd, coverage=True)
    ctx.add_tlc("InvEntry_cov", rcv)
    cfg = _cfg(ctx, "ie_dev.cfg", {"MaxLines": 2, "Shapes": "core", "DevKeepLast": True}, invariants=["SameSet"])
    rd = tlc.run("InvEntry", cfg, wd=ctx.wd)
    tlc.expect_violation(rd, "SameSet", "InvEntry Dev_KeepLast")
    ctx.add_tlc("InvEntry_dev_keeplast", rd, "expected counterexample found")

    # ---- R: entry tables ----------------------------------------------------------------
    class _RG:
        records = rgs
    rg = _RG
    if len(rg.records) < 1000:
        raise tlc.MachineryFailure("InvEntry export too small")
    for idx, rec in enumerate(rg.records):
        _replay_table(ctx, I, rec, idx, rnd, quick)
    ctx.sample({"entry_table": rg.records[len(rg.records) // 2]})

    # ---- R: abstract files x every partition ---------------------------------------------
    cfg = _cfg(ctx, "ir_gen.cfg", {**base, "MaxBody": 4 if quick else 5}, invariants=["Emit"])
    rg = tlc.run("InvReader", cfg, wd=ctx.wd)
    ctx.add_tlc("InvReader_gen", rg)
    seen = set()
    for rec in rg.records:
        key = (tuple(rec["file"]), tuple(rec["body"]), rec["ver"], rec["phase"])
        if key in seen:
            continue
        seen.add(key)
        _replay_file(ctx, I, rec, quick)
    ctx.sample({"abstract_file": rg.records[len(rg.records) // 2]})

    # ---- V: larger inventories, random chunk sizes ------------------------------------------
    traces = []
    n = 150 if quick else 1500
    for t in range(n):
        tr = _random_load(ctx, I, rnd, t)
        if tr:
            traces.append(tr)
    # the extreme end of the schedule quantifier: 1-byte reads on a long header line
    tr = _random_load(ctx, I, rnd, n, long_header=True)
    if tr:
        traces.append(tr)
    tf = ctx.wd / "ir_traces.ndjson"
    tlc.write_ndjson(tf, traces)
    cfg = _cfg(ctx, "ir_trace.cfg", {"V1Line": "<-RealV1", "V2Line": "<-RealV2", "ZMark": "<-RealZ",
                                     "MaxBody": 0, "DevDropCarry": False, "DevKeepLast": False, "DevDropRest": False},
               spec="TraceSpec", invariants=["Verdict"])
    rv = tlc.run("InvReaderTrace", cfg, wd=ctx.wd, env={"TRACE_FILE": str(tf)}, timeout=3000, heap="12g")
    ctx.add_tlc("InvReaderTrace", rv)
    verdicts = {}
    for v in rv.records:
        if v["id"] not in verdicts or not v["ok"]:
            verdicts[v["id"]] = v
    if len(verdicts) != len(traces):
        raise tlc.MachineryFailure(f"InvReaderTrace: {len(verdicts)} verdicts for {len(traces)} traces")
    byid = {t["id"]: t for t in traces}
    for v in verdicts.values():
        ctx.traces_validated += 1
        if not v["ok"]:
            tr = byid[v["id"]]
            ctx.violation(f"recorded load() execution rejected by the reader specification: {v['why']}",
                          {"leg": "V-reader", "why": v["why"], "file_hex": tr["_hex"], "reads": tr["reads"][:50],
                           "result": tr["result"], "lines_returned": len(tr["lines"])})
    ctx.sample({"trace": {k: (v if k != "_hex" else v[:80] + "...") for k, v in traces[0].items() if k not in ("plain", "body", "lines")}})
    _large_leg(ctx, I, rnd, quick)
    _v1_leg(ctx, I)
    ctx.exhaustive = quick


def _v1_leg(ctx, I):
    """format v1: every body of <= 3 lines over {m, n} x {mod, class, function} (repeated names included): the table is
    Sphinx's for the same bytes (in v1 a repeated name is overwritten by the later line, also for modules)"""
    import itertools
    lines = [f"{n} {t} {n}{t[0]}.html" for n in ("m", "n") for t in ("mod", "class", "function")]
    k = 0
    for ln in range(0, 4):
        for combo in itertools.product(range(len(lines)), repeat=ln):
            body = "".join(lines[i].replace(".html", f"{pos}.html") + "\n" for pos, i in enumerate(combo))
            data = f"{H1}\n# Project: P\n# Version: 1\n{body}".encode()
            k += 1
            ctx.count(("v1", body), nontrivial=len({lines[i].split()[0] for i in combo}) < len(combo))
            ctx.traces_validated += 1
            case = {"leg": "R-v1", "file_text": data.decode()}
            try:
                want = sorted(_sphinx_flat(data), key=repr)
            except Exception as e:  # noqa: BLE001
                raise tlc.MachineryFailure(f"Sphinx's loader failed on a v1 file: {e}")
            try:
                got = sorted(_flat(I.load(io.BytesIO(data))), key=repr)
            except Exception as e:  # noqa: BLE001
                ctx.violation(f"load() of a v1 inventory raised {type(e).__name__}: {e}", case)
                continue
            if got != want:
                ctx.violation("v1 inventory: the loaded table differs from Sphinx's for the same bytes", {**case, "got": got, "sphinx": want})
    ctx.leg("R-v1", files=k)


def _large_leg(ctx, I, rnd, quick):
    """inventories beyond one decompression buffer (> 16 KiB of text, also > 16 KiB compressed) under coarse read
    schedules: the table must be Sphinx's for these bytes and the same for every schedule (S: Correct for any chunking;
    these files are too large to enumerate in TLC, the schedules are the ones a file object / HTTP stream produces)"""
    n = 0
    for t in range(3 if quick else 12):
        entries = 700 + 600 * t
        noisy = t % 3 == 2          # names that compress badly: the compressed payload itself exceeds 16 KiB
        lines = []
        for j in range(entries):
            name = (f"mod{j}.func_{rnd.getrandbits(64):x}_{rnd.getrandbits(64):x}" if noisy else f"pkg.module{j}.function")
            lines.append(f"{name} py:function 1 api/{'x' if noisy else 'page'}{j}.html#$ -\n")
        body = "".join(lines).encode()
        data = (f"{H2}\n# Project: Large\n# Version: 1\n{ZL}\n").encode() + zlib.compress(body)
        want = sorted(_sphinx_flat(data), key=repr)
        for size in (None, 4096, 1000, 16384, 5000, 64):
            sizes = [] if size is None else [size] * (len(data) // size + 2)
            n += 1
            ctx.count(("large", t, size))
            ctx.traces_validated += 1
            case = {"leg": "R-large", "entries": entries, "text_bytes": len(body), "file_bytes": len(data), "read_size": size or "whole file"}
            try:
                got = sorted(_flat(I.load(ChunkStream(data, sizes))), key=repr)
            except Exception as e:  # noqa: BLE001
                ctx.violation(f"load() of a {len(data)}-byte inventory ({len(body)} bytes of text) read in pieces of {size or 'the whole file'}: {type(e).__name__}: {e}", case)
                continue
            if got != want:
                ctx.violation(f"load() of a {len(data)}-byte inventory ({len(body)} bytes of text) read in pieces of {size or 'the whole file'}: "
                              f"{len(got)} entries, Sphinx's loader gives {len(want)} for the same bytes", case)
    ctx.leg("R-large", loads=n)


# injective renamings of the model's abstract names / of the type py:func (the model only distinguishes py:module):
# cased names under the types Sphinx itself matches case-insensitively at lookup time -- the TABLE keeps the case
RENAMES = [({}, None),
           ({"m": "M", "m x": "M x"}, ("std", "term")),
           ({"m": "m X", "m x": "m x"}, ("std", "label"))]


def _ren(rec, variant):
    names, ty = RENAMES[variant]
    if ty is None:
        return rec
    def t(x):
        return [ty[0], ty[1], True] if (x[0], x[1]) == ("py", "func") else list(x)
    def k(key):
        d, tt, _ = t([key[0], key[1], True])
        return [d, tt, names[key[2]]]
    def loc(v):
        # "$" was expanded with the name: p.html#<name>
        for a in sorted(names, key=len, reverse=True):
            if v["loc"] == "p.html#" + a:
                return "p.html#" + names[a]
        return v["loc"]
    return {"lines": [{**e, "name": names[e["name"]], "ty": t(e["ty"]), "disp": names.get(e["disp"], e["disp"])} for e in rec["lines"]],
            "res": [{"key": k(v["key"]), "loc": loc(v), "text": names.get(v["text"], v["text"])} for v in rec["res"]]}


def _serialise(lines, unterminated=False):
    """entry records of InvEntry.tla -> (v2 bytes, text lines)"""
    out = []
    for k, e in enumerate(lines, 1):
        dom, typ, colon = e["ty"]
        tfield = f"{dom}:{typ}" if colon else dom
        loc = "" if e["eloc"] else "p.html#" + ("$" if e["dollar"] else f"q{k}")
        out.append(f"{e['name']} {tfield} {(-1) ** k * k} {loc} {'' if e['disp'] == 'E' else e['disp']}\n")
    body = "".join(out)
    if unterminated and body.endswith("\n"):
        body = body[:-1]
    data = f"{H2}\n# Project: Pr oj\n# Version: 1.0\n{ZL}\n".encode() + zlib.compress(body.encode())
    return data, out


def _replay_table(ctx, I, rec, idx, rnd, quick):
    rec = _ren(rec, idx % 3)
    data, text = _serialise(rec["lines"], unterminated=idx % 5 == 4)     # (the last line need not end with a newline)
    exp = [(v["key"][0], v["key"][1], v["key"][2], v["loc"], None if v["text"] == "NONE" else v["text"]) for v in rec["res"]]
    # oracle of the oracle: M must agree with Sphinx's own loader on these bytes
    sph = _sphinx_flat(data)
    if sorted(sph, key=repr) != sorted(exp, key=repr):
        raise tlc.MachineryFailure(f"InvEntry model disagrees with Sphinx's loader on {text!r}: {exp} vs {sph}")
    keys = [(e["ty"][0], e["ty"][1], e["name"]) for e in rec["lines"] if e["ty"][2] and e["disp"] != "E"]
    nontrivial = len(set(keys)) < len(keys) or any(not e["ty"][2] or e["disp"] == "E" or e["dollar"] or e["eloc"] or " " in e["name"] for e in rec["lines"])
    scheds = [[len(data)], [1] * len(data)]
    if idx % 50 == 0:
        scheds += [[k] for k in range(1, len(data))]
        scheds += [[k] * len(data) for k in range(2, 8)]
    else:
        scheds += [[rnd.randint(1, len(data) - 1)], [rnd.randint(1, 9)] * len(data)]
    for sc in scheds:
        st = ChunkStream(data, sc)
        case = {"leg": "R-table", "entry_lines": text, "schedule": sc[:20], "expected": exp, "file_hex": data.hex()}
        try:
            inv = I.load(st)
        except Exception as e:
            ctx.violation(f"load() raised {type(e).__name__}: {e}", case)
            return
        got = _flat(inv)
        ctx.count(("t", "".join(text), tuple(sc[:3]), len(sc)), nontrivial)
        ctx.traces_validated += 1
        # (the order of the nested mapping is the model's for the model's own domains: under a renaming that moves py:func
        # to another DOMAIN the entries are compared as a set, the order clause stays with the unrenamed third)
        if (got != exp) if idx % 3 == 0 else (sorted(got, key=repr) != sorted(exp, key=repr)):
            dup_mod = [k for k in set(keys) if k[:2] == ("py", "module") and keys.count(k) > 1]
            ctx.violation("loaded table differs from the specified one (= Sphinx's) for these bytes",
                          {**case, "got": got}, finding="C18-pymodule-first" if dup_mod else None)
            return
        if (inv["name"], inv["version"]) != ("Pr oj", "1.0"):
            ctx.violation("project name/version differ", {**case, "got_header": (inv["name"], inv["version"])})
            return
    # lossless conversion (an inventory without objects has nowhere to keep its name in Sphinx's format)
    inv = I.load(io.BytesIO(data))
    if _flat(inv):
        back = I.from_sphinx(I.to_sphinx(inv))
        if back != inv:
            ctx.violation("from_sphinx(to_sphinx(inv)) != inv", {"leg": "R-roundtrip", "entry_lines": text, "inv": inv, "back": back})


def _concretise_file(rec):
    """abstract file of InvReader.tla -> real bytes. Abstract header bytes: line 1 <<1>>/<<2>>/<<3>>,
    line 4 contains 2 = zlib marker. Body line of k payload bytes -> the k-th entry shape, unique name."""
    fileb, body, isv2 = rec["file"], rec["body"], None
    # split abstract plain header into lines
    def lines_of(bs):
        out, cur = [], []
        for b in bs:
            if b == 10:
                out.append((cur, True)); cur = []
            else:
                cur.append(b)
        out.append((cur, False))
        return out
    v2 = bool(fileb) and fileb[0] == 2
    hdr_abs = fileb if v2 else fileb[:len(fileb) - len(body)]
    hl = lines_of(hdr_abs)
    real = []
    for i, (ln, nl) in enumerate(hl):
        if i == 0:
            txt = {(): "", (1,): H1, (2,): H2}.get(tuple(ln), "# Sphinx inventory version 9" if ln else "")
        elif i == 1:
            txt = "# Project: " + "P" * len(ln) if ln else ""
        elif i == 2:
            txt = "# Version: " + "7" * len(ln) if ln else ""
        elif i == 3:
            txt = (ZL if 2 in ln else "# not compressed") if ln else ""
        else:
            txt = ""
        if not (txt == "" and not nl and i == len(hl) - 1):
            real.append(txt + ("\n" if nl else ""))
    plain = "".join(real)
    # body lines
    bl = lines_of(body)
    btxt, names = [], []
    for j, (ln, nl) in enumerate(bl):
        if ln:
            name = f"n{j}"
            line = f"{name} mod p{j}.html" if not v2 else f"{name} py:func 1 p.html#$ -"
            names.append(name)
            btxt.append(line + ("\n" if nl else ""))
        else:
            btxt.append("\n" if nl else "")
    btext = "".join(btxt)
    if v2:
        data = plain.encode() + (zlib.compress(btext.encode()) if body else b"")
    else:
        data = plain.encode() + btext.encode()
    return data, v2, plain, btext


def _partitions(n, limit):
    """compositions of n (sizes of consecutive reads); all if 2^(n-1) <= limit else a deterministic slice"""
    if n == 0:
        yield []
        return
    total = 1 << (n - 1)
    step = max(1, total // limit)
    for mask in range(0, total, step):
        sizes, cur = [], 1
        for bit in range(n - 1):
            if mask >> bit & 1:
                sizes.append(cur); cur = 1
            else:
                cur += 1
        sizes.append(cur)
        yield sizes


def _replay_file(ctx, I, rec, quick):
    data, v2, plain, btext = _concretise_file(rec)
    # expected, from the model: error/ok and the entry lines
    exp_err = rec["phase"] == "error"
    exp_names = []
    # model `out` lines -> names: k-th non-empty abstract body line
    # (the abstract lines are identified positionally)
    pos = 0
    body_lines = []
    cur = []
    for b in rec["body"]:
        if b == 10:
            body_lines.append(cur); cur = []
        else:
            cur.append(b)
    rest = cur
    # names the model says are delivered: walk abstract lines in order, matching rec["out"]
    idx_all = [(j, ln) for j, ln in enumerate(body_lines + [rest])]
    out = [list(x) for x in rec["out"]]
    oi = 0
    for j, ln in idx_all:
        if oi < len(out) and ln == out[oi] and (ln or v2):
            if ln:
                exp_names.append(f"n{j}")
            oi += 1
    n = len(data)
    # every partition when the file is short; for longer files split points are enumerated
    # around the structurally interesting region (header end) plus fixed-size schedules
    scheds = [[n]] + [[k] for k in range(1, n)] + [[k] * n for k in (1, 2, 3, 5, 7)]
    for sc in scheds:
        st = ChunkStream(data, sc)
        case = {"leg": "R-file", "file_hex": data.hex(), "schedule": sc[:20], "expected_error": exp_err, "expected_names": exp_names}
        try:
            inv = I.load(st)
            got_err = False
        except ValueError:
            got_err = True
        except Exception as e:
            ctx.violation(f"load() raised {type(e).__name__}: {e} (documented failure is ValueError)", case)
            return
        ctx.count(("f", data.hex(), tuple(sc[:2]), len(sc)), nontrivial=len(sc) > 1)
        ctx.traces_validated += 1
        if got_err != exp_err:
            ctx.violation("load() error/ok outcome differs from the specification", {**case, "got_error": got_err})
            return
        if not got_err:
            got = [x[2] for x in _flat(inv)]
            if got != exp_names:
                ctx.violation("entries depend on the chunking / differ from the lines of the bytes", {**case, "got_names": got})
                return


def _random_load(ctx, I, rnd, t, long_header=False):
    v2 = rnd.random() < 0.7 or long_header
    nlines = rnd.randint(0, 25)
    proj = "P" * 3000 if long_header else rnd.choice(["Proj", "My Project", "p", ""])
    vers = rnd.choice(["1.0", "2", ""])
    lines, names, bad = [], [], 0
    for j in range(nlines):
        name = rnd.choice(["f{}", "mod.f{}", "a b{}", "x${}", "ü{}", "n-{}", "Up{}", "API É{}"]).format(j)
        if v2:
            kind = rnd.random()
            if kind < 0.1:
                lines.append(f"{name} nocolon 1 p.html#$ -\n")           # malformed type: skipped
            elif kind < 0.15:
                lines.append("garbage\n")
            elif kind < 0.2:
                lines.append("\n")
            else:
                typ = rnd.choice(["py:function", "std:label", "std:term", "py:module", "c:macro"])
                loc = rnd.choice(["api.html#$", f"x/{j}.html", "i.html#a-$", "", "$"])
                disp = rnd.choice(["-", "Display Name", "a  b"])
                lines.append(f"{name} {typ} {rnd.choice([1, -1, 0, 2])} {loc} {disp}\n")
                names.append(j)
        else:
            if rnd.random() < 0.1:
                lines.append("\n")
            else:
                lines.append(f"{name.replace(' ', '_')} {rnd.choice(['mod', 'function', 'class'])} p{j}.html\n")
                names.append(j)
    btext = "".join(lines)
    if t % 4 == 3 and btext.endswith("\n"):
        btext = btext[:-1]          # the last line need not be terminated
    if v2:
        plain = f"{H2}\n# Project: {proj}\n# Version: {vers}\n{ZL}\n"
        comp = zlib.compress(btext.encode(), rnd.choice([1, 6, 9]))
        data = plain.encode() + comp
    else:
        plain = f"{H1}\n# Project: {proj}\n# Version: {vers}\n"
        comp = b""
        data = plain.encode() + btext.encode()
    mode = rnd.random()
    if long_header:
        sizes = [1] * len(data)
    elif mode < 0.3:
        sizes = [rnd.randint(1, 4) for _ in range(len(data))]
    elif mode < 0.6:
        sizes = [rnd.choice([1, 7, 64, 300, 65536]) for _ in range(len(data))]
    else:
        k = rnd.choice([1, 2, 3, 16, 100, 1000, 16384])
        sizes = [k] * len(data)
    st = ChunkStream(data, sizes)
    case = {"leg": "V-reader", "file_hex": data.hex()[:4000], "sizes": sizes[:30]}
    try:
        inv = I.load(st)
        result = "ok"
    except ValueError:
        result, inv = "error", None
    except Exception as e:
        ctx.violation(f"load() raised {type(e).__name__} under a {'1-byte' if long_header else 'random'} read schedule"
                      f"{' on a 3000-byte header line' if long_header else ''}", case,
                      finding="C18-readline-recursion" if isinstance(e, RecursionError) else None)
        return None
    ctx.count(("v", t), nontrivial=len(st.log) > 2)

    def isentry(ln):
        if not ln.strip():
            return False
        if v2:
            return " nocolon " not in ln and ln != "garbage\n"
        return True
    # reads: (plain k, compressed j, released d) per logged read, from a shadow decompressor
    reads, pos = [], 0
    dec = zlib.decompressobj()
    pl = len(plain.encode()) if v2 else len(data)
    for k in st.log:
        if k == 0:
            reads.append([0, 0, 0])
            continue
        kp = max(0, min(pl, pos + k) - pos) if pos < pl else 0
        cj = k - kp
        d = 0
        if cj:
            outb = dec.decompress(data[pos + kp:pos + k])
            if pos + k == len(data):
                outb += dec.flush()
            d = len(outb)
        reads.append([kp, cj, d])
        pos += k
    tr = {"id": t, "v2": v2, "plain": list(plain.encode()) if v2 else list(data), "body": list(btext.encode()), "clen": len(comp),
          "reads": reads, "result": result, "lines": [], "skipped": [],
          "proj": list(proj.encode()), "vers": list(vers.encode()), "_hex": data.hex()[:400]}
    if result == "ok":
        # observation: the source lines of the entries load() returned (names are unique per
        # line), in source order; malformed lines are delivered by the reader but skipped by
        # the entry parser, so the model is told which delivered lines cannot be observed
        got_names = [x[2] for x in _flat(inv)]
        returned = set(got_names)
        tr["lines"] = [list(ln.rstrip("\n").encode()) for ln in lines if isentry(ln) and _name_of(ln, v2) in returned]
        tr["skipped"] = [list(ln.rstrip("\n").encode()) for ln in lines if ln.strip() and not isentry(ln)]
        if len(returned) != len(got_names) or len(tr["lines"]) != len(got_names):
            ctx.violation("load() returned entries that are not lines of the file (or duplicated some)",
                          {**case, "got_names": got_names})
            return None
        if (inv["name"], inv["version"]) != (proj, vers):
            pass  # decided by the trace spec (hdr fields)
        tr["proj"], tr["vers"] = list(inv["name"].encode()), list(inv["version"].encode())
    return tr


def _name_of(ln, v2):
    import re
    if v2:
        m = re.match(r"(?x)(.+?)\s+(\S+)\s+(-?\d+)\s+?(\S*)\s+(.*)", ln.rstrip())
        return m.group(1) if m else None
    return ln.split(None, 2)[0]


def replay(case) -> int:
    print(__import__("json").dumps(case, indent=1)[:4000])
    print("re-run: ./check C18 --tier quick (cases are deterministic for a fixed VERIF_SEED)")
    return 1
