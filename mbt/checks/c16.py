"""C16 -- HTML-to-AST parser: total, tree-consistent, exact round trip on well-formed HTML.

T  HtmlAst.tla: the stack machine (one action per HTMLParser handler event) |= TreeConsistent,
   Preorder, StackOK, NoCrash, OnlyTagsHaveKids, RoundTrip (balanced sequences), FindOrder
   for every event sequence within the bound; Dev_PopRoot regression (Tree(name=X) + </X>).
R  every TLC behaviour (event sequence + predicted tree, rendering, strip and find results)
   concretised to canonical HTML and replayed through tokenize_html, str(), walk(), parent,
   strip(inplace/recurse), deepcopy, find(name/class/type).
V  markup soup and grammar HTML: events from an independent stdlib HTMLParser subclass, tree
   from tokenize_html; validated by HtmlAstTrace.  Totality on every string.
"""
from __future__ import annotations

import random
import traceback
from html.parser import HTMLParser

from .. import tlc
from ..pool import pmap

META = {
    "level": "model_checking",
    "text": "TLC checks the HTML stack-machine model (children lists and parent pointers both in the state) for tree consistency, stack discipline, absence of crashes and exact round trip on balanced event sequences, for every event sequence within the bound; every behaviour is replayed through tokenize_html and the Element API (render, walk, strip, deepcopy, find), and soup/grammar inputs are validated as traces by TLC.",
    "note": "Bound: event sequences <= 4 over 18 events and <= 5 (quick) / 6 (thorough) over 9 structural events, replayed; thorough adds TLC-only runs one level deeper (<= 5 / <= 7); names a, b, img (void). 'Well-formed' is the module's own serialisation convention (lower-case names, one space, double-quoted values). The stdlib tokenizer (html.parser) is trusted to produce the events; marked sections (<![...) are outside the canonical language.",
    "technique": "TLA+ spec + TLC exhaustive check; spec-behaviour replay into the code; TLC batch trace validation",
    "specs": ["HtmlAst", "HtmlAstTrace"],
}

ATTR_TEXT = {0: "", 1: ' class="c"', 2: ' class="c d" id="i"', 3: ' alt=""'}
ATTR_OF = {(): 0, (("class", "c"),): 1, (("class", "c d"), ("id", "i")): 2, (("alt", ""),): 3}
TERM = {"comment": "<!--x-->", "decl": "<!DOCTYPE x>", "pi": "<?x>", "char": "&#38;", "entity": "&amp;"}
FULL = ([["start", "a", 0], ["start", "a", 1], ["start", "b", 2], ["start", "img", 3], ["start", "img", 1],
         ["startend", "a", 0], ["startend", "b", 1], ["end", "a"], ["end", "b"], ["end", "img"],
         ["data", "t"], ["data", "w"]] + [[k] for k in TERM])
STRUCT = [["start", "a", 0], ["start", "b", 1], ["start", "img", 0], ["end", "a"], ["end", "b"], ["end", "img"],
          ["data", "t"], ["data", "w"], ["startend", "a", 3]]


def ev_text(e) -> str:
    k = e[0]
    if k == "start":
        return f"<{e[1]}{ATTR_TEXT[e[2]]}>"
    if k == "startend":
        return f"<{e[1]}{ATTR_TEXT[e[2]]}/>"
    if k == "end":
        return f"</{e[1]}>"
    if k == "data":
        return "tx" if e[1] == "t" else " \n"
    return TERM[k]


def tok_text(t) -> str:
    k = t[0]
    if k == "open":
        return f"<{t[1]}{ATTR_TEXT[t[2]]}>"
    if k == "selfclose":
        return f"<{t[1]}{ATTR_TEXT[t[2]]}/>"
    if k == "close":
        return f"</{t[1]}>"
    if k == "data":
        return "tx" if t[1] == "t" else " \n"
    return TERM[k]


class _Events(HTMLParser):
    """independent event recorder (the harness's own subclass of the stdlib parser)"""

    def __init__(self, intern=None):
        super().__init__(convert_charrefs=False)
        self.out = []
        self.intern = intern

    def _a(self, attrs):
        key = tuple((k, v) for k, v in dict(attrs).items())
        if self.intern is None:
            return ATTR_OF.get(key, 9)
        return self.intern.setdefault(key, len(self.intern))

    def handle_starttag(self, tag, attrs):
        self.out.append(["start", tag, self._a(attrs)])

    def handle_startendtag(self, tag, attrs):
        self.out.append(["startend", tag, self._a(attrs)])

    def handle_endtag(self, tag):
        self.out.append(["end", tag])

    def handle_data(self, data):
        self.out.append(["data", "w" if data.strip() == "" else "t"])

    def handle_comment(self, data):
        self.out.append(["comment"])

    def handle_decl(self, decl):
        self.out.append(["decl"])

    def unknown_decl(self, data):
        self.out.append(["decl"])

    def handle_pi(self, data):
        self.out.append(["pi"])

    def handle_charref(self, name):
        self.out.append(["char"])

    def handle_entityref(self, name):
        self.out.append(["entity"])


def project(root, intern=None):
    """real tree -> (nodes, kids, par) with ids in walk (document) order; raises ValueError
    when walk() and the parent pointers do not describe one tree"""
    from myst_parser.parsers import parse_html as H
    order = list(root.walk(include_self=True))
    ids = {}
    for n, el in enumerate(order):
        if id(el) in ids:
            raise ValueError("walk() yields an element twice")
        ids[id(el)] = n
    nodes, par = [], []
    kids = [[] for _ in order]
    for n, el in enumerate(order):
        ch = []
        for c in el.children:
            if id(c) not in ids:
                raise ValueError("child not reached by walk()")
            ch.append(ids[id(c)])
        kids[n] = ch
        if n == 0:
            continue
        p = el.parent
        par.append(ids.get(id(p), -1) if p is not None else -1)
        kind = type(el).__name__
        if isinstance(el, H.TerminalElement):
            d = ("w" if el.data.strip() == "" else "t") if isinstance(el, H.Data) else "x"
            nodes.append({"k": kind, "n": "", "a": 0, "d": d})
        else:
            key = tuple((k, v) for k, v in el.attrs.items())
            a = ATTR_OF.get(key, 9) if intern is None else intern.setdefault(key, len(intern))
            nodes.append({"k": kind, "n": el.name, "a": a, "d": ""})
    return nodes, kids, par


def _replay(rec):
    from myst_parser.parsers import parse_html as H
    evs = rec["evs"]
    text = "".join(ev_text(e) for e in evs)
    rec_ev = _Events()
    try:
        rec_ev.feed(text)
    except Exception:
        return {"miss": True}
    if rec_ev.out != evs:
        return {"miss": True}       # the canonical text does not tokenise to these events (e.g. "</img>" is dropped by nobody; data merging)
    bad = []
    try:
        root = H.tokenize_html(text)
        nodes, kids, par = project(root)
    except Exception as e:  # noqa: BLE001
        return {"miss": False, "bad": [f"tokenize_html/walk raised {type(e).__name__}: {e}"], "text": text}
    if rec["st"] != "run":
        return {"miss": False, "bad": [f"model predicts a crash, implementation returned a tree"], "text": text}
    if nodes != rec["nodes"]:
        bad.append(f"elements differ: expected {rec['nodes']}, observed {nodes}")
    if kids != [list(k) for k in rec["kids"]]:
        bad.append(f"children lists differ: expected {rec['kids']}, observed {kids}")
    if par != list(rec["par"]):
        bad.append(f"parent pointers differ: expected {rec['par']}, observed {par}")
    want = "".join(tok_text(t) for t in rec["render"])
    if str(root) != want:
        bad.append(f"render: expected {want!r}, observed {str(root)!r}")
    if rec["balanced"] and str(root) != text:
        bad.append(f"round trip: input {text!r} rendered as {str(root)!r}")
    order = list(root.walk(include_self=True))
    ids = {id(e): n for n, e in enumerate(order)}

    def fid(it):
        return [ids.get(id(e), -1) for e in it]
    if fid(root.find("a")) != list(rec["finda"]):
        bad.append(f"find('a'): expected {rec['finda']}, observed {fid(root.find('a'))}")
    if fid(root.find("a", classes=["c"])) != list(rec["findc"]):
        bad.append(f"find('a', classes=['c']): expected {rec['findc']}, observed {fid(root.find('a', classes=['c']))}")
    if fid(root.find("a", classes=["c", "d"])) != list(rec["findcd"]) or fid(root.find("a", classes=("d", "c"))) != list(rec["findcd"]):
        bad.append(f"find('a', classes=['c', 'd']): expected {rec['findcd']} (all of the classes), observed {fid(root.find('a', classes=['c', 'd']))}")
    if fid(root.find("a", classes=[])) != list(rec["finde"]):
        bad.append(f"find('a', classes=[]): expected {rec['finde']}, observed {fid(root.find('a', classes=[]))}")
    # find() on an element (the first <a>, or the root), the four combinations of include_self x recurse
    try:
        e0 = order[rec["firsta"]] if rec["firsta"] else root
    except IndexError:      # (the tree has fewer elements than the model's: reported above as differing elements)
        e0 = None
    for j, (incl, rc_) in enumerate(((True, True), (True, False), (False, True), (False, False)) if e0 is not None else ()):
        got_ = fid(e0.find("a", include_self=incl, recurse=rc_))
        if got_ != list(rec["findon"][j]):
            bad.append(f"find('a', include_self={incl}, recurse={rc_}) on element {rec['firsta']}: expected {list(rec['findon'][j])}, observed {got_}")
    if fid(root.find(H.Data)) != list(rec["findd"]):
        bad.append(f"find(Data): expected {rec['findd']}, observed {fid(root.find(H.Data))}")
    if fid(root.find("a", attrs={"class": "c"})) != [i for i in rec["finda"] if rec["nodes"][i - 1]["a"] == 1]:
        bad.append("find('a', attrs={'class': 'c'}) differs")
    # strip / deepcopy never alter the original
    before = (nodes, kids, par, str(root))
    for recurse, key in ((False, "strip0"), (True, "strip1")):
        want = "".join(tok_text(t) for t in rec[key])
        try:
            cp = root.strip(inplace=False, recurse=recurse)
            got = str(cp)
            project(cp)
        except Exception as e:  # noqa: BLE001
            bad.append(f"strip(recurse={recurse}) raised {type(e).__name__}: {e}")
            continue
        if got != want:
            bad.append(f"strip(inplace=False, recurse={recurse}): expected {want!r}, observed {got!r}")
        after = (*project(root), str(root))
        if after != before:
            bad.append(f"strip(inplace=False, recurse={recurse}) altered the original: {before[3]!r} -> {after[3]!r}")
    try:
        cp = root.deepcopy()
        cn = project(cp)
        if (cn[0], cn[1], cn[2], str(cp)) != before:
            bad.append("deepcopy() is not an equal tree")
        if any(id(e) in ids for e in cp.walk(include_self=True)):
            bad.append("deepcopy() shares elements with the original")
        # ... and no attribute mapping either: editing the copy's attributes leaves the original as it was
        orig_attrs = {id(e.attrs) for e in root.walk(include_self=True) if hasattr(e, "attrs")}
        cp2 = root.deepcopy()
        for e in cp2.walk(include_self=True):
            if hasattr(e, "attrs"):
                if id(e.attrs) in orig_attrs:
                    bad.append("deepcopy() shares an attribute mapping with the original")
                    break
                e.attrs["data-copy"] = "1"
                e.attrs.pop("class", None)
        if (*project(root), str(root)) != before:
            bad.append("editing the attributes of a deepcopy() altered the original")
        for recurse in (False, True):
            cps = root.strip(inplace=False, recurse=recurse)
            for e in cps.walk(include_self=True):
                if hasattr(e, "attrs"):
                    e.attrs["data-copy"] = "2"
            if (*project(root), str(root)) != before:
                bad.append(f"editing the attributes of strip(inplace=False, recurse={recurse})'s result altered the original")
        for recurse, key in ((True, "strip1"),):
            cp.strip(inplace=True, recurse=recurse)
            if str(cp) != "".join(tok_text(t) for t in rec[key]):
                bad.append("strip(inplace=True, recurse=True) on the copy differs from the model")
        if (*project(root), str(root)) != before:
            bad.append("deepcopy()/strip on the copy altered the original")
    except Exception as e:  # noqa: BLE001
        bad.append(f"deepcopy raised {type(e).__name__}: {e}")
    return {"miss": False, "bad": bad, "text": text}


# ------------------------------------------------------------------ V
SOUP = ["<", ">", "/", "a", "b", "img", "br", "div", "p", " ", "\n", '"', "'", "=", "class", "&", "#", ";", "amp", "x", "!",
        "--", "?", "[", "]", "<a>", "</a>", "<b>", "</b>", "<img>", "<br/>", "<p>", "</p>", "<div class=\"x\">", "</div>",
        "<!--", "-->", "<!DOCTYPE", "<?", "&#3", "&lt;", "<A HREF='x'>", "</A>", "<script>", "</script>", "<style>", "text",
        "<![CDATA[", "]]>", "<![", "<a b=c d>", "<a\n", "&#x1F;", "&nosuch;", "<input disabled>", "</img>", "</br>"]


def gen_soup(rnd):
    return "".join(rnd.choice(SOUP) for _ in range(rnd.randint(0, 14)))


def gen_html(rnd, depth=0):
    out = []
    for _ in range(rnd.randint(0, 4)):
        r = rnd.random()
        if r < 0.3 and depth < 4:
            n = rnd.choice(["div", "p", "span", "a", "ul", "li", "em"])
            at = rnd.choice(["", ' class="x y"', ' id="q" title="a b"', ' href="http://e.x/?a=1"'])
            out.append(f"<{n}{at}>{gen_html(rnd, depth + 1)}</{n}>")
        elif r < 0.4:
            out.append(rnd.choice(['<img src="a.png">', "<br>", '<hr class="z">', '<input type="text">', '<x-tag a="1"/>']))
        elif r < 0.7:
            out.append(rnd.choice(["text", " ", "\n  ", "a b c", "émoji ☃"]))
        elif r < 0.8:
            out.append(rnd.choice(["<!-- c -->", "<!DOCTYPE html>", "<?php x ?>", "&amp;", "&#169;", "&#xA9;"]))
        else:
            out.append(rnd.choice(["</p>", "<p>", "</div>", "<b>", "</nosuch>"]))
    return "".join(out)


def _trace(job):
    from myst_parser.parsers import parse_html as H
    tid, text = job
    intern = {(): 0}
    ev = _Events(intern)
    try:
        ev.feed(text)
    except BaseException as e:  # the stdlib parser itself fails on this text
        ev_exc = e
    else:
        ev_exc = None
    try:
        root = H.tokenize_html(text)
    except BaseException as e:  # noqa: BLE001
        frames = [f.name for f in traceback.extract_tb(e.__traceback__)]
        return {"id": tid, "text": text, "exc": type(e).__name__, "frames": frames[-3:]}
    if ev_exc is not None:
        return {"id": tid, "text": text, "skip": True}
    try:
        nodes, kids, par = project(root, intern)
    except ValueError as e:
        return {"id": tid, "text": text, "inconsistent": str(e)}
    return {"id": tid, "text": text, "evs": ev.out, "nodes": nodes, "kids": kids, "par": par,
            "walk_ok": True}


def _known_marked_section(o):
    return o.get("exc") == "AssertionError" and "<![" in o["text"] and "parse_marked_section" in o.get("frames", [])


# well-formed documents whose VALUES go beyond the model's alphabet: RoundTrip (S) says str(tokenize_html(t)) == t.
# The model abstracts attribute values and text to tokens it renders back unchanged; these documents bind that abstraction.
WELLFORMED = [
    '<button onclick="show(\'help\')" title="what\'s this">?</button>', '<p data-rule="a > b">x</p>', '<p data-rule="a < b">x</p>',
    '<img src="plot.png?w=100& h=50" alt="plot">', '<a href="?a=1&b=2">x</a>', '<a title="x=y; z: {w}">x</a>', '<a title="">x</a>',
    '<a title=" lead trail ">x</a>', '<a title="tab\there">x</a>', '<a title="nl\nhere">x</a>',
    # line ends are content: CR and CRLF stay as written (in text, comments, attribute values)
    '<!DOCTYPE html>\r\n<div>\r\n<p>a</p>\r\n</div>\r\n', '<!-- a\rb --><img src="a.png" alt="two\rlines">', '<p>a\rb</p>', '<p>x\r</p>',
    'text\r\n<br>\r\nmore', '<ul>\n  <li>a</li>\n\t<li>b</li>\n</ul>\n',
]
# open finding C16-attr-charref: a character / entity reference inside an attribute value is decoded by the stdlib parser
# and written back decoded
WELLFORMED_CHARREF = ['<a title="a &amp; b">x</a>', '<a title="q&quot;q">x</a>', '<a href="?a=1&amp;b=2">x</a>', '<i title="&#169; 2020">c</i>']


def wellformed_leg(ctx):
    from myst_parser.parsers import parse_html as H
    for text, fid in [(t, None) for t in WELLFORMED] + [(t, "C16-attr-charref") for t in WELLFORMED_CHARREF]:
        ctx.count(("wf", text))
        ctx.traces_validated += 1
        case = {"leg": "R-wellformed", "html": text}
        try:
            root = H.tokenize_html(text)
            got = str(root)
            cp = str(root.deepcopy())
        except Exception as e:  # noqa: BLE001
            ctx.violation(f"tokenize_html({text!r}) raised {type(e).__name__}: {e}", case)
            continue
        if got != text:
            ctx.violation(f"rendering the tree of well-formed HTML does not reproduce the input: {text!r} -> {got!r}", {**case, "rendered": got}, finding=fid)
        elif cp != text:
            ctx.violation(f"a copy of the tree renders differently: {cp!r}", case)
    ctx.leg("R-wellformed", documents=len(WELLFORMED) + len(WELLFORMED_CHARREF))


def run(ctx):
    quick = ctx.tier == "quick"
    rnd = random.Random(ctx.seed + 16)
    ctx.rule = ("R: every event sequence <= MaxEv over the event alphabet (each prefix is a behaviour; adjacent data events excluded). "
                "V: markup soup and grammar HTML. non-trivial = at least one element event (start/startend/end)")
    ctx.assumptions += ["html.parser.HTMLParser produces the event stream (trusted); the harness records it with its own subclass",
                        "canonical spelling: lower-case names, double-quoted values, one space between attributes"]
    invs = ["TreeConsistent", "Preorder", "StackOK", "NoCrash", "OnlyTagsHaveKids", "RoundTrip", "FindOrder", "Emit"]
    void = {"area", "base", "br", "col", "embed", "hr", "img", "input", "link", "meta", "param", "source", "track", "wbr"}

    def consts(maxev, rootname="", dev=False):
        return {"Events": "<-EventsV", "Void": void, "MaxEv": maxev, "RootName": rootname, "DevPopRoot": dev}

    def defs(evset):
        return {"EventsV": "{" + ", ".join(tlc.tla_expr(e) for e in evset) + "}"}
    recs = []
    scopes = [("full", FULL, 4, True), ("struct", STRUCT, 5 if quick else 6, True)]
    if not quick:
        # one level deeper for TLC alone: the behaviours are checked against S but not exported (their replay would not fit in memory)
        scopes += [("full5", FULL, 5, False), ("struct7", STRUCT, 7, False)]
    for name, evset, n, emit in scopes:
        r = tlc.run("HtmlAst", tlc.cfg(ctx, f"ha_{name}.cfg", consts(n), invariants=invs if emit else invs[:-1]), wd=ctx.wd,
                    coverage=False, timeout=6000, defs=defs(evset), heap="16g")
        tlc.expect_holds(r, f"HtmlAst[{name}] M |= S")
        ctx.add_tlc(f"HtmlAst_{name}", r, f"{len(evset)} events, sequences <= {n}" + ("" if emit else " (TLC only, not replayed)"))
        if emit and len(r.records) != r.distinct:
            raise tlc.MachineryFailure(f"HtmlAst[{name}]: {len(r.records)} behaviours exported for {r.distinct} states")
        recs += r.records
    r = tlc.run("HtmlAst", tlc.cfg(ctx, "ha_cov.cfg", consts(3), invariants=invs[:-1]), wd=ctx.wd, coverage=True, defs=defs(FULL))
    if max(r.coverage.get("Step", (0, 0))[0], r.coverage.get("Next", (0, 0))[0]) == 0:
        raise tlc.MachineryFailure("HtmlAst: Step never taken")
    ctx.add_tlc("HtmlAst_cov", r)
    rd = tlc.run("HtmlAst", tlc.cfg(ctx, "ha_dev.cfg", consts(3, "a", True), invariants=["NoCrash"]), wd=ctx.wd, defs=defs(STRUCT))
    tlc.expect_violation(rd, "NoCrash", "HtmlAst Dev_PopRoot")
    ctx.add_tlc("HtmlAst_dev_poproot", rd, "expected counterexample found (Tree(name='a'), '</a>', next event)")
    # the same alphabet with a root that has an element's name: the root is never popped
    r = tlc.run("HtmlAst", tlc.cfg(ctx, "ha_root.cfg", consts(4 if quick else 5, "a"), invariants=invs), wd=ctx.wd, defs=defs(STRUCT))
    tlc.expect_holds(r, "HtmlAst[root named a] M |= S")
    ctx.add_tlc("HtmlAst_rootname", r)
    named = r.records

    # ---- R ----------------------------------------------------------------------------------
    seen = set()
    uniq = []
    for rec in recs:
        k = repr(rec["evs"])
        if k not in seen:
            seen.add(k)
            uniq.append(rec)
    outs = pmap(_replay, uniq, chunksize=256)
    miss = 0
    for rec, o in zip(uniq, outs):
        if o["miss"]:
            miss += 1
            continue
        ctx.traces_validated += 1
        ctx.count(repr(rec["evs"]), nontrivial=any(e[0] in ("start", "startend", "end") for e in rec["evs"]))
        if o["bad"]:
            ctx.violation(f"tokenize_html({o['text']!r}): " + "; ".join(o["bad"][:3]),
                          {"leg": "R", "text": o["text"], "events": rec["evs"], "problems": o["bad"]})
    ctx.gen_miss = miss
    if miss > len(uniq) * 0.5:
        raise tlc.MachineryFailure(f"HtmlAst R: {miss} of {len(uniq)} behaviours could not be concretised")
    mid = uniq[len(uniq) // 2]
    ctx.sample({"events": mid["evs"], "html": "".join(ev_text(e) for e in mid["evs"]), "render": "".join(tok_text(t) for t in mid["render"])})
    # named root: tokenize_html(text, name="a")
    from myst_parser.parsers import parse_html as H
    nn = 0
    for rec in named:
        text = "".join(ev_text(e) for e in rec["evs"])
        ev = _Events()
        ev.feed(text)
        if ev.out != rec["evs"]:
            continue
        nn += 1
        try:
            root = H.tokenize_html(text, name="a")
            nodes, kids, par = project(root)
            ok = nodes == rec["nodes"] and kids == [list(k) for k in rec["kids"]] and par == list(rec["par"])
            msg = "tree differs from the model"
        except Exception as e:  # noqa: BLE001
            ok, msg = False, f"raised {type(e).__name__}: {e}"
        ctx.count(("named", text))
        ctx.traces_validated += 1
        if not ok:
            ctx.violation(f"tokenize_html({text!r}, name='a'): {msg}", {"leg": "R-named", "text": text, "root_name": "a"})
    # the model's rule for void elements (a start tag opens nothing) for EVERY void element name of HTML, not only the
    # one in the event vocabulary
    for v in sorted(void):
        text = f'<div><{v} k="1"><{v}>t</div>'
        ctx.count(("void", v))
        ctx.traces_validated += 1
        try:
            root = H.tokenize_html(text)
            els = list(root.find(v))
            ok = str(root) == text and len(els) == 2 and all(len(list(e)) == 0 for e in els) and all(e.parent is not None and e.parent.name == "div" for e in els)
            msg = f"rendered {str(root)!r}; {len(els)} <{v}> element(s), children {[len(list(e)) for e in els]}"
        except Exception as e:  # noqa: BLE001
            ok, msg = False, f"raised {type(e).__name__}: {e}"
        if not ok:
            ctx.violation(f"tokenize_html({text!r}): a void element must not enclose what follows it and must round-trip: {msg}", {"leg": "R-void", "text": text})
    ctx.leg("R", behaviours=len(uniq), not_concretisable=miss, named_root=nn, void_names=len(void))
    wellformed_leg(ctx)

    # ---- V ----------------------------------------------------------------------------------
    n = 3000 if quick else 60000
    jobs = [(t, gen_soup(rnd) if t % 2 else gen_html(rnd)) for t in range(n)]
    outs = pmap(_trace, jobs, chunksize=256)
    traces = []
    nskip = 0
    for o in outs:
        ctx.count(("v", o["text"]))
        if "exc" in o:
            ctx.violation(f"tokenize_html({o['text']!r}) raised {o['exc']} (in {o['frames']})", {"leg": "V", "text": o["text"]},
                          finding="C16-marked-section-assert" if _known_marked_section(o) else None)
        elif "inconsistent" in o:
            ctx.violation(f"tokenize_html({o['text']!r}): tree is inconsistent: {o['inconsistent']}", {"leg": "V", "text": o["text"]})
        elif o.get("skip"):
            nskip += 1
        else:
            traces.append({k: o[k] for k in ("id", "evs", "nodes", "kids", "par")})
    tf = ctx.wd / "ha_traces.ndjson"
    tlc.write_ndjson(tf, traces)
    rv = tlc.run("HtmlAstTrace", tlc.cfg(ctx, "ha_trace.cfg", consts(100000), spec="TraceSpec",
                                         invariants=["Verdict", "TreeConsistent", "StackOK", "NoCrash"]),
                 wd=ctx.wd, env={"TRACE_FILE": str(tf)}, timeout=3000, defs=defs(STRUCT))
    tlc.expect_holds(rv, "HtmlAstTrace invariants")
    ctx.add_tlc("HtmlAstTrace", rv)
    if len(rv.records) != len(traces):
        raise tlc.MachineryFailure(f"HtmlAstTrace: {len(rv.records)} verdicts for {len(traces)} traces")
    text_of = {o["id"]: o["text"] for o in outs}
    for v in rv.records:
        ctx.traces_validated += 1
        if not (v["nodes"] and v["kids"] and v["par"] and v["consistent"]):
            what = [k for k in ("nodes", "kids", "par", "consistent") if not v[k]]
            ctx.violation(f"tokenize_html({text_of[v['id']]!r}): observed tree is not the model's tree for the same events ({what} differ)",
                          {"leg": "V", "text": text_of[v["id"]]})
    ctx.leg("V", traces=len(traces), stdlib_parser_failed=nskip)
    ctx.exhaustive = True


def replay(case) -> int:
    c = case.get("case", case)
    from myst_parser.parsers import parse_html as H
    print("text:", repr(c["text"]))
    try:
        root = H.tokenize_html(c["text"], name=c.get("root_name", ""))
        print("tree:", [repr(e) for e in root.walk(include_self=True)])
        print("render:", repr(str(root)))
    except BaseException as e:  # noqa: BLE001
        print("raised", type(e).__name__, e)
    print("clause:", case.get("clause"))
    return 1
