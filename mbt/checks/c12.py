"""C12 -- Sphinx cross-document links resolve to the right URI or warn exactly once.

T  XRef.tla: classification in the Sphinx renderer (file exists -> doc / download, else
   'any'), resolution in MystReferenceResolver (slug table of the TARGET document,
   docname_join, std labels) and the relative-URI arithmetic (M) |= RightUri, TextKept,
   RoundTrip for every project (subset of a 5-document universe in directories of depth
   0-2) x source document x link (8 spellings x anchors x text forms); Dev regressions.
R  one Sphinx project per subset of documents, every source document carrying all of its
   links (unique markers); html builder; reference nodes of the resolved doctrees and the
   build's warnings compared with M; the expected fragment is "an id of the intended
   heading's section", read from the target's doctree.
V  random larger projects (more directories, duplicate headings, more documents), validated
   by XRefTrace.
"""
from __future__ import annotations

import itertools
import os
import random
import re
import shutil
from pathlib import Path

from .. import tlc
from ..pool import pmap

META = {
    "level": "model_checking",
    "text": "TLC checks the cross-document link model (destination classification in the Sphinx renderer, resolution through the target document's slug table / docname_join / std labels, relative-URI arithmetic) against the declarative target of every link for every project within the bound; one Sphinx project per document subset is built with the html builder and every link's reference node, text and warnings are compared with the model; random larger projects are validated as traces by TLC.",
    "note": "Bound: subsets of 5 documents (x.md, a.md, a/x.md, a/z.md, b/c/y.md; a.md sits next to the directory a/, x.md and a/x.md share a name) x every source document x 8 spellings (x.md, ./x.md, /abs.md, no extension, <project:>, #label, extra file, <path:>) x anchors (none, k-th heading incl. a duplicated title, missing slug) x explicit/empty text. Warnings are those of the build's own resolution pass. Other Sphinx domains and intersphinx are out of scope.",
    "technique": "TLA+ spec + TLC exhaustive check; spec-behaviour replay into the code (in-process Sphinx builds); TLC batch trace validation",
    "specs": ["XRef", "XRefTrace"],
}

UNIVERSE = [["x"], ["a"], ["a", "x"], ["a", "z"], ["b", "c", "y"]]      # x.md and a/x.md share a name; a.md sits next to a/
HEADINGS = {"x": [], "a": ["One"], "a/x": ["Sec", "Sec"], "a/z": ["Sec"], "b/c/y": ["Größe É"]}
SLUGS = {"x": [], "a": ["one"], "a/x": ["sec", "sec-1"], "a/z": ["sec"], "b/c/y": ["größe-é"]}
SLUG_OF = {"Sec": "sec", "One": "one", "Other": "other", "Größe É": "größe-é"}
LABELDOC = ["a", "x"]
FILEDIR = ["a"]


def pkey(p):
    return "/".join(p)


def defs(universe=UNIVERSE, headings=HEADINGS):
    return {"UniverseV": "{" + ", ".join(tlc.tla_expr(p) for p in universe) + "}",
            "HeadingsV": "(" + " @@ ".join(f"{tlc.tla_expr(p)} :> {len(headings[pkey(p)])}" for p in universe) + ")",
            "LabelV": tlc.tla_expr(LABELDOC), "FileDirV": tlc.tla_expr(FILEDIR)}


CONSTS = {"Universe": "<-UniverseV", "Headings": "<-HeadingsV", "LabelDoc": "<-LabelV", "FileDir": "<-FileDirV",
          "DevAnchorAsFragment": False, "DevExistsNotIsFile": False}


def dest_text(link, written, slugs):
    sp = link["sp"]
    if sp == "label":
        # (label names are matched case-insensitively: written '(Lab)=', referenced as '#LAB' or '#lab')
        return "#LAB" if link["text"] == "explicit" else "#lab"
    path = "/".join(written)
    if sp == "abs":
        path = "/" + path
    if sp == "rst":
        path += ".rst"
    elif sp not in ("noext", "file", "path"):
        path += ".md"
    if link["anchor"] == 99:
        # a fragment that is no heading slug of the target: an unknown word, or the project-wide label (a label is not a
        # heading anchor of some other file, and file links take heading anchors only)
        path += "#lab" if (len(written) + len(sp)) % 2 else "#nosuchslug"
    elif link["anchor"]:
        path += "#" + slugs[pkey(link["to"])][link["anchor"] - 1]
    return path


def link_line(n, link, dest):
    sp = link["sp"]
    if sp == "project":
        return f"L{n}x [text *em*](<project:{dest}>)" if link["text"] == "explicit" else f"L{n}x <project:{dest}>"
    if sp == "path":
        return f"L{n}x [text *em*](<path:{dest}>)" if link["text"] == "explicit" else f"L{n}x <path:{dest}>"
    return f"L{n}x [text *em*]({dest})" if link["text"] == "explicit" else f"L{n}x []({dest})"


def doc_text(p, headings, links_lines, labeldoc=LABELDOC):
    name = pkey(p)
    out = [f"# T {name.replace('/', ' ')}", ""]
    hs = headings[name]
    for k, h in enumerate(hs, 1):
        if p == labeldoc and k == len(hs):
            out += ["(Lab)="]
        out += [f"## {h}", "", f"body {k}", ""]
        if h == "Sec":
            # a heading of the same title below the anchor depth: it has no slug and takes no part in the numbering
            out += [f"### {h}", "", f"deep {k}", ""]
    for ln in links_lines:
        out += [ln, ""]
    return "\n".join(out) + "\n"


def build_project(job):
    """job: (wd, pid, proj (list of paths), {srckey: [(n, link, written)]}, headings, slugs)"""
    from docutils import nodes
    from sphinx import addnodes
    from ..sphinx_runner import run_project
    wd, pid, proj, per_src, headings, slugs = job[:6]
    labeldoc = job[6] if len(job) > 6 else LABELDOC
    filedir = job[7] if len(job) > 7 else FILEDIR
    d = Path(wd) / f"x{os.getpid()}_{pid}"
    files = {}
    line_of = {}
    for p in proj:
        lines = []
        for n, link, written in per_src.get(pkey(p), []):
            lines.append(link_line(n, link, dest_text(link, written, slugs)))
        text = doc_text(p, headings, lines, labeldoc)
        files[pkey(p) + ".md"] = text
        for ln_no, ln in enumerate(text.split("\n"), 1):
            m = re.match(r"L(\d+)x ", ln)
            if m:
                line_of[int(m.group(1))] = ln_no
    extra = job[8] if len(job) > 8 else "f.txt"
    files["/".join(filedir + [extra])] = "extra file\n"
    files["index.md"] = "# Index\n\n```{toctree}\n" + "\n".join(pkey(p) for p in proj) + "\n```\n"
    # (projects with more than five documents are read by two processes every other time: what resolution needs must
    # survive the merge of the workers' environments)
    par = 2 if (len(files) > 5 and pid % 2 == 0) else 0
    r = run_project(d, files, {"myst_heading_anchors": 2}, builder="html", resolve=True, keep=False, parallel=par)
    out = {"ok": r["ok"], "error": r["error"], "links": {}, "files": files}
    if not r["ok"]:
        shutil.rmtree(d, ignore_errors=True)
        return out
    # ids of the k-th level-2 section and titles, per document
    secids, titles = {}, {}
    for p in proj:
        t = r["doctrees"].get(pkey(p))
        if t is None:
            continue
        secs = [s for s in t.findall(nodes.section) if isinstance(s.parent, nodes.section) and isinstance(s.parent.parent, nodes.document)]
        secids[pkey(p)] = [list(s["ids"]) for s in secs]
        top = [s for s in t.findall(nodes.section) if isinstance(s.parent, nodes.document)]
        titles[pkey(p)] = top[0][0].astext() if top else ""
    warns = r.get("build_warnings") or r["warnings"]
    for p in proj:
        t = r["doctrees"].get(pkey(p))
        if t is None:
            continue
        for para in t.findall(nodes.paragraph):
            m = re.match(r"L(\d+)x ", para.astext())
            if not m:
                continue
            n = int(m.group(1))
            refs = [x for x in para.findall(lambda x: isinstance(x, (nodes.reference, addnodes.download_reference, addnodes.pending_xref)))]
            o = {"nrefs": len(refs), "para": para.astext()}
            if refs:
                x = refs[0]
                o["node"] = x.tagname
                o["refuri"] = x.get("refuri")
                o["refid"] = x.get("refid")
                o["text"] = x.astext()
                o["em"] = any(True for _ in x.findall(nodes.emphasis))
                o["reftarget"] = x.get("reftarget")
            else:
                o["node"] = None
                o["text"] = para.astext()[len(m.group(0)):]
            ln = line_of.get(n)
            def _rel(src):
                rel = src[len(str(d)) + 1:] if src.startswith(str(d)) else src
                return rel[:-4] if rel.endswith(".md.rst") else rel
            o["warns"] = [w["tag"] for w in warns if w["src"] and _rel(w["src"]) == "/".join(p) + ".md" and w["line"] == ln]
            out["links"][n] = o
    out["secids"] = secids
    out["titles"] = titles
    shutil.rmtree(d, ignore_errors=True)
    return out


def judge_link(ctx, leg, proj, src, link, res, o, secids, titles, headings, case):
    what = f"link {link['sp']} from {pkey(src)}.md to {pkey(link['to'])} anchor {link['anchor']} ({link['text']} text), project {sorted(pkey(p) for p in proj)}"
    if o is None:
        ctx.violation(f"{what}: the link paragraph is missing from the resolved doctree", case)
        return
    nw = o["warns"].count("myst.xref_missing")
    if nw != res["warns"] or len(o["warns"]) != nw:
        ctx.violation(f"{what}: expected {res['warns']} [myst.xref_missing] warning(s) at the link's line, observed {o['warns']}", case)
        return
    if res["kind"] == "download":
        if o["node"] != "download_reference":
            ctx.violation(f"{what}: expected a download reference, observed {o['node']}", case)
        return
    if res["kind"] == "doc":
        uri = o.get("refuri")
        rid = o.get("refid")
        if o["node"] != "reference":
            ctx.violation(f"{what}: expected a resolved reference, observed {o['node']} ({o['para']!r})", case)
            return
        path, _, frag = (uri or "").partition("#")
        if rid is not None and uri is None:
            path, frag = "", rid
        if path != res["uri"]:
            ctx.violation(f"{what}: expected URI {res['uri']!r}, observed {uri!r} (refid {rid!r})", case)
            return
        f = res["frag"]
        if f[0] == "none" and frag:
            ctx.violation(f"{what}: unexpected fragment {frag!r}", case)
            return
        if f[0] == "heading":
            ids = (secids.get(pkey(f[1])) or [])
            want = ids[f[2] - 1] if f[2] - 1 < len(ids) else []
            if frag not in want:
                ctx.violation(f"{what}: fragment {frag!r} is not an id of heading {f[2]} of {pkey(f[1])} (ids {want})", case)
                return
        if f[0] == "literal" and frag not in (f[1], "lab"):
            ctx.violation(f"{what}: expected fragment {f[1]!r}, observed {frag!r}", case)
            return
    t = res["text"]
    txt = o.get("text", "")
    if t[0] == "explicit":
        if txt != "text em" or (o.get("node") and not o.get("em")):
            ctx.violation(f"{what}: the explicit link text (with its nested markup) is not rendered: {txt!r}", case)
    elif t[0] == "title":
        if txt != titles.get(pkey(t[1])):
            ctx.violation(f"{what}: link text should be the target's title {titles.get(pkey(t[1]))!r}, observed {txt!r}", case)
    elif t[0] == "heading":
        want = headings[pkey(t[1])][t[2] - 1]
        if txt != want:
            ctx.violation(f"{what}: link text should be the heading's title {want!r}, observed {txt!r}", case)


def written_of(src, link, filedir):
    """how the generator writes the destination (mirrors XRef.tla Written; input construction)"""
    def common(a, b):
        n = 0
        while n < len(a) and n < len(b) and a[n] == b[n]:
            n += 1
        return n

    def rel(d, t):
        c = common(d, t[:-1])
        return [".."] * (len(d) - c) + t[c:]
    sp = link["sp"]
    d = src[:-1]
    if sp in ("rel", "noext", "project", "rst"):
        return rel(d, link["to"])
    if sp == "dot":
        return ["."] + rel(d, link["to"])
    if sp == "abs":
        return list(link["to"])
    if sp in ("file", "path"):
        return rel(d, filedir + [EXTRA_V])
    return []


EXTRA_V = "LICENSE"      # the random projects' non-document file has no extension


def v_leg(ctx, rnd, quick):
    names = ["a", "b", "c", "d"]
    for batch in range(3 if quick else 25):
        universe = []
        while len(universe) < rnd.randint(6, 9):
            depth = rnd.choice([0, 1, 1, 2, 2, 3])
            p = [rnd.choice(names) for _ in range(depth)] + [rnd.choice(["p", "q", "s", "t", "a", "b"])]
            if p not in universe:
                universe.append(p)
        headings, slugs = {}, {}
        for p in universe:
            hs = [rnd.choice(["Sec", "Other", "Sec", "Größe É"]) for _ in range(rnd.randint(0, 2))]
            headings[pkey(p)] = hs
            sl = []
            for h in hs:
                b = SLUG_OF[h]
                sl.append(b if b not in sl else b + "-1")
            slugs[pkey(p)] = sl
        withh = [p for p in universe if headings[pkey(p)]]
        if not withh:
            continue
        labeldoc = rnd.choice(withh)
        filedir = rnd.choice(universe)[:-1]
        jobs, index = [], {}
        for pid in range(3):
            proj = [p for p in universe if rnd.random() < 0.7] or universe[:1]
            per_src = {}
            for n in range(1, 41):
                src = rnd.choice(proj)
                sp = rnd.choice(["rel", "dot", "abs", "noext", "project", "label", "file", "path", "rst"])
                to = rnd.choice(universe) if sp not in ("label", "file", "path") else src
                nh = len(headings[pkey(to)])
                anchor = 0 if sp in ("label", "file", "path", "noext", "rst") else rnd.choice([0, 99] + list(range(1, nh + 1)))
                link = {"to": to, "sp": sp, "anchor": anchor, "text": rnd.choice(["explicit", "empty"])}
                per_src.setdefault(pkey(src), []).append((n, link, written_of(src, link, filedir)))
                index[(pid, n)] = (proj, src, link)
            jobs.append((str(ctx.wd / "docs"), 1000 * batch + pid, proj, per_src, headings, slugs, labeldoc, filedir, EXTRA_V))
        outs = pmap(build_project, jobs, procs=3, chunksize=1)
        traces, keep = [], {}
        for jn, (job, o) in enumerate(zip(jobs, outs)):
            if not o["ok"]:
                ctx.violation(f"Sphinx build failed: {o['error']}", {"leg": "V", "files": o["files"]})
                continue
            for (pid, n), (proj, src, link) in index.items():
                if pid != jn:
                    continue
                ob = o["links"].get(n)
                case = {"leg": "V", "source_file": pkey(src) + ".md", "source_text": o["files"].get(pkey(src) + ".md"), "project": sorted(o["files"])}
                if ob is None:
                    ctx.violation("a link paragraph is missing from the resolved doctree", case)
                    continue
                tidn = len(traces)
                kind = {"reference": "doc", "download_reference": "download"}.get(ob["node"], "missing")
                uri, rid = ob.get("refuri"), ob.get("refid")
                path, _, frag = (uri or "").partition("#")
                if rid is not None and uri is None:
                    path, frag = "", rid
                fk, ft = 0, src
                if frag:
                    fk = 99
                    for dk, idlists in o["secids"].items():
                        for k, ids in enumerate(idlists, 1):
                            # the fragment belongs to the document the URI points at
                            if frag in ids and (dk == _target_of(path, src)):
                                fk, ft = k, dk.split("/")
                txt = ob.get("text", "")
                tclass, td, tk = "other", src, 0
                if txt == "text em" and (ob.get("em") or ob["node"] is None):
                    tclass = "explicit"
                elif txt == "":
                    tclass = "nothing"
                else:
                    for dk, title in o["titles"].items():
                        if txt == title:
                            tclass, td, tk = "title", dk.split("/"), 0
                    if tclass == "other" and kind == "doc":
                        tdoc = _target_of(path, src)
                        hs = headings.get(tdoc, [])
                        if fk not in (0, 99) and fk <= len(hs) and txt == hs[fk - 1]:
                            tclass, td, tk = "heading", tdoc.split("/"), fk
                    if tclass == "other":
                        tclass = "literal"
                keep[tidn] = case
                ctx.count(("v", batch, jn, n))
                traces.append({"id": tidn, "proj": proj, "src": src, "link": link,
                               "obs": {"kind": kind, "uri": path if kind == "doc" else "", "fk": fk, "ft": ft, "text": tclass, "td": td, "tk": tk,
                                       "warns": ob["warns"].count("myst.xref_missing") + 10 * (len(ob["warns"]) - ob["warns"].count("myst.xref_missing"))}})
        if not traces:
            continue
        tf = ctx.wd / f"x_traces{batch}.ndjson"
        tlc.write_ndjson(tf, traces)
        d = defs(universe, headings)
        d["LabelV"] = tlc.tla_expr(labeldoc)
        d["FileDirV"] = tlc.tla_expr(filedir) if filedir else "<<>>"
        rv = tlc.run("XRefTrace", tlc.cfg(ctx, f"x_trace{batch}.cfg", CONSTS, spec="TraceSpec", invariants=["Verdict", "RightUri", "TextKept"]),
                     wd=ctx.wd, env={"TRACE_FILE": str(tf)}, timeout=3000, defs=d)
        tlc.expect_holds(rv, "XRefTrace: S on the traced runs")
        ctx.add_tlc(f"XRefTrace_{batch}", rv, f"universe of {len(universe)} documents")
        if len(rv.records) != len(traces):
            raise tlc.MachineryFailure(f"XRefTrace: {len(rv.records)} verdicts for {len(traces)} traces")
        for v in rv.records:
            ctx.traces_validated += 1
            if v["bad"]:
                t = traces[v["id"]]
                ctx.violation(f"link {t['link']['sp']} from {pkey(t['src'])}.md to {pkey(t['link']['to'])} anchor {t['link']['anchor']} ({t['link']['text']} text): "
                              f"{sorted(v['bad'])} differ; the model expects {v['exp']}, observed {t['obs']}", keep[v["id"]])
    ctx.leg("V", batches=3 if quick else 25)


def _target_of(path, src):
    """document an html URI (relative to src) points at"""
    import posixpath
    if path == "":
        return pkey(src)
    base = posixpath.dirname(pkey(src))
    full = posixpath.normpath(posixpath.join(base, path))
    return full[:-5] if full.endswith(".html") else full


def run(ctx):
    quick = ctx.tier == "quick"
    rnd = random.Random(ctx.seed + 12)
    ctx.rule = ("R: every (project, source, link) within the bound, one Sphinx build per project. V: random larger projects. "
                "non-trivial = source and target in different directories, or an anchor, or a missing target")
    ctx.assumptions += ["html builder, in-process; warnings of the build's own resolution pass", "heading slugs of the generated titles are fixed strings of the generator"]
    invs = ["RightUri", "TextKept", "RoundTrip", "Emit"]
    r = tlc.run("XRef", tlc.cfg(ctx, "x_mc.cfg", CONSTS, invariants=invs, properties=["Terminates"]), wd=ctx.wd, timeout=3000, defs=defs(), coverage=False)
    tlc.expect_holds(r, "XRef M |= S")
    ctx.add_tlc("XRef_mc", r, "31 projects x sources x links")
    rc = tlc.run("XRef", tlc.cfg(ctx, "x_cov.cfg", CONSTS, invariants=invs[:3]), wd=ctx.wd, coverage=True,
                 defs=defs([["x"], ["a", "x"]], HEADINGS))
    for act in ("Classify", "Resolve"):
        if rc.coverage.get(act, (0, 0))[0] == 0:
            raise tlc.MachineryFailure(f"XRef: action {act} never taken (vacuous)")
    ctx.add_tlc("XRef_cov", rc)
    rd = tlc.run("XRef", tlc.cfg(ctx, "x_dev.cfg", {**CONSTS, "DevAnchorAsFragment": True}, invariants=["RightUri"]), wd=ctx.wd, defs=defs())
    tlc.expect_violation(rd, "RightUri", "XRef Dev_AnchorAsFragment")
    ctx.add_tlc("XRef_dev_anchorasfragment", rd, "expected counterexample found")
    # group the behaviours by project
    byproj = {}
    for rec in r.records:
        key = tuple(sorted(pkey(p) for p in rec["proj"]))
        byproj.setdefault(key, []).append(rec)
    keys = sorted(byproj)
    jobs, index = [], {}
    for pid, key in enumerate(keys):
        proj = [k.split("/") for k in key]
        per_src = {}
        for n, rec in enumerate(byproj[key], 1):
            per_src.setdefault(pkey(rec["src"]), []).append((n, rec["link"], rec["written"]))
            index[(pid, n)] = rec
        jobs.append((str(ctx.wd / "docs"), pid, proj, per_src, HEADINGS, SLUGS))
    outs = pmap(build_project, jobs, procs=min(16, len(jobs)), chunksize=1)
    nlinks = 0
    for job, o in zip(jobs, outs):
        pid, proj = job[1], job[2]
        if not o["ok"]:
            ctx.violation(f"Sphinx build failed: {o['error']}", {"leg": "R", "project": sorted(o["files"]), "files": {k: v for k, v in o["files"].items() if k != "index.md"}})
            continue
        for (p2, n), rec in index.items():
            if p2 != pid:
                continue
            nlinks += 1
            link = rec["link"]
            nontrivial = link["anchor"] != 0 or rec["src"][:-1] != link["to"][:-1] or link["to"] not in rec["proj"]
            ctx.count(("r", pid, n), nontrivial)
            ctx.traces_validated += 1
            case = {"leg": "R", "source_file": pkey(rec["src"]) + ".md", "source_text": o["files"].get(pkey(rec["src"]) + ".md"),
                    "project": sorted(o["files"])}
            judge_link(ctx, "R", rec["proj"], rec["src"], link, rec["res"], o["links"].get(n), o["secids"], o["titles"], HEADINGS, case)
    ctx.leg("R", projects=len(jobs), links=nlinks)
    v_leg(ctx, rnd, quick)
    mid = r.records[len(r.records) // 2]
    ctx.sample({"project": [pkey(p) for p in mid["proj"]], "source": pkey(mid["src"]), "link": mid["link"], "written": "/".join(mid["written"]), "expected": mid["res"]})
    shutil.rmtree(ctx.wd / "docs", ignore_errors=True)
    ctx.exhaustive = not quick


def replay(case) -> int:
    import json
    print(json.dumps(case, indent=1, default=str)[:4000])
    return 1
