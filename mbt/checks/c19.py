"""C19 -- inventory filtering implements the documented wildcard semantics.

T  Wildcard.tla: translator (M) |= documented relation (S) for every pattern <= MaxP and
   name <= MaxN over Sigma, with a step invariant; Dev_DropTrailing regression.
   InvFilter.tla: the filter loops |= "subsequence of entries whose 4 coordinates match".
R  TLC exports, per pattern, the set of matching names; per (inventory, filter) the indices
   of the selected entries, the link warning and the rendered match.  Replayed through
   match_with_wildcard, filter_inventories, filter_sphinx_inventories (via to_sphinx) and,
   for a slice, through a real document with an `inv:` link (docutils, myst_inventories).
V  random longer patterns/names (regex metacharacters) and larger random inventories,
   recorded and validated by WildcardTrace / InvFilterTrace.
"""
from __future__ import annotations

import itertools
import random
import zlib
from pathlib import Path

from .. import tlc
from ..frontends import c2s, docutils_doctree, s2c

META = {
    "level": "model_checking",
    "text": "TLC checks the translator model against the declarative wildcard relation for every (pattern, name) within the bound and the filter loops against the declarative selection; every TLC behaviour is replayed into match_with_wildcard / filter_inventories / filter_sphinx_inventories / inv: links, and random larger executions are validated as traces by TLC.",
    "note": "Bounds: patterns/names over a 4-6 character alphabet incl. '*', '\\\\' and regex metacharacters; inventories <= 2 entries over a 24-entry universe (exhaustive), <= 10 entries in the V leg x 288 filter quadruples. Python's re engine, docutils and zlib are trusted.",
    "technique": "TLA+ spec + TLC exhaustive check; spec-behaviour replay into the code; TLC batch trace validation",
    "specs": ["WildcardOps", "Wildcard", "InvFilter", "WildcardTrace", "InvFilterTrace"],
}

NONE = [0]


def _strs(sigma, n):
    for k in range(n + 1):
        for t in itertools.product(sigma, repeat=k):
            yield list(t)


def run(ctx):
    from myst_parser import inventory as I

    quick = ctx.tier == "quick"
    rnd = random.Random(ctx.seed)
    sigma = [42, 92, 97, 46] if quick else [42, 92, 97, 98, 46, 43]
    maxp, maxn = (4, 3) if quick else (4, 4)
    consts = {"Sigma": set(sigma), "MaxP": maxp, "MaxN": maxn, "DevDropTrailing": False}
    ctx.rule = ("R: every pattern <= MaxP x every name <= MaxN over Sigma (expected match set exported by TLC); "
                "every grouped inventory sequence <= MaxEntries x 288 filters. V: random patterns/names/inventories. "
                "non-trivial = pattern contains '*' or '\\\\' / inventory non-empty and filter not all-None")
    ctx.assumptions += ["Python re.fullmatch on escaped literals and '.*' is trusted",
                        "names contain no newline (re '.' does not match it; inventory names are single-line)"]

    # ---- T: translator |= S ---------------------------------------------------------
    cfg = tlc.write_cfg(ctx.wd / "w_mc.cfg", constants=consts,
                        invariants=["TypeOK", "PrefixAgree", "Agree", "OperatorForm"],
                        properties=["Terminates"])
    r = tlc.run("Wildcard", cfg, wd=ctx.wd, coverage=True)
    tlc.expect_holds(r, "Wildcard M |= S")
    for act in ("Char", "Finish"):
        if r.coverage.get(act, (0, 0))[0] == 0:
            raise tlc.MachineryFailure(f"Wildcard: action {act} never taken (vacuous)")
    ctx.add_tlc("Wildcard_mc", r)
    # Dev regression: the as-built deviation must be a counterexample of the design
    cfg = tlc.write_cfg(ctx.wd / "w_dev.cfg", constants={**consts, "MaxP": 2, "MaxN": 2, "DevDropTrailing": True},
                        invariants=["Agree"])
    rd = tlc.run("Wildcard", cfg, wd=ctx.wd)
    tlc.expect_violation(rd, "Agree", "Wildcard Dev_DropTrailing")
    ctx.add_tlc("Wildcard_dev_droptrailing", rd, "expected counterexample found")

    # ---- R: per-pattern match sets ----------------------------------------------------
    cfg = tlc.write_cfg(ctx.wd / "w_gen.cfg", constants=consts, invariants=["Emit"])
    rg = tlc.run("Wildcard", cfg, wd=ctx.wd)
    ctx.add_tlc("Wildcard_gen", rg)
    names = list(_strs(sigma, maxn))
    npat = sum(len(sigma) ** k for k in range(maxp + 1))
    if len(rg.records) != npat:
        raise tlc.MachineryFailure(f"Wildcard export: {len(rg.records)} records, expected {npat}")
    for rec in rg.records:
        p = c2s(rec["p"])
        exp = {tuple(n) for n in rec["m"]}
        got = {tuple(n) for n in names if I.match_with_wildcard(c2s(n), p)}
        ctx.count(("pat", p), nontrivial=("*" in p or "\\" in p))
        ctx.traces_validated += 1
        if got != exp:
            diff = sorted(got ^ exp)[:5]
            ctx.violation(f"match_with_wildcard differs from the wildcard relation for pattern {p!r} on names {[c2s(d) for d in diff]}",
                          {"leg": "R-match", "pattern": p, "names": [c2s(d) for d in diff],
                           "expected_match": [tuple(d) in exp for d in diff]})
    ctx.sample({"pattern": c2s(rg.records[len(rg.records) // 2]["p"]),
                "matching_names<=MaxN": [c2s(n) for n in rg.records[len(rg.records) // 2]["m"]][:8]})
    # None pattern
    if not all(I.match_with_wildcard(c2s(n), None) for n in names[:50]):
        ctx.violation("omitted pattern must match everything", {"leg": "R-match", "pattern": None})

    # ---- V: random long patterns ------------------------------------------------------
    alpha = "ab*\\.+?[](){}^$|-/: _é"
    traces = []
    ntr = 400 if quick else 5000
    for t in range(ntr):
        plen = rnd.randint(0, 9)
        p = "".join(rnd.choice("**\\" + alpha) for _ in range(plen))
        if p.count("*") > 4:
            p = p.replace("*", "a", p.count("*") - 4)
        obs = []
        for _ in range(6):
            # derive names from the pattern so that matches are not rare
            n = []
            k = 0
            while k < len(p):
                c = p[k]
                if c == "\\" and k + 1 < len(p) and p[k + 1] == "*":
                    n.append("*"); k += 2; continue
                if c == "*":
                    n.append("".join(rnd.choice(alpha) for _ in range(rnd.randint(0, 2))))
                else:
                    n.append(c)
                k += 1
            n = "".join(n)
            if rnd.random() < 0.4 and n:
                j = rnd.randrange(len(n))
                n = n[:j] + rnd.choice(["", rnd.choice(alpha), "\\"]) + n[j + 1:]
            n = n[:12]
            try:
                res = bool(I.match_with_wildcard(n, p))
            except Exception as e:  # not a bool: the trace cannot be explained
                ctx.violation(f"match_with_wildcard raised {type(e).__name__}", {"leg": "V-match", "pattern": p, "name": n})
                continue
            ctx.count(("v", p, n))
            obs.append({"n": s2c(n), "r": res})
        traces.append({"id": t, "p": s2c(p), "obs": obs})
    tf = ctx.wd / "w_traces.ndjson"
    tlc.write_ndjson(tf, traces)
    cfg = tlc.write_cfg(ctx.wd / "w_trace.cfg", spec="TraceSpec",
                        constants={**consts, "MaxP": 0, "MaxN": 0}, invariants=["Verdict"])
    rv = tlc.run("WildcardTrace", cfg, wd=ctx.wd, env={"TRACE_FILE": str(tf)})
    ctx.add_tlc("WildcardTrace", rv)
    if len(rv.records) != len(traces):
        raise tlc.MachineryFailure(f"WildcardTrace: {len(rv.records)} verdicts for {len(traces)} traces")
    for v in rv.records:
        ctx.traces_validated += 1
        if v["mbad"] or v["sbad"]:
            tr = traces[v["id"]]
            k = (v["sbad"] or v["mbad"])[0] - 1
            ctx.violation("recorded match_with_wildcard result is not allowed by the specification",
                          {"leg": "V-match", "pattern": c2s(tr["p"]), "name": c2s(tr["obs"][k]["n"]),
                           "observed": tr["obs"][k]["r"]})
    ctx.sample({"trace": {"pattern": c2s(traces[3]["p"]), "obs": [(c2s(o["n"]), o["r"]) for o in traces[3]["obs"]]}})

    # ---- T/R: filtering ---------------------------------------------------------------
    # (MaxEntries = 3 makes the initial-state set too large for TLC, also in simulation mode: the thorough tier
    # deepens the V leg instead)
    fconst = {"MaxEntries": 2, "DevDropTrailing": False}
    cfg = tlc.write_cfg(ctx.wd / "f_mc.cfg", constants={"MaxEntries": 2, "DevDropTrailing": False},
                        invariants=["Correct", "Ordered", "Partial"])
    rf = tlc.run("InvFilter", cfg, wd=ctx.wd, coverage=True)
    tlc.expect_holds(rf, "InvFilter M |= S")
    ctx.add_tlc("InvFilter_mc", rf)
    cfg = tlc.write_cfg(ctx.wd / "f_gen.cfg", constants=fconst, invariants=["Emit"])
    rfg = tlc.run("InvFilter", cfg, wd=ctx.wd)
    ctx.add_tlc("InvFilter_gen", rfg)
    if len(rfg.records) < 1000:
        raise tlc.MachineryFailure("InvFilter export too small")
    link_cases = []
    shared_cases: list = []
    n_order = 0
    order_cases: list = []
    seen = set()
    for rec in rfg.records:
        key = (repr(rec["inv"]), repr(rec["flt"]))
        if key in seen:
            continue
        seen.add(key)
        _replay_filter(ctx, I, rec)
        if rec["inv"] and len(link_cases) < (300 if quick else 3000) and rnd.random() < 0.02:
            link_cases.append(rec)
        elif len(rec["out"]) >= 2 and rec["flt"][3] != NONE:
            hit = [[c2s(x) for x in rec["inv"][k_ - 1]] for k_ in rec["out"]]
            if hit[0][0] == "k2" and any(h[0] == "k" for h in hit) and n_order < 150:
                n_order += 1
                order_cases.append(rec)        # matches in two inventories configured in NON-alphabetical order: the first in configuration order is rendered
                continue
            if len(shared_cases) < 150 and len({h[0] for h in hit}) == 1 and all(h[3].startswith("a") for h in hit):
                shared_cases.append(rec)        # several matches that all resolve to one location: still ambiguous
    ctx.sample({"filter_case": _pretty(rfg.records[len(rfg.records) // 3])})

    # ---- R: inv: links in real documents ---------------------------------------------
    for k, rec in enumerate(link_cases + shared_cases + order_cases):
        _replay_link(ctx, rec, k)
    sphinx_link_leg(ctx, shared_cases[:8] + link_cases, quick)
    ctx.leg("R-link", documents=len(link_cases) + len(shared_cases) + len(order_cases), two_inventories_unsorted=n_order)
    if n_order == 0:
        raise tlc.MachineryFailure("no link case with matches in two inventories configured in non-alphabetical order")

    # ---- V: larger random inventories ------------------------------------------------
    ftraces = []
    pool_inv, pool_dom, pool_typ = ["k", "k2", "x*y"], ["py", "s", "std"], ["f", "fn", "label", "term"]
    pool_tgt = ["a", "ab", "*", "a.b", "a*b", "b\\", "mod.f", "A", "Ab"]
    pats = [None, "*", "a", "a*", "\\*", "*b", "k*", "p*", "s*d", "f", "f*", "a\\", "*.*", "a.b", "x\\*y", "b\\", "ab", "A*", "l*"]
    for t in range(300 if quick else 20000):
        ents = []
        for i_ in rnd.sample(pool_inv, rnd.randint(1, 3)):
            for d in rnd.sample(pool_dom, rnd.randint(1, 2)):
                for ty in rnd.sample(pool_typ, rnd.randint(1, 2)):
                    for n in rnd.sample(pool_tgt, rnd.randint(1, 3)):
                        ents.append([i_, d, ty, n])
        ents = ents[:10]
        flt = [rnd.choice(pats) for _ in range(4)]
        if t % 3 == 0:
            flt[:3] = [rnd.choice([None, "*"]) for _ in range(3)]      # only the target decides
        native = _native(ents)
        order = _order(native)
        # the same filter on both representations (native mapping; Sphinx's named-inventory mapping): each recorded result
        # is a trace of its own -- the matching is the SAME relation for every domain and type (names keep their case)
        sph = {k_: I.to_sphinx(v_) for k_, v_ in native.items()}
        # Sphinx's mapping "domain:type" -> names need not keep the types of one domain together: inventory order is the
        # order of that mapping
        sph2 = {}
        for k_, v_ in sph.items():
            keys = list(v_)
            rnd.shuffle(keys)
            sph2[k_] = {kk: v_[kk] for kk in keys}
        order2 = [[i_, kk.split(":", 1)[0], kk.split(":", 1)[1], n_] for i_, v_ in sph2.items() for kk, names_ in v_.items() for n_ in names_]
        for rep, fn, data in (("native", I.filter_inventories, native), ("sphinx", I.filter_sphinx_inventories, sph),
                              ("sphinx-shuffled", I.filter_sphinx_inventories, sph2)):
            order = order2 if rep == "sphinx-shuffled" else _order(native)
            got = [[m.inv, m.domain, m.otype, m.name] for m in fn(
                data, invs=flt[0], domains=flt[1], otypes=flt[2], targets=flt[3])]
            try:
                out = [order.index(g) + 1 for g in got]
            except ValueError:
                ctx.violation(f"filter ({rep} representation) returned an entry that is not in the inventories",
                              {"leg": "V-filter", "entries": ents, "filter": flt, "got": got})
                continue
            ctx.count(("vf", rep, repr(ents), repr(flt)))
            ftraces.append({"id": len(ftraces), "rep": rep, "inv": [[s2c(x) for x in e] for e in order],
                            "flt": [NONE if p is None else s2c(p) for p in flt], "out": out})
    tf = ctx.wd / "f_traces.ndjson"
    tlc.write_ndjson(tf, ftraces)
    cfg = tlc.write_cfg(ctx.wd / "f_trace.cfg", spec="TraceSpec", constants={"MaxEntries": 0, "DevDropTrailing": False},
                        invariants=["Verdict"])
    rv = tlc.run("InvFilterTrace", cfg, wd=ctx.wd, env={"TRACE_FILE": str(tf)})
    ctx.add_tlc("InvFilterTrace", rv)
    if len(rv.records) != len(ftraces):
        raise tlc.MachineryFailure(f"InvFilterTrace: {len(rv.records)} verdicts for {len(ftraces)} traces")
    byid = {t["id"]: t for t in ftraces}
    for v in rv.records:
        ctx.traces_validated += 1
        if not (v["m"] and v["s"]):
            tr = byid[v["id"]]
            ctx.violation(f"recorded filter result ({tr['rep']} representation) is not the selection the specification allows",
                          {"leg": "V-filter", "representation": tr["rep"], "entries": [[c2s(x) for x in e] for e in tr["inv"]],
                           "filter": [None if p == NONE else c2s(p) for p in tr["flt"]], "observed_indices": tr["out"]})
    ctx.exhaustive = quick


def _pretty(rec):
    return {"inventory": [[c2s(x) for x in e] for e in rec["inv"]],
            "filter": [None if p == NONE else c2s(p) for p in rec["flt"]],
            "expected_indices": rec["out"], "warn": rec["warn"]}


def _native(entries, base=None):
    inv = {}
    for (i_, d, ty, n) in entries:
        o = inv.setdefault(i_, {"name": "proj " + i_, "version": "1.0", "base_url": base and base.get(i_), "objects": {}})
        # (distinct entries may share one location: names starting with "a" all point at the same anchor)
        loc = "shared.html#anchor" if n.startswith("a") else f"{d}/{ty}.html#{n}"
        o["objects"].setdefault(d, {}).setdefault(ty, {})[n] = {"loc": loc, "text": None if n == "a" else f"T {n}"}
    return inv


def _order(native):
    return [[i_, d, ty, n] for i_, o in native.items() for d, dd in o["objects"].items()
            for ty, td in dd.items() for n in td]


def _replay_filter(ctx, I, rec):
    ents = [[c2s(x) for x in e] for e in rec["inv"]]
    flt = [None if p == NONE else c2s(p) for p in rec["flt"]]
    native = _native(ents)
    if _order(native) != ents:
        ctx.gen_miss += 1
        return
    kw = dict(invs=flt[0], domains=flt[1], otypes=flt[2], targets=flt[3])
    exp = [ents[k - 1] for k in rec["out"]]
    got = [[m.inv, m.domain, m.otype, m.name] for m in I.filter_inventories(native, **kw)]
    nontrivial = bool(ents) and any(f is not None for f in flt)
    ctx.count(("f", repr(ents), repr(flt)), nontrivial)
    ctx.traces_validated += 1
    case = {"leg": "R-filter", "entries": ents, "filter": flt, "expected": exp}
    if got != exp:
        ctx.violation("filter_inventories differs from the specified selection/order", {**case, "got": got})
        return
    sph = {k: I.to_sphinx(v) for k, v in native.items()}
    gots = [[m.inv, m.domain, m.otype, m.name] for m in I.filter_sphinx_inventories(sph, **kw)]
    if gots != exp:
        ctx.violation("filter_sphinx_inventories differs from the native result on the same data", {**case, "got_sphinx": gots})
        return
    a = [(m.loc, m.text) for m in I.filter_inventories(native, **kw)]
    b = [(m.loc, m.text) for m in I.filter_sphinx_inventories(sph, **kw)]
    if a != b:
        ctx.violation("native and Sphinx representations yield different loc/text", {**case, "native": a, "sphinx": b})


def _inv_bytes(project, entries):
    """objects.inv v2 for one inventory: entries [(dom, typ, name, loc, text)]"""
    body = "".join(f"{n} {d}:{ty} 1 {loc} {text or '-'}\n" for (d, ty, n, loc, text) in entries)
    return (f"# Sphinx inventory version 2\n# Project: {project}\n# Version: 1.0\n"
            "# The remainder of this file is compressed using zlib.\n").encode() + zlib.compress(body.encode())


def _replay_link(ctx, rec, k):
    """inv: link in a real document: first match rendered, warnings by match count."""
    ents = [[c2s(x) for x in e] for e in rec["inv"]]
    flt = [None if p == NONE else c2s(p) for p in rec["flt"]]
    d = ctx.wd / f"link{k}"
    d.mkdir()
    invs_cfg = {}
    native = _native(ents)
    bases = {}
    for j, (iname, o) in enumerate(native.items()):
        base = f"https://ex.org/{iname}" + ("/" if j % 2 else "")
        bases[iname] = base
        es = [(dm, ty, n, it["loc"], it["text"]) for dm, dd in o["objects"].items() for ty, td in dd.items() for n, it in td.items()]
        p = d / f"{j}.inv"
        p.write_bytes(_inv_bytes(o["name"], es))
        invs_cfg[iname] = (base, str(p))
    # spelling: inv:<invs>:<domains>:<otypes>#<target>; trailing omitted parts may be dropped
    parts = ["*" if f is None else f for f in flt[:3]]
    while parts and flt[len(parts) - 1] is None and (k % 2 == 0):
        parts.pop()
    target = flt[3]
    if target is None:
        return  # a link needs a target
    href = "inv:" + ":".join(parts) + "#" + target
    explicit = k % 3 == 0
    # in an inline link destination Markdown treats backslash as an escape: write it doubled
    text = "[explicit]({})".format(href.replace("\\", "\\\\")) if explicit else f"<{href}>"
    src = f"before\n\n{text}\n\nafter\n"
    try:
        doc, warns = docutils_doctree(src, {"myst_inventories": invs_cfg})
    except Exception as e:
        ctx.violation(f"inv: link document raised {type(e).__name__}: {e}", {"leg": "R-link", "source": src, "entries": ents})
        return
    from docutils import nodes
    refs = [r for r in doc.findall(nodes.reference)]
    tags = [w["tag"] for w in warns if w["tag"] and w["tag"].startswith("myst.iref")]
    # effective filter when parts were dropped is the same (None == "*" for these names)
    exp_warn = [] if rec["warn"] == "none" else ["myst." + rec["warn"]]
    ctx.count(("l", src, repr(ents)))
    ctx.traces_validated += 1
    case = {"leg": "R-link", "source": src, "entries": ents, "inventories": {k_: v[0] for k_, v in invs_cfg.items()},
            "expected_warn": exp_warn, "expected_first": rec["first"]}
    if sorted(tags) != exp_warn:
        ctx.violation("inv: link warnings differ from the specification (one iref_missing iff no match, one iref_ambiguous iff several)",
                      {**case, "got_warn": tags})
        return
    if rec["first"] == 0:
        if refs:
            ctx.violation("inv: link without match must not render a reference", {**case, "got": [r.pformat() for r in refs]})
        return
    e = ents[rec["first"] - 1]
    item = native[e[0]]["objects"][e[1]][e[2]][e[3]]
    base = bases[e[0]]
    exp_uri = base + ("" if base.endswith("/") else "/") + item["loc"]
    if len(refs) != 1 or refs[0].get("refuri") != exp_uri:
        ctx.violation("inv: link must render the first match's location joined to its base URL",
                      {**case, "expected_refuri": exp_uri, "got": [r.get("refuri") for r in refs]})
        return
    # the same link after another inv: link that is restricted to the LAST configured inventory: the order in which the
    # inventories are consulted is the configuration's, whatever was looked up before
    if len(invs_cfg) > 1:
        last = list(invs_cfg)[-1]
        src2 = f"<inv:{last}#*>\n\n{text}\n"
        doc2, warns2 = docutils_doctree(src2, {"myst_inventories": invs_cfg})
        refs2 = [r for r in doc2.findall(nodes.reference)]
        tags2 = [w["tag"] for w in warns2 if w["tag"] and w["tag"].startswith("myst.iref") and w["line"] == 3]
        if not refs2 or refs2[-1].get("refuri") != exp_uri or sorted(tags2) != exp_warn:
            ctx.violation("an inv: link resolves differently after an earlier inv: link to another inventory in the same document",
                          {**case, "source": src2, "expected_refuri": exp_uri, "got": [r.get("refuri") for r in refs2], "got_warn": tags2})
            return
    exp_text = "explicit" if explicit else (item["text"] or e[3])
    if refs[0].astext() != exp_text:
        ctx.violation("inv: link text differs (explicit text, else the entry's display name, else its name)",
                      {**case, "expected_text": exp_text, "got_text": refs[0].astext()})


REN_DOM = {"s": "std", "py": "py"}
REN_TYP = {"f": "doc", "f:n": "doc:n"}


def _sphinx_link_job(job):
    """one Sphinx project (intersphinx with local inventory files) per case: the inv: link of the case in index.md"""
    from ..sphinx_runner import run_project
    wd, k, rec = job
    ents = [[c2s(x) for x in e] for e in rec["inv"]]
    flt = [None if p == NONE else c2s(p) for p in rec["flt"]]
    # injective renaming of the abstract domain s / types f, f:n to std / doc, doc:n (names Sphinx itself knows)
    ents = [[i_, REN_DOM[d], REN_TYP[ty], n] for i_, d, ty, n in ents]
    if flt[2] is not None:
        flt[2] = flt[2].replace("f", "doc", 1)
    d = Path(wd) / f"sxl{k}"
    d.mkdir(parents=True, exist_ok=True)
    native = _native(ents)
    mapping = {}
    for j, (iname, o) in enumerate(native.items()):
        es = [(dm, ty, n, it["loc"], it["text"]) for dm, dd in o["objects"].items() for ty, td in dd.items() for n, it in td.items()]
        pth = d / f"{j}.inv"
        pth.write_bytes(_inv_bytes(o["name"], es))
        mapping[iname] = (f"https://ex.org/{iname}/", str(pth))
    parts = ["*" if f is None else f for f in flt[:3]]
    while parts and flt[len(parts) - 1] is None:
        parts.pop()
    href = "inv:" + ":".join(parts) + "#" + flt[3]
    text = "[explicit]({})".format(href.replace("\\", "\\\\")) if k % 2 else f"<{href}>"
    files = {"index.md": f"# T\n\nbefore\n\n{text}\n\nafter\n"}
    r = run_project(d / "src", files, {"extensions": ["myst_parser", "sphinx.ext.intersphinx"], "intersphinx_mapping": mapping,
                                       "intersphinx_cache_limit": -1}, resolve=True)
    out = {"ok": r["ok"], "error": r["error"], "source": files["index.md"], "entries": ents, "filter": flt}
    if r["ok"]:
        from docutils import nodes
        t = r["doctrees"].get("index")
        out["refs"] = [x.get("refuri") for x in t.findall(nodes.reference) if x.get("refuri", "").startswith("https://ex.org/")] if t is not None else None
        out["tags"] = [w["tag"] for w in (r.get("build_warnings") or []) if w["tag"] and w["tag"].startswith("myst.iref")]
    import shutil
    shutil.rmtree(d, ignore_errors=True)
    return out


def sphinx_link_leg(ctx, cases, quick):
    """inv: links under Sphinx: the inventories are intersphinx's (loaded from local files); an omitted inventory part
    means every inventory, whatever the object type"""
    def names_sorted(c):
        # (intersphinx itself keeps its named inventories sorted by name: under Sphinx that IS the inventory order)
        seen = []
        for e in c["inv"]:
            if c2s(e[0]) not in seen:
                seen.append(c2s(e[0]))
        return seen == sorted(seen)
    pick = [c for c in cases if c["flt"][3] != NONE and names_sorted(c)][: (24 if quick else 200)]
    from ..pool import pmap
    outs = pmap(_sphinx_link_job, [(str(ctx.wd / "sxlinks"), k, rec) for k, rec in enumerate(pick)], procs=8, chunksize=1)
    for rec, o in zip(pick, outs):
        ctx.count(("sphinx-link", o["source"], repr(o["entries"])))
        ctx.traces_validated += 1
        case = {"leg": "R-sphinx-link", "source": o["source"], "entries": o["entries"], "filter": o["filter"]}
        if not o["ok"]:
            ctx.violation(f"Sphinx build with an inv: link failed: {o['error']}", case)
            continue
        exp_warn = [] if rec["warn"] == "none" else ["myst." + rec["warn"]]
        if sorted(set(o["tags"])) != exp_warn:
            ctx.violation(f"Sphinx: inv: link warnings {sorted(set(o['tags']))}, the specification says {exp_warn}", case)
            continue
        if rec["first"] == 0:
            if o["refs"]:
                ctx.violation("Sphinx: an inv: link without match rendered a reference", {**case, "got": o["refs"]})
            continue
        e = o["entries"][rec["first"] - 1]
        loc = "shared.html#anchor" if e[3].startswith("a") else f"{e[1]}/{e[2]}.html#{e[3]}"
        exp_uri = f"https://ex.org/{e[0]}/{loc}"
        if o["refs"] != [exp_uri]:
            ctx.violation("Sphinx: inv: link must render the first match's location joined to its base URL",
                          {**case, "expected_refuri": exp_uri, "got": o["refs"]})
    ctx.leg("R-sphinx-link", projects=len(pick))


def replay(case) -> int:
    print(__import__("json").dumps(case, indent=1))
    print("re-run: ./check C19 --tier quick (cases are deterministic for a fixed VERIF_SEED)")
    return 1
