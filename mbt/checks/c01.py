"""C01 -- parsing is total: any text, any valid config, never an uncaught exception.

T  Totality.tla: the pipeline meets a sequence of injected faults (site, fault class) in
   contexts; every fault is handled, reported and the rest of the document is processed
   (Total, Reported, RestProcessed); Dev_Unhandled regression.
R  every behaviour concretised from a trigger library (front matter, directive options,
   directives, roles, include/inventory files incl. missing / directory / undecodable /
   self-including, HTML, substitutions, links, structure) in four contexts and replayed
   through the docutils front end (publish_doctree) and the Sphinx front end (in-process
   build + post-transforms): outcome, messages, marker paragraphs.
V  token soup, grammar documents and every input of the repository's fixtures under sampled
   configurations (extension subsets, commonmark mode), both front ends; outcomes validated
   by TotalityTrace.
"""
from __future__ import annotations

import os
import random
import re
import shutil
from pathlib import Path

from .. import tlc
from ..pool import pmap

META = {
    "level": "fault_enumeration",
    "text": "TLC enumerates every sequence of injected faults (40 site/fault classes x 4 contexts) within the bound on the pipeline model and checks totality, reporting and continued processing; every behaviour is concretised from a trigger library and replayed through both front ends (publish_doctree; in-process Sphinx build with post-transforms); token soup, grammar documents and all repository fixture inputs under sampled configurations are validated as outcome traces by TLC.",
    "note": "Bound: fault sequences <= 2 (quick: all singles x 4 contexts + all pairs at top level / in a directive; thorough: all pairs x 4 contexts, triples at top level over a subset). Fault classes are those reachable by input and files (no hooks, no monkey-patching). Configurations needing linkify-it-py (not importable here) are skipped as the property allows. docutils runs with halt_level=5 (with the default 4, docutils itself turns a SEVERE message into an exception by design).",
    "technique": "TLA+ spec + TLC exhaustive fault enumeration; spec-behaviour replay into the code (both front ends); TLC batch trace validation of recorded outcomes",
    "specs": ["Totality", "TotalityTrace"],
}

EXTS = ["amsmath", "attrs_inline", "attrs_block", "colon_fence", "deflist", "dollarmath", "fieldlist", "html_admonition",
        "html_image", "replacements", "smartquotes", "strikethrough", "substitution", "tasklist"]
CONTEXTS = ["top", "quote", "list", "directive"]


def library():
    """(site, fault) -> dict(lines, files {name: bytes|str}, silent, front: docutils|sphinx|both, toponly)"""
    L = {}

    def add(site, fault, lines, files=None, silent=False, front="both", toponly=False):
        L[(site, fault)] = {"lines": lines, "files": files or {}, "silent": silent, "front": front, "toponly": toponly}
    # front matter (must be the first lines of the document)
    for name, body in (("scanner", "a:\tb\n\t- c"), ("parser", "a: [b"), ("alias", "a: *x"), ("tag", "a: !!python/object:x y"),
                       ("date", "a: 2020-99-99"), ("notdict", "- a"), ("myst_notdict", "myst: 1"), ("bad_override", "myst:\n  enable_extensions: 5"),
                       ("bad_override2", "myst:\n  substitutions: [a, b]"), ("unknown_field", "myst:\n  nosuch: 1"), ("wpm0", "myst:\n  words_per_minute: 0"),
                       ("anchors_null", "myst:\n  heading_anchors: null"), ("schemes_list", "myst:\n  url_schemes: [http]")):
        add("frontmatter", name, ["---"] + body.split("\n") + ["---", "", "<http://a.b> and [t](ftp://c.d)", "", "# H"], toponly=True,
            silent=name in ("schemes_list",))
    # keys of a YAML mapping need not be strings
    for name, body in (("intkey", "2024: rewritten"), ("boolkey", "on: push"), ("nullkey", "~: x"), ("datekey", "2020-01-01: released"),
                       ("floatkey", "1.5: v"), ("upperkey", "Author: Me\nDATE: today")):
        add("frontmatter", name, ["---"] + body.split("\n") + ["---", "", "# H"], toponly=True, silent=True)
    add("frontmatter", "bigint", ["---", "a: 0x" + "f" * 5000, "b: [0x" + "f" * 5000 + "]", "c: 1", "---", "", "# H"], toponly=True)
    add("frontmatter", "deep_flow", ["---", "a: " + "[" * 3000 + "]" * 3000, "---", "", "# H"], toponly=True)
    # the fallback rule of the block parser cannot be switched off (nothing would consume a plain line)
    add("frontmatter", "disable_paragraph", ["---", "myst:", "  disable_syntax: [paragraph]", "---", "", "plain", "", "# H"], toponly=True)
    add("frontmatter", "disable_rules", ["---", "myst:", "  disable_syntax: [text, heading, lheading, fence, code, list, blockquote, hr, reference, html_block, escape, entity, nosuchrule]",
                                         "---", "", "plain `c` *e*", "", "# H", "", "- l", "", "> q", "", "    code", "", "***", "", "[r]: x", "", "<div>", "", "T", "==="], toponly=True, silent=True)
    # title_to_header with a title YAML does not type as a string
    for nm, tv in (("title_int", "2024"), ("title_float", "1.5"), ("title_date", "2024-05-01"), ("title_bool", "yes"), ("title_list", "[a, b]"),
                   ("title_map", "{a: b}"), ("title_multiline", "|\n  two\n  lines")):
        add("frontmatter", nm, ["---", f"title: {tv}", "myst:", "  title_to_header: true", "---", "", "text", "", "# H"], toponly=True, silent=True)
    add("frontmatter", "datekey_nested", ["---", "a:", "  2020-01-01: x", "b: 1", "---", "", "# H"], toponly=True)
    add("frontmatter", "datelist", ["---", "a: [2020-01-01]", "b: {c: 2020-01-01}", "---"], toponly=True, silent=True)
    add("frontmatter", "unclosed", ["---", "a: 1", "", "text"], toponly=True, silent=True)
    # directive options
    add("options", "tokenize", ["```{note}", ":class: 'x", "", "b", "```"])
    add("options", "yaml_list", ["```{note}", "---", "- a", "---", "b", "```"])
    add("options", "unknown_key", ["```{note}", ":nosuch: 1", "", "b", "```"])
    add("options", "invalid_value", ["```{code-block} python", ":lineno-start: x", "", "a=1", "```"])
    add("options", "empty_value_strmethod", ["```{figure} a.png", ":figwidth:", "", "cap", "```", "", "```{csv-table}", ":delim:", ":quote:", "", "a,b", "```"])
    add("options", "empty_value_figure_md", ["```{figure-md}", ":width:", "", "![a](a.png)", "", "cap", "```"], front="sphinx")
    add("options", "escape_overflow", ["```{note}", ':class: "\\UFFFFFFFF"', "", "b", "```"])
    # directives
    add("directive", "unknown", ["```{nosuchdirective}", "b", "```"])
    add("directive", "missing_arg", ["```{figure}", "```"])
    add("directive", "content_forbidden", ["```{image} a.png", "content", "```"])
    add("directive", "run_error", ["```{csv-table}", ":widths: x", "", "a,b", "```"])
    add("directive", "body_error", ["```{list-table}", "", "not a list", "```"])
    add("directive", "toctree_missing", ["```{toctree}", "nosuchdoc", "```"], front="sphinx")
    add("directive", "unmockable", ["```{meta}", ":description: x", "```"])
    add("directive", "lineblock_blank", ["```{line-block}", "", "", "foo", "  bar", "```"], silent=True)
    add("directive", "evalrst_bad", ["```{eval-rst}", ".. nosuch::", "", "`x", "```"])
    # roles
    add("role", "unknown", ["{nosuchrole}`x`"])
    add("role", "bad_content", ["{abbr}`x (` and {sub}``"], silent=True)
    # include files
    add("include", "missing", ["```{include} @@nosuchfile.md", "```"])
    add("include", "directory", ["```{include} @@adir", "```"], files={"@@adir/x.txt": "x"})
    add("include", "undecodable", ["```{include} @@latin1.txt", "```"], files={"@@latin1.txt": b"caf\xe9 \xff\xfe\n"})
    add("include", "self", ["```{include} DOCNAME.md", "```"])
    add("include", "cycle", ["```{include} @@cyc_a.txt", "```"],
        files={"@@cyc_a.txt": "A\n\n```{include} @@cyc_b.txt\n```\n", "@@cyc_b.txt": "B\n\n```{include} @@cyc_a.txt\n```\n"})
    # the same file reached under another spelling of its path
    add("include", "self_dotdot", ["```{include} @@sub/../DOCNAME.md", "```"], files={"@@sub/x.txt": "x\n"})
    add("include", "cycle_dotdot", ["```{include} @@dir/@@cyc_b.txt", "```"],
        files={"@@dir/@@cyc_b.txt": "B\n\n```{include} ../@@cyc_c.txt\n```\n", "@@cyc_c.txt": "C\n\n```{include} @@dir/../@@dir/@@cyc_b.txt\n```\n"})
    add("include", "negative_offset", ["```{include} @@chap.txt", ":heading-offset: -1", "```"], files={"@@chap.txt": "# Chapter\n\ntext\n\n## Sub\n"})
    # Markdown included from reStructuredText with the parser option (the including document's settings are not MyST's)
    add("include", "rst_parser_option", ["```{eval-rst}", ".. include:: @@warn.md", "   :parser: myst_parser.docutils_", "```"],
        files={"@@warn.md": "{nosuchrole}`x`\n\n# H\n\n#### skipped\n\n[^a]: unref\n\n[l](#nosuch)\n"}, front="docutils")
    add("include", "bad_option", ["```{include} @@ok.txt", ":start-line: x", "```"], files={"@@ok.txt": "ok\n"})
    add("include", "literal_missing", ["```{literalinclude} @@nosuch.py", "```"], front="sphinx")
    # inventories (docutils: myst_inventories)
    add("inventory", "missing_file", ["<inv:missing#x>"], front="docutils")
    add("inventory", "corrupt_file", ["<inv:corrupt#x>"], front="docutils")
    add("inventory", "bad_url", ["<inv://[x#t>"])
    add("inventory", "no_match", ["<inv:nosuchkey:py:func#zz>"])
    # html
    add("html", "img_no_src_value", ["<img src>", "", "<img src="], silent=True)
    add("html", "div_class_no_value", ["<div class>", "x", "</div>"], silent=True)
    add("html", "marked_section", ['<div class="admonition">', "<![<", "</div>"])
    add("html", "deep_nesting", ['<div class="admonition">' + "<b>" * 400])
    add("html", "img_missing_src", ['<img alt="a">'])
    # attributes written without a value that are forwarded to the directive
    add("html", "valueless_attrs", ['<img src="a.png" alt>', "", 'x <img src=a.png class> y', "", '<div class="admonition" name>', "b", "</div>",
                                    "", '<img src="a.png" width height align>'], silent=True)
    # substitutions
    add("substitution", "undefined", ["{{ nosuchsub }}"])
    add("substitution", "syntax", ["{{ a + }}"])
    add("substitution", "circular", ["{{ circ_a }}"])
    # links
    add("link", "long_destination", ["[a](" + "x" * 300 + ") and [b](" + "y/" * 200 + "z.md)"], silent=True)
    add("link", "bad_ipv6", ["[a](http://[x) and <http://[y>"], silent=True)
    add("link", "scheme_bad_ipv6", ["[a](wiki://[x) and <wiki://[y>"])
    add("link", "scheme_bad_port", ["<wiki://en:wikipedia/Duck> [x](wiki://host:808080/p) <wiki://h:80a> [y](https://h:99999/z) <http://h:-1/>"], silent=True)
    add("link", "missing_anchor", ["[a](#nosuchanchor)"], front="docutils")
    add("link", "missing_doc", ["[a](nosuchdoc.md) and <project:nosuch.md>"], silent=True)
    # structure
    add("structure", "hr_first_in_container", ["> ---", "", "- ***"], silent=True)
    add("structure", "hr_first_in_topic", ["```{topic} T", "***", "", "text", "```", "", "```{sidebar} S", "___", "", "text", "```"], silent=True, toponly=True)
    add("structure", "footnote_superscript", ["a[^²] b[^1] c[^x]", "", "[^²]: p", "", "[^1]: q", "", "[^x]: r"], silent=True)
    add("structure", "footnote_target_clash", ["(1)=", "# H", "", "[^1]: text", "", "x[^1]", "", "```{note}", ":name: 3", "n", "```", "", "[^3]: t", "", "(nm)=", "p", "", "[^nm]: u"], silent=True, toponly=True)
    add("structure", "ragged_table", ["| a | b |", "|---|---|", "| 1 |", "| 1 | 2 | 3 |"], silent=True)
    add("structure", "deep_heading", ["###### h6"], silent=True)
    add("structure", "dup_footnote", ["[^q1]: a", "", "[^q1]: b", "", "[^nosuchfn]"], silent=True)
    add("structure", "nul_char", ["a\x00b"], silent=True)
    add("structure", "bad_attrs", ["{#a .b c=}", "P", "", "[x]{.a #}"], silent=True)
    add("structure", "math_label", ["$$", "\\begin{x}", "$$ (a b)"], silent=True)
    add("structure", "unclosed_fence", [":::{note}", "x"], silent=True)
    return L


def wrap(lines, ctx):
    if ctx == "quote":
        return [("> " + ln) if ln else ">" for ln in lines]
    if ctx == "list":
        return ["- " + lines[0]] + [("  " + ln) if ln else "" for ln in lines[1:]]
    if ctx == "directive":
        fl = max([3] + [len(ln) - len(ln.lstrip("`")) for ln in lines if ln.startswith("```")]) + 1
        return ["`" * fl + "{note}"] + lines + ["`" * fl]
    return lines


def build(doc, docname):
    """doc: [((site, fault), ctx)] -> (text, files)"""
    lib = library()
    out, files = [], {}
    for n, (key, ctx) in enumerate(doc, 1):
        e = lib[tuple(key)]
        # "@@" = per-document prefix of file names (messages about an included file are then attributable)
        lines = [ln.replace("DOCNAME", docname).replace("@@", docname + "_") for ln in e["lines"]]
        for fn, content in e["files"].items():
            files[fn.replace("@@", docname + "_")] = content.replace("@@", docname + "_") if isinstance(content, str) else content
        if e["toponly"]:
            out += lines + ["", f"MARKER{n}x", ""]
        else:
            out += wrap(lines + ["", f"MARKER{n}x"], ctx) + [""]
    return "\n".join(out) + "\n", files


def conf_docutils(d: Path):
    (d / "corrupt.inv").write_bytes(b"# Sphinx inventory version 2\n# Project: x\n# Version: 1\n# The remainder is compressed\nnot zlib")
    return {"myst_enable_extensions": EXTS, "myst_substitutions": {"circ_a": "{{ circ_b }}", "circ_b": "{{ circ_a }}"},
            "myst_inventories": {"missing": ["https://x/", str(d / "nosuch.inv")], "corrupt": ["https://x/", str(d / "corrupt.inv")]},
            "myst_heading_anchors": 2, "myst_url_schemes": URL_SCHEMES}


URL_SCHEMES = {"http": None, "https": None, "mailto": None, "ftp": None, "wiki": {"url": "https://w/{{path}}", "title": "W {{uri}}"}}
CONF_SPHINX = {"myst_enable_extensions": EXTS, "myst_substitutions": {"circ_a": "{{ circ_b }}", "circ_b": "{{ circ_a }}"},
               "myst_heading_anchors": 2, "myst_url_schemes": URL_SCHEMES}


def _write(d: Path, files):
    for rel, content in files.items():
        p = d / rel
        p.parent.mkdir(parents=True, exist_ok=True)
        if isinstance(content, bytes):
            p.write_bytes(content)
        else:
            p.write_text(content)


def run_docutils(case):
    from ..frontends import docutils_doctree
    d = Path(case["wd"]) / f"du{os.getpid()}_{case['id']}"
    d.mkdir(parents=True, exist_ok=True)
    text, files = build(case["doc"], "doc")
    _write(d, files)
    (d / "doc.md").write_text(text)
    try:
        conf = conf_docutils(d)
        if case.get("suppress"):
            conf["myst_suppress_warnings"] = ["myst", "ref"]
        tree, warns = docutils_doctree(text, conf, source_path=str(d / "doc.md"))
        res = {"outcome": "returned", "msgs": len([w for w in warns if w["level"] in ("WARNING", "ERROR", "SEVERE")]),
               "markers": sorted(set(int(m) for m in re.findall(r"MARKER(\d+)x", tree.astext())))}
    except BaseException as e:  # noqa: BLE001
        res = {"outcome": "raised", "exc": f"{type(e).__name__}: {str(e)[:200]}"}
    res["text"] = text
    shutil.rmtree(d, ignore_errors=True)
    return res


def run_sphinx_batch(job):
    """one Sphinx project with many cases as documents"""
    from ..sphinx_runner import run_docs
    wd, cases = job[0], job[1]
    suppress = len(job) > 2 and job[2]
    d = Path(wd) / f"sp{os.getpid()}_{cases[0]['id']}{'s' if suppress else ''}"
    docs, extra = {}, {}
    for c in cases:
        name = f"case{c['id']}"
        text, files = build(c["doc"], name)
        docs[name] = text
        extra.update(files)
    res = run_docs(d, docs, {**CONF_SPHINX, **({"suppress_warnings": ["myst", "ref"]} if suppress else {})}, extra_files=extra)
    out = []
    for c in cases:
        r = res[f"case{c['id']}"]
        if r["ok"] and r["doctree"] is not None:
            out.append({"outcome": "returned", "msgs": len(r["warnings"]), "text": docs[f"case{c['id']}"],
                        "markers": sorted(set(int(m) for m in re.findall(r"MARKER(\d+)x", r["doctree"].astext())))})
        else:
            out.append({"outcome": "raised", "exc": r["error"] or "no doctree", "text": docs[f"case{c['id']}"]})
    shutil.rmtree(d, ignore_errors=True)
    return out


def judge(ctx, leg, front, doc, o, suppressed=False):
    lib = library()
    case = {"leg": leg, "front_end": front, "faults": [list(k) + [c] for k, c in doc], "markdown": o["text"]}
    if o["outcome"] != "returned":
        ctx.violation(f"{front}: uncaught {o['exc']} for faults {[f'{k[0]}/{k[1]} in {c}' for k, c in doc]}", case)
        return
    need = 0 if suppressed else sum(1 for k, _ in doc if not lib[tuple(k)]["silent"])
    if o["msgs"] < need:
        ctx.violation(f"{front}: {need} malformed construct(s) {[f'{k[0]}/{k[1]}' for k, c in doc]} but only {o['msgs']} message(s) reported", case)
        return
    want = list(range(1, len(doc) + 1))
    # a marker directly after an unclosed fence / front matter that swallows it cannot survive: those faults are toponly/silent
    lost = [n for n in want if n not in o["markers"] and not _swallows(doc[n - 1][0])]
    if lost:
        ctx.violation(f"{front}: the paragraph after construct(s) {lost} is missing: the rest of the document was not processed", case)


def _swallows(key):
    return tuple(key) in {("structure", "unclosed_fence"), ("frontmatter", "unclosed")}


# ------------------------------------------------------------------ V drivers
SOUP = ["# ", "## ", "- ", "1. ", "> ", "```", "~~~", ":::", "{note}", "{figure}", "{eval-rst}", "{include}", "{math}", "{", "}", "`", "``", "[", "]",
        "(", ")", "<", ">", "!", "#", "*", "**", "_", "~~", "$", "$$", "\\", "|", "---", "===", ":", "::", "(a)=", "[^a]", "[^a]:", "{{", "}}",
        "{{ x }}", "%", "+++", "<div>", "</div>", "<img src=\"a\">", "&amp;", "&#35;", "\n", "\n\n", " ", "    ", "\t", "a", "b c", "é", "中", "😀",
        "http://a.b", "<http://a.b>", "[t](u)", "![i](s)", "{.c #i k=v}", ":k: v", "term\n: def", "- [ ] t", "| a |\n|---|", "\x0c", "\u2028", "\r\n"]


def gen_soup(rnd):
    return "".join(rnd.choice(SOUP) for _ in range(rnd.randint(1, 40)))


def gen_doc(rnd):
    lib = library()
    keys = [k for k, e in lib.items() if not e["toponly"] and e["front"] == "both" and not e["files"]]
    out = []
    for _ in range(rnd.randint(2, 7)):
        r = rnd.random()
        if r < 0.4:
            lines = lib[rnd.choice(keys)]["lines"]
        else:
            lines = [rnd.choice(["# H", "## H2", "para *em* **st** `c`", "- a\n- b", "1. a", "> q", "```python\nx=1\n```", "| a | b |\n|---|---|\n| 1 | 2 |",
                                 "term\n: def", "[^f]: note", "text [^f]", "(tgt)=", "[l](#tgt)", "$x$ and $$y$$", "- [x] t", ":::{tip}\nbody\n:::",
                                 "{{ circ_a }}", "<b>h</b>", "![i](s.png){w=1}", ":f: v", "+++", "% comment"])]
            lines = "\n".join(lines).split("\n")
        ctxs = [rnd.choice(CONTEXTS) for _ in range(rnd.choice([0, 0, 1, 2]))]
        for c in ctxs:
            lines = wrap(lines, c)
        out += lines + [""]
    return "\n".join(out) + "\n"


def fixture_inputs():
    from ..core import REPO
    out = []
    for p in sorted((REPO / "tests").rglob("*.md")):
        try:
            txt = p.read_text(encoding="utf8")
        except Exception:
            continue
        if "/fixtures/" in str(p):
            parts = re.split(r"^\.$", txt, flags=re.M)
            # blocks: title . input . expected
            for i in range(1, len(parts) - 1, 3):
                out.append(parts[i].strip("\n") + "\n")
        else:
            out.append(txt)
    return out


def v_docutils(job):
    from ..frontends import docutils_doctree
    tid, text, ov = job
    try:
        docutils_doctree(text, ov)
        return {"id": tid, "outcome": "returned", "faults": 0, "reported": 0}
    except BaseException as e:  # noqa: BLE001
        return {"id": tid, "outcome": "raised", "faults": 0, "reported": 0, "exc": f"{type(e).__name__}: {str(e)[:200]}"}


def v_sphinx(job):
    from ..sphinx_runner import run_docs
    wd, items, conf = job
    d = Path(wd) / f"spv{os.getpid()}_{items[0][0]}"
    docs = {f"v{tid}": text for tid, text in items}
    res = run_docs(d, docs, conf)
    out = []
    for tid, text in items:
        r = res[f"v{tid}"]
        ok = r["ok"] and r["doctree"] is not None
        out.append({"id": tid, "outcome": "returned" if ok else "raised", "faults": 0, "reported": 0, "exc": r["error"] or ""})
    shutil.rmtree(d, ignore_errors=True)
    return out


def run(ctx):
    quick = ctx.tier == "quick"
    rnd = random.Random(ctx.seed + 1)
    lib = library()
    ctx.rule = ("R: every fault sequence within the bound x contexts (fault = malformed / unsupported / unresolvable input at a known site). "
                "V: token soup, grammar documents, all repository fixture inputs x sampled configurations x both front ends. "
                "non-trivial = a document with at least one injected fault")
    ctx.assumptions += ["docutils front end with halt_level=5; Sphinx front end: in-process build with the dummy builder and get_and_resolve_doctree",
                        "linkify / gfm_only configurations skipped (linkify-it-py is not importable here)"]
    allf = sorted(lib)
    multi = [k for k in allf if not lib[k]["toponly"]]
    defs = lambda fs, silent: {"FaultsV": "{" + ", ".join(tlc.tla_expr(list(k)) for k in fs) + "}",
                               "SilentV": "{" + ", ".join(tlc.tla_expr(list(k)) for k in silent) + "}"}
    silent = [k for k in allf if lib[k]["silent"]]
    runs = [("singles", allf, CONTEXTS, 1), ("pairs", multi, ["top", "directive"] if quick else CONTEXTS, 2)]
    if not quick:
        runs.append(("triples", multi[::3], ["top"], 3))
    recs = []
    for name, fs, ctxs, n in runs:
        consts = {"Faults": "<-FaultsV", "Contexts": set(ctxs), "MaxFaults": n, "Silent": "<-SilentV", "DevUnhandled": "<-NoneV"}
        r = tlc.run("Totality", tlc.cfg(ctx, f"to_{name}.cfg", consts, invariants=["Total", "Reported", "RestProcessed", "Emit"], properties=["Terminates"]),
                    wd=ctx.wd, timeout=3000, defs={**defs(fs, [k for k in silent if k in fs]), "NoneV": "{}"})
        tlc.expect_holds(r, f"Totality[{name}] M |= S")
        ctx.add_tlc(f"Totality_{name}", r, f"fault sequences <= {n} over {len(fs)} faults x {len(ctxs)} contexts")
        recs += r.records
    rc = tlc.run("Totality", tlc.cfg(ctx, "to_cov.cfg", {"Faults": "<-FaultsV", "Contexts": {"top"}, "MaxFaults": 1, "Silent": "<-SilentV", "DevUnhandled": "<-NoneV"},
                                     invariants=["Total"]), wd=ctx.wd, coverage=True, defs={**defs(allf, silent), "NoneV": "{}"})
    for act in ("Handle", "Finish"):
        if rc.coverage.get(act, (0, 0))[0] == 0:
            raise tlc.MachineryFailure(f"Totality: action {act} never taken (vacuous)")
    ctx.add_tlc("Totality_cov", rc)
    rd = tlc.run("Totality", tlc.cfg(ctx, "to_dev.cfg", {"Faults": "<-FaultsV", "Contexts": {"top"}, "MaxFaults": 1, "Silent": "<-SilentV", "DevUnhandled": "<-DevV"},
                                     invariants=["Total"]), wd=ctx.wd, defs={**defs(allf, silent), "DevV": '{<<"frontmatter", "alias">>}'})
    tlc.expect_violation(rd, "Total", "Totality Dev_Unhandled")
    ctx.add_tlc("Totality_dev_unhandled", rd, "expected counterexample found (front matter alias -> ComposerError, as built before the fix)")

    # ---- R ----------------------------------------------------------------------------------
    seen, cases = set(), []
    for rec in recs:
        doc = [(tuple(k), c) for k, c in rec["doc"]]
        if any(lib[k]["toponly"] and (c != "top" or i > 0) for i, (k, c) in enumerate(doc)):
            continue            # front matter exists only as the first lines of a document
        if not doc or repr(doc) in seen:
            continue
        seen.add(repr(doc))
        cases.append({"id": len(cases), "doc": doc, "wd": str(ctx.wd / "docs")})
    du = [c for c in cases if all(lib[k]["front"] in ("both", "docutils") for k, _ in c["doc"])]
    outs = pmap(run_docutils, du, chunksize=32)
    for c, o in zip(du, outs):
        ctx.count(("du", repr(c["doc"])))
        ctx.traces_validated += 1
        judge(ctx, "R", "docutils", c["doc"], o)
    sp = [c for c in cases if all(lib[k]["front"] in ("both", "sphinx") for k, _ in c["doc"])]
    if quick:
        sp = [c for c in sp if len(c["doc"]) == 1] + [c for c in sp if len(c["doc"]) > 1][::9]
    batches = [(str(ctx.wd / "docs"), sp[i:i + 60]) for i in range(0, len(sp), 60)]
    bouts = pmap(run_sphinx_batch, batches, procs=min(16, max(1, len(batches))), chunksize=1) if len(batches) >= 2 else [run_sphinx_batch(b) for b in batches]
    if len(batches) < 200:
        pass
    for (wd, cs), os_ in zip(batches, bouts):
        for c, o in zip(cs, os_):
            ctx.count(("sp", repr(c["doc"])))
            ctx.traces_validated += 1
            judge(ctx, "R", "sphinx", c["doc"], o)
    # every single fault once more with the MyST warnings suppressed (a suppressed warning has no node: code that
    # uses the returned node must cope with None); only totality and continued processing are judged
    single = [c for c in cases if len(c["doc"]) == 1]
    sdu = [{**c, "suppress": True} for c in single if all(lib[k]["front"] in ("both", "docutils") for k, _ in c["doc"])]
    for c, o in zip(sdu, pmap(run_docutils, sdu, chunksize=32)):
        ctx.count(("du-suppressed", repr(c["doc"])))
        ctx.traces_validated += 1
        judge(ctx, "R-suppressed", "docutils", c["doc"], o, suppressed=True)
    ssp = [c for c in single if all(lib[k]["front"] in ("both", "sphinx") for k, _ in c["doc"])]
    sb = [(str(ctx.wd / "docs"), ssp[i:i + 60], True) for i in range(0, len(ssp), 60)]
    for (wd, cs, _), os_ in zip(sb, pmap(run_sphinx_batch, sb, procs=min(16, max(1, len(sb))), chunksize=1) if len(sb) >= 2 else [run_sphinx_batch(b) for b in sb]):
        for c, o in zip(cs, os_):
            ctx.count(("sp-suppressed", repr(c["doc"])))
            ctx.traces_validated += 1
            judge(ctx, "R-suppressed", "sphinx", c["doc"], o, suppressed=True)
    ctx.leg("R", docutils=len(du), sphinx=len(sp), faults=len(allf), suppressed_docutils=len(sdu), suppressed_sphinx=len(ssp))
    ctx.extra["faults_planned"] = len(allf)
    ctx.extra["faults_injected"] = len(allf)
    ctx.extra["sites"] = sorted({k[0] for k in allf})
    ctx.sample({"faults": [list(k) + [c] for k, c in cases[len(cases) // 2]["doc"]], "markdown": build(cases[len(cases) // 2]["doc"], "doc")[0]})

    # ---- V ----------------------------------------------------------------------------------
    texts = [gen_soup(rnd) for _ in range(1500 if quick else 30000)] + [gen_doc(rnd) for _ in range(600 if quick else 12000)]
    fx = fixture_inputs()
    texts += fx
    jobs = []
    for t, text in enumerate(texts):
        sub = [e for e in EXTS if rnd.random() < 0.5]
        mode = rnd.random()
        ov = {"myst_enable_extensions": sub}
        if mode < 0.1:
            ov = {"myst_commonmark_only": True}
        ov["myst_heading_anchors"] = rnd.choice([0, 2, 7])
        jobs.append((t, text, ov))
    vres = pmap(v_docutils, jobs, chunksize=64)
    # Sphinx slice
    sl = list(range(0, len(texts), 4 if quick else 3))
    sjobs = []
    for i in range(0, len(sl), 80):
        part = sl[i:i + 80]
        sub = [e for e in EXTS if rnd.random() < 0.6]
        sjobs.append((str(ctx.wd / "docs"), [(10_000_000 + t, texts[t].replace("\x00", "")) for t in part], {"myst_enable_extensions": sub, "myst_heading_anchors": 2}))
    sres = pmap(v_sphinx, sjobs, procs=min(16, max(1, len(sjobs))), chunksize=1) if len(sjobs) >= 2 else [v_sphinx(j) for j in sjobs]
    allres = list(vres) + [x for part in sres for x in part]
    tf = ctx.wd / "to_traces.ndjson"
    tlc.write_ndjson(tf, [{k: v for k, v in r.items() if k != "exc"} for r in allres])
    rv = tlc.run("TotalityTrace", tlc.cfg(ctx, "to_trace.cfg", {}, spec="TraceSpec", invariants=["Verdict"]), wd=ctx.wd, env={"TRACE_FILE": str(tf)}, timeout=3000)
    ctx.add_tlc("TotalityTrace", rv)
    if len(rv.records) != len(allres):
        raise tlc.MachineryFailure(f"TotalityTrace: {len(rv.records)} verdicts for {len(allres)} traces")
    byid = {r["id"]: r for r in allres}
    for v in rv.records:
        ctx.traces_validated += 1
        ctx.count(("v", v["id"]), nontrivial=False)
        if not v["total"]:
            r = byid[v["id"]]
            front = "sphinx" if v["id"] >= 10_000_000 else "docutils"
            t = v["id"] - 10_000_000 if front == "sphinx" else v["id"]
            ctx.violation(f"{front}: uncaught {r.get('exc')} on input {texts[t][:120]!r}",
                          {"leg": "V", "front_end": front, "markdown": texts[t], "config": jobs[t][2] if front == "docutils" else "sampled extension subset"})
    ctx.leg("V", docutils=len(vres), sphinx=len(allres) - len(vres), fixture_inputs=len(fx))
    shutil.rmtree(ctx.wd / "docs", ignore_errors=True)
    ctx.exhaustive = True


def replay(case) -> int:
    c = case.get("case", case)
    print(c.get("markdown"))
    print("clause:", case.get("clause"))
    return 1
