"""C06 -- nested parsing is transparent: directive bodies, fences, include, substitution.

T  Nested.tla: two runs of the same content (A written in place, B = Pre . W(X) . Post) with
   the markdown-it environment filled in render order |= Transparent (X's blocks produce the
   same nodes) and, for include / substitution, InPlace (the whole document does);
   Dev_RenderOrderEnv regression (the as-built visibility of definitions).
R  every behaviour concretised as the pair (A, B) with unique markers, both rendered with
   publish_doctree; per block the nodes it produced (signature) and its outcome.
V  random longer Pre / X / Post with seven wrappers (backtick / colon note, with options,
   nested two deep, ::: container, include, substitution), validated by NestedTrace.
"""
from __future__ import annotations

import os
import random
import re
import shutil
from pathlib import Path

from .. import tlc
from ..pool import pmap

META = {
    "level": "model_checking",
    "text": "TLC checks the nested-parse model (shared markdown-it environment filled in render order; document-level resolution of footnotes and targets) as a self-composition of the in-place and the wrapped run against transparency of directive bodies and in-place equivalence of include/substitution, for every Pre/X/Post within the bound and seven wrappers; every behaviour is concretised as a document pair and rendered, comparing per block the produced nodes and outcome; random longer pairs are validated as traces by TLC.",
    "note": "Bound: Pre <= 1, X <= 2, Post <= 1 over 9 blocks (paragraph, colon directive, reference definition/use/use-in-directive, footnote definition/reference, target/link) x 7 wrappers. docutils front end, post-transform trees, line/source not compared (C04). Headings are C05's (rubric inside containers). One as-built deviation is an open finding (a reference definition inside nested text is not visible to text tokenised earlier).",
    "technique": "TLA+ spec + TLC exhaustive check (self-composition); spec-behaviour replay into the code; TLC batch trace validation",
    "specs": ["Nested", "NestedTrace"],
}

BLOCKS = [["p"], ["cdir"], ["def", 1], ["use", 1], ["nuse", 1], ["fdef", 1], ["fref", 1], ["tgt", 1], ["lnk", 1], ["spec"], ["code"]]
MORE = [["list"], ["def", 2], ["use", 2], ["nuse", 2], ["fdef", 2], ["fref", 2], ["tgt", 2], ["lnk", 2], ["topic"], ["img"], ["olist"]]
WRAPPERS = ["btick", "colon", "opts", "nested2", "div", "include", "substitution"]


def block_lines(b, i):
    k = b[0]
    if k == "p":
        # white space that matters: a hard break written as two trailing blanks, a tab inside the text, a backslash break
        # (the indented variant only as the first block of the document: after a list or a footnote definition an indented
        # paragraph is a continuation of that block when written in place)
        return [[f"P{i}x"], [f"  P{i}x indented", "more"], [f"P{i}x one  ", "two\ttab"], [f"P{i}x one\\", "two"]][i % 4 if (i % 4 != 1 or i == 1) else 0]
    if k == "code":
        # trailing blanks and tabs inside code are content; an indented code block written with a tab
        return [["```", f"C{i}x\tt  ", "\tlead  ", "  ", "last", "```"], ["<!-- ends any open list item / footnote definition -->", "", f"\tC{i}x tabbed  ", "\t\tmore"]][i % 2]
    if k == "spec":        # characters that are special in HTML / Jinja / option syntax, a quote, a code span, an autolink
        return [f"> S{i}x a < b & \"c\" 'd' `x<y&z` <https://e.x/?a=1&b=2>", ">", "> :colon: line"]
    if k == "list":
        mk = "-" if i % 2 else "*"          # adjacent lists with the same marker would merge into one
        sep = "\t" if i % 3 == 0 else " "    # a tab after the marker (tab stop 4)
        return [f"{mk}{sep}L{i}x", f"{mk}{sep}second"]
    if k == "cdir":
        return [":::{tip}", f"D{i}x", ":::"]
    if k == "def":
        return [f"[r{b[1]}]: https://e.x/{b[1]}"]
    if k == "use":
        return [f"U{i}x [t{i}][r{b[1]}]"]
    if k == "nuse":
        return ["```{note}", f"N{i}x [t{i}][r{b[1]}]", "```"]
    if k == "fdef":
        return [f"[^f{b[1]}]: F{i}x"]
    if k == "fref":
        return [f"G{i}x [^f{b[1]}]"]
    if k == "topic":       # directives that ask the state machine whether titles are allowed where they stand
        return ["```{" + ("topic" if i % 2 else "sidebar") + "} Title " + str(i), f"O{i}x", "```"]
    if k == "olist":       # a one-line ordered list (a line that starts with a digit is not always a paragraph)
        return [f"{i % 3 + 1}{'.)'[i % 2]} E{i}x item"]
    if k == "img":         # a relative image path is kept as written (also in a file included from another folder)
        return [f"I{i}x ![alt {i}](images/l{i}.png)"]
    if k == "tgt":
        return [f"(tg{b[1]})=", f"T{i}x"]
    if k == "lnk":
        return [f"K{i}x [k{i}](#tg{b[1]})"]
    raise ValueError(k)


MARK = {"spec": "S", "p": "P", "code": "C", "list": "L", "cdir": "D", "use": "U", "nuse": "N", "fdef": "F", "fref": "G", "tgt": "T", "lnk": "K", "topic": "O", "img": "I", "olist": "E"}


def join(blocks, start):
    lines = []
    for n, b in enumerate(blocks):
        if lines:
            lines.append("")
        lines += block_lines(b, start + n)
    return lines


def pair(pre, x, post, w, d: Path, uid):
    """-> (textA, textB, overridesB)"""
    lp = join(pre, 1)
    lx = join(x, 1 + len(pre))
    lq = join(post, 1 + len(pre) + len(x))

    def doc(parts):
        out = []
        for p in parts:
            if p:
                if out:
                    out.append("")
                out += p
        return "\n".join(out) + "\n"
    a = doc([lp, lx, lq])
    ov = {}
    fl = max([3] + [len(ln) - len(ln.lstrip("`")) for ln in lx if ln.startswith("```")]) + 1
    cl = max([3] + [len(ln) - len(ln.lstrip(":")) for ln in lx if ln.startswith(":::")]) + 1
    # (every third wrapper is an admonition whose title, written on the opening line, ends with a colon)
    head = f"{{admonition}} Title W{uid}:" if uid % 3 == 1 else "{note}"
    if w == "btick":
        wx = ["`" * fl + head] + lx + ["`" * fl]
    elif w == "colon":
        wx = [":" * cl + head] + lx + [":" * cl]
    elif w == "opts":
        # the body follows the option block after a blank line, or directly (when its first line cannot be an option line)
        tight = uid % 3 == 0 and lx and not lx[0].lstrip().startswith(":") and lx[0].strip() != ""
        wx = ["`" * fl + "{note}", ":class: c1"] + ([] if tight else [""]) + lx + ["`" * fl]
    elif w == "nested2":
        wx = ["`" * (fl + 1) + "{note}", "`" * fl + "{warning}"] + lx + ["`" * fl, "`" * (fl + 1)]
    elif w == "div":
        wx = [":" * cl] + lx + [":" * cl]
    elif w == "include":
        # (the same few file names are used again and again within a worker process, with new contents each time:
        # what is included is the file as it is now)
        fn = f"inc{uid % 3}.md" if uid % 2 else f"sub/inc{uid % 3}.md"          # (the file may live in another folder)
        (d / "sub").mkdir(exist_ok=True)
        (d / fn).write_text("\n".join(lx) + "\n")
        wx = [f"```{{include}} {fn}", "```"]
    else:
        ov = {"myst_substitutions": {"subx": "\n".join(lx)}}
        wx = ["{{ subx }}"]
    return a, doc([lp, wx, lq]), ov


def signatures(doc, blocks):
    """per block: (signature string, outcome kind)"""
    from docutils import nodes
    sigs, kinds = [], []
    inside = []
    for i, b in enumerate(blocks, 1):
        k = b[0]
        if k == "def":
            sigs.append("")
            kinds.append("ok")
            inside.append(None)
            continue
        mk = f"{MARK[k]}{i}x"
        hit = None
        for n in doc.findall(nodes.Element):
            if isinstance(n, (nodes.document, nodes.section, nodes.system_message)) or any(isinstance(a, nodes.system_message) for a in _anc(n)):
                continue
            if mk not in n.astext():
                continue
            if k in ("cdir", "nuse"):
                if isinstance(n, nodes.Admonition):
                    hit = n             # document order: the innermost admonition comes last
            elif isinstance(n, (nodes.paragraph, nodes.literal_block, nodes.bullet_list, nodes.enumerated_list, nodes.footnote, nodes.topic, nodes.sidebar)):
                hit = n
                break
        if hit is None:
            sigs.append("<missing>")
            kinds.append("missing-node")
            inside.append(None)
            continue
        inside.append(any(isinstance(a, (nodes.Admonition, nodes.container)) for a in _anc(hit)))
        cp = hit.deepcopy()
        for sm in list(cp.findall(nodes.system_message)):
            sm.parent.replace(sm, nodes.comment("", "<message>"))       # message text carries source path and line (C04)
        sig = re.sub(r' (ids|backrefs|refid)="[^"]*"', "", cp.pformat())
        sigs.append(sig)
        if k in ("use", "nuse"):
            refs = [r for r in hit.findall(nodes.reference) if r.get("refuri", "").startswith("https://e.x/")]
            kinds.append("link" if refs else "literal")
        elif k == "fref":
            fr = list(hit.findall(nodes.footnote_reference))
            kinds.append("footnote" if fr and "refid" in fr[0] else "unresolved")
        elif k == "lnk":
            rr = [r for r in hit.findall(nodes.reference) if r.get("id_link") or "refid" in r]
            bad = any(isinstance(c, nodes.system_message) for r in rr for c in r.children)
            kinds.append("resolved" if rr and not bad else "missing")
        else:
            kinds.append("ok")
    signatures.inside = inside
    return sigs, kinds


def _anc(n):
    p = n.parent
    while p is not None:
        yield p
        p = p.parent


def observe(case):
    from ..frontends import docutils_doctree
    d = Path(case["wd"]) / f"n{os.getpid()}"
    d.mkdir(parents=True, exist_ok=True)
    pre, x, post, w = case["pre"], case["x"], case["post"], case["w"]
    a, b, ovb = pair(pre, x, post, w, d, case["id"])
    base = {"myst_enable_extensions": ["colon_fence", "substitution"]}
    sort = case["id"] % 2 == 0
    if not sort:
        base["myst_footnote_sort"] = False         # (footnote definitions then stay where they are written)
    blocks = pre + x + post
    try:
        da, _ = docutils_doctree(a, dict(base), source_path=str(d / "a.md"))
        db, _ = docutils_doctree(b, {**base, **ovb}, source_path=str(d / "b.md"))
    except Exception as e:  # noqa: BLE001
        return {"error": f"{type(e).__name__}: {e}", "a": a, "b": b}
    sa, ka = signatures(da, blocks)
    sb, kb = signatures(db, blocks)
    if w in ("btick", "colon") and case["id"] % 3 == 1:
        from docutils import nodes as _dn
        want = f"Title W{case['id']}:"
        got = [t.astext() for t in db.findall(_dn.title) if t.astext().startswith("Title W")]
        if got != [want]:
            return {"error": f"the title written on the wrapper's opening line is {got}, written {want!r} (no exception: title check)", "a": a, "b": b}
    return {"a": a, "b": b, "sigA": sa, "sigB": sb, "kindsA": ka, "kindsB": kb, "insideB": signatures.inside, "sort": sort}


def _sig_known(c):
    """signature of the open finding C06-definition-order: a use/nuse outside X (or a nuse before X) of a
    reference definition that is made inside X"""
    inner = {b[1] for b in c["x"] if b[0] == "def"}
    outer = {b[1] for b in c["pre"] + c["post"] if b[0] == "def"}
    return any(b[0] in ("use", "nuse") and b[1] in inner and b[1] not in outer for b in c["pre"] + c["post"])


def run(ctx):
    quick = ctx.tier == "quick"
    rnd = random.Random(ctx.seed + 6)
    ctx.rule = ("R: every (Pre, X, Post, wrapper) within the bound, rendered as the pair (in place, wrapped). V: random longer pairs. "
                "non-trivial = X contains a definition, footnote, target or nested directive, or is used from outside")
    ctx.assumptions += ["docutils front end, post-transform trees; ids/backrefs/refid values and line/source are not part of the node signature"]
    base = {"Blocks": "<-BlocksV", "Wrappers": set(WRAPPERS), "MaxPre": 1, "MaxX": 2, "MaxPost": 1, "DevRenderOrderEnv": False}
    defs = {"BlocksV": "{" + ", ".join(tlc.tla_expr(b) for b in (BLOCKS if quick else BLOCKS + MORE[:4])) + "}"}
    r = tlc.run("Nested", tlc.cfg(ctx, "n_mc.cfg", base, invariants=["Transparent", "InPlace", "Emit"], properties=["Terminates"]), wd=ctx.wd, timeout=3000, defs=defs)
    tlc.expect_holds(r, "Nested M |= S")
    ctx.add_tlc("Nested_mc", r, "Pre <= 1, X <= 2, Post <= 1, 7 wrappers")
    rc = tlc.run("Nested", tlc.cfg(ctx, "n_cov.cfg", {**base, "MaxX": 1, "MaxPre": 0, "MaxPost": 0}, invariants=["Transparent"]), wd=ctx.wd, coverage=True, defs=defs)
    for act in ("RunA", "RunB"):
        if rc.coverage.get(act, (0, 0))[0] == 0:
            raise tlc.MachineryFailure(f"Nested: action {act} never taken (vacuous)")
    ctx.add_tlc("Nested_cov", rc)
    rd = tlc.run("Nested", tlc.cfg(ctx, "n_dev.cfg", {**base, "DevRenderOrderEnv": True, "MaxX": 1}, invariants=["InPlace"]), wd=ctx.wd, defs=defs)
    tlc.expect_violation(rd, "InPlace", "Nested Dev_RenderOrderEnv")
    ctx.add_tlc("Nested_dev_renderorderenv", rd, "expected counterexample found (definition inside an include used by earlier-tokenised text)")

    cases = []
    for n, rec in enumerate(r.records):
        if quick and not (rec["w"] in ("colon", "include") or n % 6 == 0):
            continue
        cases.append({"id": len(cases), "pre": [list(b) for b in rec["pre"]], "x": [list(b) for b in rec["x"]], "post": [list(b) for b in rec["post"]],
                      "w": rec["w"], "wd": str(ctx.wd / "docs")})
    for t in range(250 if quick else 5000):
        pool = BLOCKS + MORE
        cases.append({"id": 1_000_000 + t, "pre": [list(rnd.choice(pool)) for _ in range(rnd.randint(0, 3))],
                      "x": [list(rnd.choice(pool)) for _ in range(rnd.randint(1, 5))],
                      "post": [list(rnd.choice(pool)) for _ in range(rnd.randint(0, 3))], "w": rnd.choice(WRAPPERS), "wd": str(ctx.wd / "docs")})
    outs = pmap(observe, cases, chunksize=16)
    intern = {}
    traces, keep = [], {}
    for c, o in zip(cases, outs):
        leg = "R" if c["id"] < 1_000_000 else "V"
        case = {"leg": leg, "wrapper": c["w"], "in_place": o.get("a"), "wrapped": o.get("b")}
        if "error" in o:
            ctx.violation(f"rendering raised {o['error']}", case)
            continue
        if "<missing>" in o["sigA"]:
            ctx.gen_miss += 1
            continue
        nontrivial = any(b[0] in ("def", "fdef", "tgt", "cdir", "nuse") for b in c["x"])
        ctx.count((leg, c["id"]), nontrivial)
        if c["w"] in ("btick", "colon", "opts", "nested2", "div"):
            # what is written in a directive's body is rendered INTO the directive's node (only collected footnotes leave it)
            blocks_ = c["pre"] + c["x"] + c["post"]
            for n_ in range(len(c["pre"]), len(c["pre"]) + len(c["x"])):
                if o["insideB"][n_] is False and not (blocks_[n_][0] == "fdef" and o["sort"]):
                    ctx.violation(f"block {n_ + 1} {blocks_[n_]} written in the body of the wrapper {c['w']} is not inside the wrapper's node "
                                  f"(footnote_sort={o['sort']})", case)
                    break
        keep[c["id"]] = (c, o, case)
        enc = lambda ss: [intern.setdefault(s, len(intern) + 1) for s in ss]      # noqa: E731
        traces.append({"id": c["id"], "pre": c["pre"], "x": c["x"], "post": c["post"], "w": c["w"],
                       "sigA": enc(o["sigA"]), "sigB": enc(o["sigB"]), "kindsA": o["kindsA"], "kindsB": o["kindsB"]})

    def validate(trs, dev, name):
        # (TLC reads a batch of traces at start-up: bounded batches)
        out = {}
        B = 20000
        for b in range(0, max(1, len(trs)), B):
            part = trs[b:b + B]
            nm = name if len(trs) <= B else f"{name}_{b // B}"
            tf = ctx.wd / f"{nm}.ndjson"
            tlc.write_ndjson(tf, part)
            rv = tlc.run("NestedTrace", tlc.cfg(ctx, f"{nm}.cfg", {**base, "MaxPre": 0, "MaxX": 0, "MaxPost": 0, "DevRenderOrderEnv": dev}, spec="TraceSpec", invariants=["Verdict"]),
                         wd=ctx.wd, env={"TRACE_FILE": str(tf)}, timeout=3000, defs=defs)
            ctx.add_tlc(nm, rv)
            if len(rv.records) != len(part):
                raise tlc.MachineryFailure(f"{nm}: {len(rv.records)} verdicts for {len(part)} traces")
            out.update({v["id"]: v for v in rv.records})
            tf.unlink()
        return out
    vs = validate(traces, False, "NestedTrace")
    suspects = [t for t in traces if vs[t["id"]]["same"] or vs[t["id"]]["ma"] or vs[t["id"]]["mb"]]
    for t in traces:
        ctx.traces_validated += 1
    if suspects:
        vd = validate(suspects, True, "NestedTrace_dev")
        for t in suspects:
            c, o, case = keep[t["id"]]
            v, v2 = vs[t["id"]], vd[t["id"]]
            blocks = c["pre"] + c["x"] + c["post"]
            n = min(v["same"] or v["mb"] or v["ma"])
            what = (f"block {n} {blocks[n - 1]}: nodes differ between the text written in place and wrapped in {c['w']}" if v["same"]
                    else f"block {n} {blocks[n - 1]}: outcome {o['kindsB'][n - 1] if v['mb'] else o['kindsA'][n - 1]} is not the model's")
            # known finding: the as-built model explains BOTH recorded runs, and the only differing blocks are
            # early-tokenised uses of definitions made inside X
            explained = not v2["ma"] and not v2["mb"] and _sig_known(c) and all(blocks[m - 1][0] in ("use", "nuse") for m in v["same"])
            ctx.violation(what, case, finding="C06-definition-order" if explained else None)
    ctx.leg("R+V", pairs=len(traces), model_behaviours=len(r.records))
    mid = cases[len(cases) // 3]
    ctx.sample({"pre": mid["pre"], "x": mid["x"], "post": mid["post"], "wrapper": mid["w"]})
    shutil.rmtree(ctx.wd / "docs", ignore_errors=True)
    ctx.exhaustive = not quick


def replay(case) -> int:
    c = case.get("case", case)
    print("--- in place\n" + str(c.get("in_place")) + "--- wrapped\n" + str(c.get("wrapped")))
    print("clause:", case.get("clause"))
    return 1
