"""C11 -- footnotes are numbered, linked and collected consistently.

T  Footnotes.tla: render actions + the transform chain (SortFootnotes, docutils numbering,
   resolution, UnreferencedFootnotesDetector, CollectFootnotes) |= KeepFirst,
   LabelsDistinct, NumericKept, FirstRefOrder, Compact, Linked, Unreferenced, Collected,
   InPlace, for every arrangement within the bound x footnote_sort x footnote_transition.
R  every behaviour -> Markdown -> publish_doctree (docutils) -> projected footnote
   structure (kept definitions, numbers, owner and label of every reference, backrefs,
   warnings with lines, final order of the top-level blocks incl. the transition).
V  random arrangements of up to 30 blocks over more labels, validated by FootnotesTrace.
"""
from __future__ import annotations

import random

from .. import tlc
from ..pool import pmap

META = {
    "level": "model_checking",
    "text": "TLC checks the footnote model (registries filled during rendering, then SortFootnotes, docutils' numbering, resolution, the unreferenced detector and CollectFootnotes as separate actions) against the declarative numbering/linking/collection clauses for every arrangement within the bound and all four flag settings; every behaviour is replayed through publish_doctree and random long arrangements are validated as traces by TLC. The order of that chain is itself a model (Pipeline: docutils' priority scheduler over the transforms registered in this tree, priorities extracted at check time) checked against the stage order the footnote and anchor models rely on, and bound to recorded Transformer runs.",
    "note": "Bound: arrangements <= 4 (quick) / 5 (thorough) top-level blocks over labels {a, A, 1, 2} (labels are matched literally: a and A are two footnotes) (reference paragraph or definition) x footnote_sort x footnote_transition. Containers: the definition inside a block quote and the reference inside a note directive, <= the same bound over labels {a, 1}. docutils front end. With sorting off docutils numbers auto footnotes in definition order; only injectivity, compactness and kept numeric labels are claimed there. References whose label has no definition are left to docutils (no claim except that others are undisturbed).",
    "technique": "TLA+ spec + TLC exhaustive check; spec-behaviour replay into the code; TLC batch trace validation",
    "specs": ["Footnotes", "FootnotesTrace", "Pipeline", "PipelineTrace"],
}

INVS = ["KeepFirst", "LabelsDistinct", "NumericKept", "FirstRefOrder", "Compact", "Linked", "Unreferenced", "Collected", "InPlace"]


def doc_text(evs):
    lines, at_line = [], {}
    seen_defs = set()
    dropped = set()
    for i, (k, l) in enumerate(evs, 1):
        at_line[i] = len(lines) + 1
        dup_tail = ""
        if k == "ddef" and (i - 1) in dropped:
            pass            # written inside a dropped body: it does not exist (and defines nothing)
        elif k in ("def", "qdef", "ddef"):
            if l in seen_defs:
                dropped.add(i)
                # the text of a dropped duplicate is not part of the document: a reference written inside it refers to nothing
                other = next((m for _, m in evs if m != l), None)
                dup_tail = f" see [^{other}]" if other and other != "-" else ""
            seen_defs.add(l)
        lines += {"ref": [f"R{i} [^{l}]"], "def": [f"[^{l}]: D{i}{dup_tail}"], "hr": ["***"], "head": [f"# {l}"],
                  "qdef": [f"> [^{l}]: D{i}{dup_tail}"], "nref": ["```{note}", f"R{i} [^{l}]", "```"],
                  # a second paragraph of the definition written just before (indented continuation)
                  "dref": [f"    R{i} [^{l}]"],
                  # a definition inside the body of the definition written just before
                  "ddef": [f"    [^{l}]: D{i}{dup_tail}"]}[k] + [""]
    return "\n".join(lines) + "\n", at_line


def observe(case):
    import re
    from docutils import nodes
    from ..frontends import docutils_doctree
    evs = case["evs"]
    text, at_line = doc_text(evs)
    line_at = {v: k for k, v in at_line.items()}
    try:
        doc, warns = docutils_doctree(text, {"myst_footnote_sort": case["sort"], "myst_footnote_transition": case["trans"], "report_level": 2})
    except Exception as e:  # noqa: BLE001
        return {"error": f"{type(e).__name__}: {e}", "text": text}
    return project_doc(doc, warns, evs, text, line_at, case["sort"])


def project_doc(doc, warns, evs, text, line_at, sort):
    """doctree (after the transforms) + warnings -> the observation record of FootnotesTrace"""
    import re
    from docutils import nodes
    case = {"sort": sort}
    problems = []
    fns = list(doc.findall(nodes.footnote))
    at_of = {}
    for f in fns:
        m = re.search(r"\bD(\d+)\b", f.astext())
        if not m:
            problems.append("footnote without its body text")
            continue
        at_of[id(f)] = int(m.group(1))
    ats = sorted(at_of.values())
    if len(set(ats)) != len(ats):
        problems.append("a definition body occurs twice")
    didx = {a: n for n, a in enumerate(sorted(set(ats)), 1)}
    num = [0] * len(didx)
    backrefs = [0] * len(didx)
    for f in fns:
        if id(f) not in at_of:
            continue
        d = didx[at_of[id(f)]]
        lab = f.children[0].astext() if f.children and isinstance(f.children[0], nodes.label) else ""
        num[d - 1] = int(lab) if lab.isdigit() else -1
        backrefs[d - 1] = len(f.get("backrefs", []))
        if not (f.children and isinstance(f.children[0], nodes.label)):
            problems.append("footnote does not start with its label")
    # references, by marker paragraph
    refview = []
    for i, (k, l) in enumerate(evs, 1):
        if k not in ("ref", "nref", "dref"):
            continue
        para = [p for p in doc.findall(nodes.paragraph) if re.match(rf"R{i}\b", p.astext()) and not isinstance(p.parent, nodes.system_message)]
        if k == "dref":
            if not para:
                continue        # the body of a dropped duplicate definition is not in the document (the model has no reference either)
            if not isinstance(para[0].parent, nodes.footnote):
                problems.append(f"paragraph R{i} of a definition's body is outside the footnote")
        if len(para) != 1:
            problems.append(f"reference paragraph R{i} occurs {len(para)} times")
            refview.append([-1, -1])
            continue
        frs = list(para[0].findall(nodes.footnote_reference))
        if len(frs) != 1 or "refid" not in frs[0]:
            refview.append([0, 0])
            continue
        tgt = doc.ids.get(frs[0]["refid"])
        if tgt is None or id(tgt) not in at_of:
            refview.append([0, 0] if tgt is not None else [-2, -2])      # (resolved by docutils to something that is no footnote: no definition, no claim)
            continue
        t = frs[0].astext()
        refview.append([didx[at_of[id(tgt)]], int(t) if t.isdigit() else -1])
        if frs[0]["ids"] and frs[0]["ids"][0] not in tgt.get("backrefs", []):
            problems.append(f"reference R{i} is not among the back-references of its footnote")
    # top-level order
    final = []

    def flat(node):
        for c in node.children:
            if isinstance(c, nodes.section):
                if "system-messages" in c.get("classes", []):
                    continue
                yield from flat(c)
            else:
                yield c
    for c in flat(doc):
        if isinstance(c, nodes.paragraph):
            m = re.match(r"R(\d+)\b", c.astext())
            final.append(["p", int(m.group(1))] if m else ["?"])
        elif isinstance(c, nodes.title):
            final.append(["s", line_at.get(c.line, -1)])
        elif isinstance(c, nodes.footnote):
            final.append(["f", didx.get(at_of.get(id(c)), -1)])
        elif isinstance(c, nodes.transition):
            final.append(["t"] if "footnotes" in c.get("classes", []) else ["h", line_at.get(c.line, -1)])
        elif isinstance(c, nodes.system_message):
            if "[ref.footnote]" in c.astext():
                final.append(["w", line_at.get(c.get("line"), -1)])      # (docutils' own messages, e.g. about a final transition, are not MyST's)
        elif isinstance(c, nodes.block_quote):
            holds = ("fn" if list(c.findall(nodes.footnote)) else
                     "warn" if any("[ref.footnote]" in m.astext() for m in c.findall(nodes.system_message)) else "empty")
            final.append(["q", line_at.get(c.line, -1), holds])
        elif isinstance(c, nodes.note):
            m = re.search(r"R(\d+)\b", c.astext())
            final.append(["n", int(m.group(1))] if m else ["?"])
        else:
            final.append(["?", c.tagname])
    # a definition written inside a block quote stays there when sorting is off; anything else is at document/section level
    qdef_at = {i for i, (k, _) in enumerate(evs, 1) if k == "qdef"}
    ddef_at = {i for i, (k, _) in enumerate(evs, 1) if k == "ddef"}
    nested = [f for f in fns if not isinstance(f.parent, (nodes.document, nodes.section))
              and not (not case["sort"] and at_of.get(id(f)) in qdef_at and isinstance(f.parent, nodes.block_quote))
              and not (not case["sort"] and at_of.get(id(f)) in ddef_at and isinstance(f.parent, nodes.footnote))]
    if nested:
        problems.append("footnote not at document/section level")
    dupw, unrefw = [], []
    for w in warns:
        if w["tag"] != "ref.footnote":
            continue
        at = line_at.get(w["line"], -1)
        if at in didx:
            unrefw.append(didx[at])
        else:
            dupw.append(at)
    return {"text": text, "problems": problems,
            "obs": {"defs_at": sorted(didx), "num": num, "refview": refview, "backrefs": backrefs,
                    "dupw": sorted(dupw), "unrefw": sorted(unrefw), "final": final}}


def numeric_leg(ctx):
    """numeric labels keep their number as written, also 0 and numbers written with leading zeros (labels outside the
    model's label set: the model treats every digit string alike)"""
    from docutils import nodes
    from ..frontends import docutils_doctree
    for sort in (True, False):
        for labs in (["0", "2", "n", "007"], ["01", "1"], ["10", "0", "x", "2"]):
            text = " ".join(f"r{l}[^{l}]" for l in labs) + "\n\n" + "\n\n".join(f"[^{l}]: D{l}" for l in labs) + "\n"
            ctx.count(("numeric", text, sort))
            ctx.traces_validated += 1
            case = {"leg": "R-numeric", "markdown": text, "footnote_sort": sort}
            try:
                doc, warns = docutils_doctree(text, {"myst_footnote_sort": sort})
            except Exception as e:  # noqa: BLE001
                ctx.violation(f"publish_doctree raised {type(e).__name__}: {e}", case)
                continue
            shown = {}
            for f in doc.findall(nodes.footnote):
                body = f.astext()
                for l in labs:
                    if body.endswith("D" + l):
                        shown[l] = f.children[0].astext() if isinstance(f.children[0], nodes.label) else None
            bad = [l for l in labs if l.isdigit() and shown.get(l) != l]
            if bad:
                ctx.violation(f"numeric footnote labels {bad} do not keep their number: definitions show {shown}", case)
            refs = {r.astext() for r in doc.findall(nodes.footnote_reference)}
            if not all(l in refs for l in labs if l.isdigit()):
                ctx.violation(f"references to numeric labels show {sorted(refs)}", case)
    ctx.leg("R-numeric", documents=6)


def sphinx_leg(ctx, recs, quick):
    """Sphinx front end: the project sets footnote_sort / footnote_transition one way, every document sets its own values
    in its front matter (half of them the opposite): the transforms obey the DOCUMENT's configuration."""
    from ..sphinx_runner import run_docs
    pick = [r for r in recs if any(k in ("def", "qdef") for k, _ in r["evs"]) and any(k in ("ref", "nref", "dref") for k, _ in r["evs"])]
    step = max(1, len(pick) // (60 if quick else 400))
    pick = pick[::step][:(60 if quick else 400)]
    docs, meta = {}, {}
    gsort, gtrans = True, True
    for n, rec in enumerate(pick):
        body, at_line = doc_text(rec["evs"])
        fm = ["---", "myst:", f"  footnote_sort: {str(rec['sort']).lower()}", f"  footnote_transition: {str(rec['trans']).lower()}", "---", ""]
        if (rec["sort"], rec["trans"]) == (gsort, gtrans) and n % 2:
            fm = []                   # (nothing to override: no front matter at all)
        text = "\n".join(fm) + ("\n" if fm else "") + "# T\n\n" + body
        off = len(fm) + 2
        docs[f"f{n}"] = text
        meta[f"f{n}"] = (rec, {v + off: k for k, v in at_line.items()})
    out = run_docs(ctx.wd / "sx_fn", docs, {"myst_footnote_sort": gsort, "myst_footnote_transition": gtrans}, resolve=True)
    for name, (rec, line_at) in meta.items():
        o = out.get(name)
        ctx.count(("sphinx-fn", name))
        ctx.traces_validated += 1
        case = {"leg": "R-sphinx", "markdown": docs[name], "conf": {"myst_footnote_sort": gsort, "myst_footnote_transition": gtrans}}
        if not o or not o["ok"] or o["doctree"] is None:
            ctx.violation(f"Sphinx build failed: {o and o['error']}", case)
            continue
        doc = o["doctree"]
        # the page title is not part of the arrangement
        p = project_doc(doc, [w for w in o["warnings"]], rec["evs"], docs[name], line_at, rec["sort"])
        if p["problems"]:
            ctx.violation("Sphinx: " + "; ".join(p["problems"]), case)
            continue
        exp = _exp(rec)
        obs = p["obs"]
        obs["final"] = [x for x in obs["final"] if x != ["s", -1]]
        # (Sphinx removes the system messages from the tree: a dropped duplicate leaves nothing behind)
        exp["final"] = [(["q", x[1], "empty"] if x[0] == "q" and x[2] == "warn" else x) for x in exp["final"] if x[0] != "w"]
        # (warnings are compared under docutils; a second resolution pass repeats some of Sphinx's)
        bad = [k for k in ("defs_at", "num", "refview", "backrefs", "final") if exp[k] != obs[k]]
        if bad:
            k = bad[0]
            ctx.violation(f"Sphinx, front matter footnote_sort={rec['sort']} footnote_transition={rec['trans']}: {k}: expected {exp[k]}, observed {obs[k]}",
                          {**case, "expected": exp, "observed": obs})
    ctx.leg("R-sphinx", documents=len(meta))
    import shutil
    shutil.rmtree(ctx.wd / "sx_fn", ignore_errors=True)


def _exp(rec):
    return {"defs_at": [d["at"] for d in rec["defs"]], "num": list(rec["num"]), "refview": [list(x) for x in rec["refview"]],
            "backrefs": list(rec["backrefs"]), "dupw": sorted(rec["dupw"]), "unrefw": sorted(rec["unrefw"]),
            "final": [list(x) for x in rec["final"]]}


def run(ctx):
    quick = ctx.tier == "quick"
    ctx.rule = ("R: every arrangement <= MaxEv over {ref, def} x {a, b, 1, 2} x footnote_sort x footnote_transition. "
                "V: random arrangements of 3-30 blocks over 14 labels. non-trivial = at least one definition and one reference")
    ctx.assumptions += ["docutils front end (publish_doctree); every reference in its own paragraph, definitions at top level"]
    n = 4 if quick else 5
    consts = {"Labels": {"a", "A", "1", "2"}, "MaxEv": n, "WithHr": False, "WithHead": False, "WithNested": False}
    r = tlc.run("Footnotes", tlc.cfg(ctx, "fn_mc.cfg", consts, invariants=INVS + ["Emit"], properties=["Terminates"]), wd=ctx.wd, timeout=3000)
    tlc.expect_holds(r, "Footnotes M |= S")
    ctx.add_tlc("Footnotes_mc", r, f"arrangements <= {n} x 4 flag settings")
    want = sum(8 ** k for k in range(n + 1)) * 4
    if len(r.records) != want:
        raise tlc.MachineryFailure(f"Footnotes: {len(r.records)} behaviours exported, expected {want}")
    r2 = tlc.run("Footnotes", tlc.cfg(ctx, "fn_mc2.cfg", {"Labels": {"a", "1"}, "MaxEv": n, "WithHr": True, "WithHead": True, "WithNested": False}, invariants=INVS + ["Emit"]), wd=ctx.wd, timeout=3000)
    tlc.expect_holds(r2, "Footnotes[hr, headings] M |= S")
    ctx.add_tlc("Footnotes_mc_hr_head", r2, f"arrangements <= {n} over ref/def x {{a, 1}}, thematic break, heading named like a label")
    r3 = tlc.run("Footnotes", tlc.cfg(ctx, "fn_mc3.cfg", {"Labels": {"a", "1"}, "MaxEv": n, "WithHr": False, "WithHead": False, "WithNested": True},
                                      invariants=INVS + ["Emit"]), wd=ctx.wd, timeout=3000)
    tlc.expect_holds(r3, "Footnotes[containers] M |= S")
    ctx.add_tlc("Footnotes_mc_nested", r3, f"arrangements <= {n} over ref/def at top level, the definition inside a block quote, the reference inside a note x {{a, 1}}")
    rc = tlc.run("Footnotes", tlc.cfg(ctx, "fn_cov.cfg", {**consts, "MaxEv": 3, "WithHr": True, "WithHead": True}, invariants=INVS), wd=ctx.wd, coverage=True)
    for act in ("RenderRef", "RenderDef", "RenderOther", "RenderEnd", "SortStep", "NumberStep", "DetectStep", "CollectStep"):
        if rc.coverage.get(act, (0, 0))[0] == 0:
            raise tlc.MachineryFailure(f"Footnotes: action {act} never taken (vacuous)")
    ctx.add_tlc("Footnotes_cov", rc)
    # the order of the transform chain the model is written in, for the priorities in this tree
    from .. import pipeline
    pipeline.check(ctx, "C11")
    recs = (r.records + [x for x in r2.records if any(e[0] in ("hr", "head") for e in x["evs"])]
            + [x for x in r3.records if any(e[0] in ("qdef", "nref", "dref", "ddef") for e in x["evs"])])
    outs = pmap(observe, recs, chunksize=64)
    for rec, o in zip(recs, outs):
        key = (repr(rec["evs"]), rec["sort"], rec["trans"])
        ks = {k for k, _ in rec["evs"]}
        ctx.count(key, nontrivial=bool(ks & {"ref", "nref", "dref"}) and bool(ks & {"def", "qdef", "ddef"}))
        ctx.traces_validated += 1
        case = {"leg": "R", "markdown": o["text"], "footnote_sort": rec["sort"], "footnote_transition": rec["trans"]}
        if "error" in o:
            ctx.violation(f"publish_doctree raised {o['error']}", case)
            continue
        if o["problems"]:
            ctx.violation("; ".join(o["problems"]), case)
            continue
        exp = _exp(rec)
        bad = [k for k in exp if exp[k] != o["obs"][k]]
        if bad:
            k = bad[0]
            ctx.violation(f"{k}: expected {exp[k]}, observed {o['obs'][k]} (footnote_sort={rec['sort']}, footnote_transition={rec['trans']})",
                          {**case, "expected": exp, "observed": o["obs"]})
    mid = recs[len(recs) // 2]
    ctx.sample({"arrangement": mid["evs"], "sort": mid["sort"], "transition": mid["trans"], "expected": _exp(mid)})
    ctx.leg("R", behaviours=len(recs))
    sphinx_leg(ctx, recs, quick)
    numeric_leg(ctx)

    # ---- V ----------------------------------------------------------------------------------
    rnd = random.Random(ctx.seed + 11)
    labels = ["a", "b", "c", "d", "e", "note", "Note", "A", "1", "2", "3", "5", "10", "12"]
    cases = []
    for t in range(300 if quick else 5000):
        k = rnd.randint(3, 30)
        pool = rnd.sample(labels, rnd.randint(2, 7))
        evs = [[rnd.choice(["ref", "ref", "def", "ref", "def", "nref", "qdef"]), rnd.choice(pool)] for _ in range(k)]
        for _ in range(rnd.choice([0, 0, 1, 2])):
            evs.insert(rnd.randint(0, len(evs)), ["hr", "-"])
        evs = [e for n, e in enumerate(evs) if not (e[0] == "hr" and n and evs[n - 1][0] == "hr")]
        # references inside the body of a definition (a second paragraph of it)
        for n in range(len(evs) - 1, -1, -1):
            if evs[n][0] == "def" and rnd.random() < 0.3:
                evs.insert(n + 1, [rnd.choice(["dref", "dref", "ddef"]), rnd.choice(pool)])
        cases.append({"id": t, "evs": evs, "sort": rnd.random() < 0.6, "trans": rnd.random() < 0.5})
    vouts = pmap(observe, cases, chunksize=16)
    traces, keep = [], {}
    for c, o in zip(cases, vouts):
        case = {"leg": "V", "markdown": o["text"], "footnote_sort": c["sort"], "footnote_transition": c["trans"]}
        if "error" in o:
            ctx.violation(f"publish_doctree raised {o['error']}", case)
            continue
        if o["problems"]:
            ctx.violation("; ".join(o["problems"]), case)
            continue
        ctx.count(("v", c["id"]))
        keep[c["id"]] = (c, o)
        traces.append({"id": c["id"], "evs": c["evs"], "sort": c["sort"], "trans": c["trans"], "obs": o["obs"]})
    tf = ctx.wd / "fn_traces.ndjson"
    tlc.write_ndjson(tf, traces)
    rv = tlc.run("FootnotesTrace", tlc.cfg(ctx, "fn_trace.cfg", {"Labels": set(labels), "MaxEv": 0, "WithHr": True, "WithHead": True, "WithNested": True}, spec="TraceSpec", invariants=INVS + ["Verdict"]),
                 wd=ctx.wd, env={"TRACE_FILE": str(tf)}, timeout=3000)
    tlc.expect_holds(rv, "FootnotesTrace: S on the traced runs")
    ctx.add_tlc("FootnotesTrace", rv)
    if len(rv.records) != len(traces):
        raise tlc.MachineryFailure(f"FootnotesTrace: {len(rv.records)} verdicts for {len(traces)} traces")
    for v in rv.records:
        ctx.traces_validated += 1
        if v["bad"]:
            c, o = keep[v["id"]]
            ctx.violation(f"recorded run is not a behaviour of the footnote model: {sorted(v['bad'])} differ "
                          f"(expected numbers {v['num']}, order {v['final']}; observed numbers {o['obs']['num']}, order {o['obs']['final']})",
                          {"leg": "V", "markdown": o["text"], "footnote_sort": c["sort"], "footnote_transition": c["trans"], "observed": o["obs"]})
    ctx.leg("V", traces=len(traces))
    ctx.exhaustive = True


def replay(case) -> int:
    c = case.get("case", case)
    print(c.get("markdown"))
    print({k: c.get(k) for k in ("footnote_sort", "footnote_transition")})
    print("clause:", case.get("clause"))
    return 1
