"""C08 -- directive text splits into arguments, options, body without loss or leakage.

T  DirSplit.tla: the line-level machine (DetectStyle, TakeBlock, Tokenize, ValidateOne/End,
   Assemble) |= Partition, Options, Arguments, Interchangeable for every content within
   the bound x declaration records x first lines x additional options;
   Dev_DropTrailing regression (the as-built loss of a trailing blank line).
R  every TLC behaviour concretised to real text and replayed through parse_directive_text
   with a synthetic Directive subclass realising the declaration record.
V  "programs": every directive class of the docutils and Sphinx registries, abstracted to
   its declaration record, its own option_spec mapped onto the model's roles by calling the
   class's converters; random layouts; traces validated by DirSplitTrace (S checked by TLC
   on the same runs).
"""
from __future__ import annotations

import random

from .. import tlc
from ..pool import pmap

META = {
    "level": "model_checking",
    "text": "TLC checks the directive-splitting model against the declarative partition/offset/options/arguments statements and the interchangeability of the two option styles for every content within the bound; every behaviour is replayed through parse_directive_text with a synthetic directive class, and calls on every directive class of the docutils/Sphinx registries are validated as traces by TLC.",
    "note": "Bound: contents <= 4 lines (quick) / 5 (thorough) over a 10-line vocabulary (6 option lines, blank, text, indented text, ---) x 2-8 declaration records x 3 first lines x 2-3 additional-option sets. Option values are abstract (valid/invalid/empty for an int-, an unchanged- and a flag-converter); the tokenizer itself is C07's business. An indented line inside a --- block is outside the model (no claim).",
    "technique": "TLA+ spec + TLC exhaustive check; spec-behaviour replay into the code; TLC batch trace validation",
    "specs": ["DirSplit", "DirSplitTrace"],
}

VOCAB = [["o", "a", "1"], ["o", "a", "x"], ["o", "b", "x"], ["o", "b", ""], ["o", "f", ""], ["o", "u", "1"],
         ["b"], ["t"], ["i"], ["d"]]
DECLS = [
    {"req": 0, "opt": 0, "faw": False, "content": True, "spec": True},     # note-like
    {"req": 1, "opt": 0, "faw": True, "content": True, "spec": True},      # admonition-like
    {"req": 0, "opt": 1, "faw": False, "content": True, "spec": True},     # code-block-like
    {"req": 1, "opt": 0, "faw": False, "content": False, "spec": True},    # image-like
    {"req": 0, "opt": 0, "faw": False, "content": True, "spec": False},    # no option_spec
    {"req": 2, "opt": 0, "faw": False, "content": True, "spec": True},
    {"req": 0, "opt": 0, "faw": False, "content": False, "spec": True},
    {"req": 1, "opt": 1, "faw": True, "content": True, "spec": True},
]
ADDLS = [[], [["b", "1"], ["a", "1"]], [["a", "x"], ["u", "1"]]]
FIRST_TEXT = {0: "", 1: "A1", 2: "A1  A2", 3: "A1 A2  A3"}      # (runs of blanks: inside a final argument they are content)


def _decl_expr(d):
    return "[" + ", ".join(f"{k} |-> {tlc.tla_expr(v)}" for k, v in d.items()) + "]"


def line_texts(lines, names=None, ws=False):
    """abstract lines -> concrete text lines.  An option line is ':k: v' unless it lies inside
    a --- block (first line '---', up to the next '---'), where it is 'k: v'."""
    names = names or {"a": "a", "b": "b", "f": "f", "u": "u"}
    vals = names.get("_vals", {})
    out = []
    in_yaml = bool(lines) and lines[0][0] == "d"
    for n, ln in enumerate(lines):
        k = ln[0]
        if k == "d":
            out.append("---")
            if n > 0:
                in_yaml = False
        elif k == "b":
            # (a blank line may consist of white space)
            out.append(("  " if n % 2 == 0 else " \t") if ws else "")
        elif k == "t":
            out.append(f"T{n + 1}")
        elif k == "i":
            # (inside a --- block every other indented line is a row of dashes: text, not the closing delimiter)
            out.append("  -----" if in_yaml and n % 2 == 0 else f"  T{n + 1}")
        else:
            key = names[ln[1]]
            val = vals.get((ln[1], ln[2]), ln[2])
            s = f"{key}: {val}" if val != "" else f"{key}:"
            out.append(s if in_yaml else ":" + s)
    return out


def make_class(decl, dynamic=False):
    """dynamic: the option_spec resolves its keys in __getitem__ (as Sphinx autodoc's DummyOptionSpec does) and holds
    no items of its own; `spec[name]` / KeyError is the interface docutils defines"""
    from docutils.parsers.rst import Directive, directives
    table = {"a": directives.nonnegative_int, "b": directives.unchanged, "f": directives.flag}

    class DynSpec(dict):
        def __bool__(self):
            return True

        def __getitem__(self, key):
            return table[key]

    class D(Directive):
        required_arguments = decl["req"]
        optional_arguments = decl["opt"]
        final_argument_whitespace = decl["faw"]
        has_content = decl["content"]
        option_spec = ((DynSpec() if dynamic else dict(table)) if decl["spec"] else {})
    return D


def observe(cls, first_text, texts, addl, trail=True, roles=None):
    """run parse_directive_text and project the result onto the model's result record"""
    from docutils.parsers.rst.states import MarkupError
    from myst_parser.parsers.directives import parse_directive_text
    from myst_parser.warnings_ import MystWarnings
    content = "\n".join(texts) + ("\n" if texts and trail else "")
    given = dict(addl) if addl else None
    try:
        r = parse_directive_text(cls, first_text, content, additional_options=given)
    except MarkupError:
        return {"st": "markup"}, content
    except Exception as e:  # noqa: BLE001
        return {"st": f"raised {type(e).__name__}: {e}"}, content
    if given is not None and list(given.items()) != [tuple(x) for x in addl]:
        return {"st": f"the caller's additional_options mapping was modified: {given}"}, content
    body = list(r.body)
    merged = bool(first_text.strip()) and bool(body) and body[0] == first_text
    tail = body[1:] if merged else body
    n = len(texts)
    start = n - len(tail)
    if start < 0 or texts[start:] != tail:
        idx = [-1]          # body is not a suffix of the content lines: lines lost / invented / reordered
    else:
        idx = list(range(start + 1, n + 1))
    inv = {v: k for k, v in (roles or {"a": "a", "b": "b", "f": "f"}).items() if k != "_vals"}
    opts = []
    for k, v in r.options.items():
        role = inv.get(k, "?" + k)
        if role == "a":
            pv = "1"
        elif role == "f":
            pv = "" if v is None else f"!{v!r}"
        else:
            pv = "" if v is None else str(v)
        opts.append([role, pv])
    w_opt = sum(1 for w in r.warnings if w.type == MystWarnings.DIRECTIVE_OPTION)
    w_parse = sum(1 for w in r.warnings if w.type == MystWarnings.DIRECTIVE_PARSING)
    # the advisory "Splitting content across first line and body" counts white-space-only lines as content (any(body_lines));
    # the property says nothing about this advice, so for blank lines written as white space it is not compared
    if merged and tail and not any(t.strip() for t in tail) and any(tail):
        w_parse -= sum(1 for w in r.warnings if w.type == MystWarnings.DIRECTIVE_PARSING and "Splitting content" in w.msg)
    other = [w.type.value for w in r.warnings if w.type not in (MystWarnings.DIRECTIVE_OPTION, MystWarnings.DIRECTIVE_PARSING)]
    # the arguments are the words of the first line; with final_argument_whitespace the last one is the REST of the line
    # as written (docutils: split(None, n - 1)), inner white space included
    nmax = cls.required_arguments + cls.optional_arguments
    want_args = first_text.split(None, nmax - 1) if (nmax and len(first_text.split()) > nmax and cls.final_argument_whitespace) else first_text.split()
    args_ok = list(r.arguments) == want_args if r.arguments else True
    return {"st": "ok", "args": len(r.arguments) if args_ok else -1, "opts": sorted(opts), "body": idx, "merged": merged,
            "off": r.body_offset, "w_opt": w_opt, "w_parse": w_parse, "other": other}, content


def _replay_one(rec):
    decl = rec["decl"]
    # every third behaviour with an option_spec that resolves its keys dynamically
    cls = make_class(decl, dynamic=(len(rec["lines"]) + rec["first"] + len(rec["addl"])) % 3 == 0)
    texts = line_texts(rec["lines"], ws=(len(rec["lines"]) + rec["first"] + 2 * len(rec["addl"])) % 4 == 1)
    obs, content = observe(cls, FIRST_TEXT[rec["first"]], texts, rec["addl"])
    return obs, content


def _compare(exp, obs):
    """-> list of differing fields (exp = M's result record, obs = projected observation)"""
    if exp["st"] == "outside":
        # option values outside the model (e.g. a value continued on an indented line): the split into block and body is still decided
        if obs["st"] != "ok" or exp.get("argerr") or "body" not in exp:
            return []
        bad = []
        if list(exp["body"]) != obs["body"]:
            bad.append(f"body lines (1-based content line indices): expected {list(exp['body'])}, observed {obs['body']}")
        if exp["off"] != obs["off"]:
            bad.append(f"body_offset: expected {exp['off']}, observed {obs['off']}")
        return bad
    if exp["st"] != obs["st"]:
        return [f"status: expected {exp['st']}, observed {obs['st']}"]
    if exp["st"] == "markup":
        return []
    bad = []
    if exp["args"] != obs["args"]:
        bad.append(f"arguments: expected {exp['args']}, observed {obs['args']}")
    if sorted(map(list, exp["opts"])) != obs["opts"]:
        bad.append(f"options: expected {sorted(map(list, exp['opts']))}, observed {obs['opts']}")
    if list(exp["body"]) != obs["body"]:
        bad.append(f"body lines (1-based content line indices): expected {list(exp['body'])}, observed {obs['body']}")
    if exp["off"] != obs["off"]:
        bad.append(f"body_offset: expected {exp['off']}, observed {obs['off']}")
    if exp["w_opt"] != obs["w_opt"]:
        bad.append(f"option warnings: expected {exp['w_opt']}, observed {obs['w_opt']}")
    if int(exp["w_split"]) + int(exp["w_content"]) != obs["w_parse"]:
        bad.append(f"parsing warnings: expected {int(exp['w_split']) + int(exp['w_content'])}, observed {obs['w_parse']}")
    return bad


# ------------------------------------------------------------------ V: registry classes
def registry_classes():
    """every directive class of the docutils and Sphinx registries, with its roles"""
    import importlib
    from docutils.parsers.rst import directives as D
    from docutils.parsers.rst.directives.misc import TestDirective
    out = {}
    for name, (mod, clsname) in sorted(D._directive_registry.items()):
        try:
            m = importlib.import_module(f"docutils.parsers.rst.directives.{mod}")
            out[f"docutils:{name}"] = getattr(m, clsname)
        except Exception:
            continue
    try:
        import sphinx.application  # noqa
        from sphinx.directives import code, other, patches  # noqa
        from sphinx.domains import python, std  # noqa
        for name, cls in sorted(D._directives.items()):
            out.setdefault(f"registered:{name}", cls)
        for modname in ("sphinx.directives.code", "sphinx.directives.other", "sphinx.directives.patches", "sphinx.directives"):
            m = importlib.import_module(modname)
            for k, v in vars(m).items():
                if isinstance(v, type) and hasattr(v, "option_spec") and hasattr(v, "has_content") and v.__module__ == modname:
                    out.setdefault(f"{modname}.{k}", v)
    except Exception:
        pass
    res = []
    for name, cls in out.items():
        if not isinstance(cls, type) or issubclass(cls, TestDirective):
            continue
        spec = getattr(cls, "option_spec", None) or {}
        roles = {"u": "zz-unknown"}
        vals = {}
        for oname, conv in sorted(spec.items(), key=lambda kv: str(kv[0])):
            if not isinstance(oname, str) or not oname or not all(c.isalnum() or c in "-_" for c in oname):
                continue
            if conv is D.flag and "f" not in roles:
                roles["f"] = oname
            elif conv is D.unchanged and "b" not in roles:
                roles["b"] = oname
            elif "a" not in roles and conv not in (D.flag, D.unchanged):
                good = bad = None
                for cand in ("1", "left", "top", "text", "x"):
                    try:
                        conv(cand)
                        good = cand
                        break
                    except (ValueError, TypeError):
                        continue
                    except Exception:
                        break
                for cand in ("-1 !bad", "not a valid value", "???"):
                    try:
                        conv(cand)
                    except (ValueError, TypeError):
                        bad = cand
                        break
                    except Exception:
                        break
                if good is not None and bad is not None:
                    roles["a"] = oname
                    vals[("a", "1")] = good
                    vals[("a", "x")] = bad
        roles["_vals"] = vals
        decl = {"req": int(cls.required_arguments), "opt": int(cls.optional_arguments),
                "faw": bool(cls.final_argument_whitespace), "content": bool(cls.has_content), "spec": bool(spec)}
        res.append((name, cls, decl, roles))
    return res


def _random_lines(rnd, roles, maxlen):
    pool = [["b"], ["b"], ["t"], ["t"], ["i"], ["d"]]
    for ln in VOCAB[:6]:
        if ln[1] in roles and not (ln[1] == "a" and ln[2] == ""):
            pool += [ln, ln]
    n = rnd.randint(0, maxlen)
    lines = []
    style = rnd.random()
    if style < 0.35:
        lines.append(["d"])
    for _ in range(n):
        if style < 0.7 and len(lines) < 4 and rnd.random() < 0.6:
            cand = [ln for ln in pool if ln[0] == "o"]
            lines.append(rnd.choice(cand or pool))
        else:
            lines.append(rnd.choice(pool))
    if style < 0.35 and rnd.random() < 0.8:
        lines.insert(rnd.randint(1, len(lines)), ["d"])
    return lines


def run(ctx):
    quick = ctx.tier == "quick"
    rnd = random.Random(ctx.seed + 8)
    ctx.rule = ("R: every content <= MaxLines over the 10-line vocabulary x declaration records x first lines x additional options "
                "(expected result record exported by TLC). V: every registry directive class x random layouts <= 9 lines. "
                "non-trivial = content with an option block (either style)")
    ctx.assumptions += ["content ends with a newline, as fence tokens do (a no-trailing-newline variant is replayed for a slice)",
                        "option values are abstract: valid / invalid / empty for an int converter, an unchanged converter and a flag"]
    invs = ["Partition", "Options", "Arguments", "Interchangeable"]
    vocab = tlc.tla_expr({tuple(v) for v in VOCAB}).replace("{", "{", 1)

    def defs(decls, addls):
        return {"VocabV": "{" + ", ".join(tlc.tla_expr(v) for v in VOCAB) + "}",
                "DeclsV": "{" + ", ".join(_decl_expr(d) for d in decls) + "}",
                "AddlsV": "{" + ", ".join(tlc.tla_expr(a) for a in addls) + "}"}

    def consts(maxlines, firsts, dev=False):
        return {"MaxLines": maxlines, "LineVocab": "<-VocabV", "Decls": "<-DeclsV", "Addls": "<-AddlsV",
                "Firsts": set(firsts), "DevDropTrailing": dev}

    # A: all layouts x two declarations; B: short layouts x every declaration / first line / additional options
    runs = [("A", 4 if quick else 5, DECLS[:2], [0, 1], ADDLS[:2] if not quick else ADDLS[:1]),
            ("B", 2 if quick else 3, DECLS, [0, 1, 3], ADDLS)]
    recs = []
    for name, ml, decls, firsts, addls in runs:
        r = tlc.run("DirSplit", tlc.cfg(ctx, f"ds_{name}.cfg", consts(ml, firsts), invariants=invs + ["Emit"], properties=["Terminates"]),
                    wd=ctx.wd, coverage=(name == "B"), timeout=3000, defs=defs(decls, addls))
        tlc.expect_holds(r, f"DirSplit[{name}] M |= S")
        ctx.add_tlc(f"DirSplit_{name}", r, f"contents <= {ml} lines, {len(decls)} declarations, first lines {firsts}, {len(addls)} additional-option sets")
        if name == "B":
            for act in ("DetectStyle", "TakeBlock", "Tokenize", "ValidateOne", "ValidateEnd", "Assemble"):
                if r.coverage.get(act, (0, 0))[0] == 0:
                    raise tlc.MachineryFailure(f"DirSplit: action {act} never taken (vacuous)")
        want = sum(len(VOCAB) ** k for k in range(ml + 1)) * len(decls) * len(firsts) * len(addls)
        if len(r.records) != want:
            raise tlc.MachineryFailure(f"DirSplit[{name}]: {len(r.records)} behaviours exported, expected {want}")
        recs += r.records
    rd = tlc.run("DirSplit", tlc.cfg(ctx, "ds_dev.cfg", consts(3, [0], dev=True), invariants=["Partition"]),
                 wd=ctx.wd, defs=defs(DECLS[:1], ADDLS[:1]))
    tlc.expect_violation(rd, "Partition", "DirSplit Dev_DropTrailing")
    ctx.add_tlc("DirSplit_dev_droptrailing", rd, "expected counterexample found (trailing blank line after an option block)")

    # ---- R ----------------------------------------------------------------------------------
    outs = pmap(_replay_one, recs, chunksize=512)
    nout = 0
    for rec, (obs, content) in zip(recs, outs):
        exp = rec["res"]
        if exp["st"] == "outside":
            nout += 1
        ctx.traces_validated += 1
        key = (tuple(map(tuple, rec["lines"])), tuple(sorted(rec["decl"].items())), rec["first"], repr(rec["addl"]))
        ctx.count(key, nontrivial=bool(rec["lines"]) and rec["lines"][0][0] in ("o", "d") and rec["decl"]["spec"])
        bad = _compare(exp, obs)
        if obs["st"] == "ok" and obs.get("other"):
            bad.append(f"unexpected warning types {obs['other']}")
        if bad:
            ctx.violation(f"parse_directive_text(decl={rec['decl']}, first_line={FIRST_TEXT[rec['first']]!r}, content={content!r}, additional={rec['addl']}): " + "; ".join(bad),
                          {"leg": "R", "decl": rec["decl"], "first_line": FIRST_TEXT[rec["first"]], "content": content,
                           "additional_options": rec["addl"], "abstract_lines": rec["lines"], "expected": exp, "observed": obs})
    mid = recs[len(recs) // 2]
    ctx.sample({"abstract_lines": mid["lines"], "content": "\n".join(line_texts(mid["lines"])), "decl": mid["decl"], "expected": mid["res"]})
    ctx.leg("R", behaviours=len(recs), outside_model=nout)
    # no-trailing-newline slice: the model does not depend on it, the code must not either
    nt = 0
    for rec in recs[:: 37]:
        if rec["res"]["st"] == "outside" or not rec["lines"] or rec["lines"][-1][0] == "b":
            continue        # (an unterminated final blank line is not a line)
        cls = make_class(rec["decl"])
        obs, content = observe(cls, FIRST_TEXT[rec["first"]], line_texts(rec["lines"]), rec["addl"], trail=False)
        nt += 1
        bad = _compare(rec["res"], obs)
        if bad:
            ctx.violation(f"parse_directive_text(decl={rec['decl']}, content={content!r}) [no trailing newline]: " + "; ".join(bad),
                          {"leg": "R-notrail", "decl": rec["decl"], "first_line": FIRST_TEXT[rec["first"]], "content": content,
                           "additional_options": rec["addl"], "expected": rec["res"], "observed": obs})
    ctx.leg("R-notrail", behaviours=nt)
    del recs, outs

    # ---- V: registry classes as "programs" ------------------------------------------------------
    classes = registry_classes()
    traces, meta = [], {}
    per = 25 if quick else 400
    tid = 0
    for name, cls, decl, roles in classes:
        for _ in range(per):
            lines = _random_lines(rnd, roles, 9)
            first = rnd.choice([0, 1, 1, 2, 3])
            addl = []
            if rnd.random() < 0.25:
                for role in ("b", "a", "u"):
                    if role in roles and rnd.random() < 0.6:
                        addl.append([role, "1"])
            texts = line_texts(lines, roles)
            caddl = [[roles[k], roles["_vals"].get((k, v), v)] for k, v in addl]
            obs, content = observe(cls, FIRST_TEXT[first], texts, caddl, roles=roles)
            ctx.count(("v", name, content, first, repr(addl)))
            meta[tid] = (name, content, FIRST_TEXT[first], caddl, decl)
            if obs["st"] not in ("ok", "markup"):
                ctx.violation(f"parse_directive_text({name}, {FIRST_TEXT[first]!r}, {content!r}) {obs['st']}",
                              {"leg": "V", "class": name, "first_line": FIRST_TEXT[first], "content": content})
                continue
            o = {k: v for k, v in obs.items() if k not in ("other", "merged")}
            if obs["st"] == "markup":
                o = {"st": "markup", "args": 0, "opts": [], "body": [], "off": 0, "w_opt": 0, "w_parse": 0}
            traces.append({"id": tid, "lines": lines, "decl": decl, "first": first, "addl": addl, "obs": o})
            tid += 1
    tf = ctx.wd / "ds_traces.ndjson"
    tlc.write_ndjson(tf, traces)
    cs = {"MaxLines": 0, "LineVocab": "<-VocabV", "Decls": "<-DeclsV", "Addls": "<-AddlsV", "Firsts": {0}, "DevDropTrailing": False}
    rv = tlc.run("DirSplitTrace", tlc.cfg(ctx, "ds_trace.cfg", cs, spec="TraceSpec", invariants=invs + ["Verdict"]),
                 wd=ctx.wd, env={"TRACE_FILE": str(tf)}, timeout=3000, defs=defs(DECLS[:1], ADDLS[:1]))
    tlc.expect_holds(rv, "DirSplitTrace: S on the traced runs")
    ctx.add_tlc("DirSplitTrace", rv)
    if len(rv.records) != len(traces):
        raise tlc.MachineryFailure(f"DirSplitTrace: {len(rv.records)} verdicts for {len(traces)} traces")
    byid = {t["id"]: t for t in traces}
    for v in rv.records:
        ctx.traces_validated += 1
        if v["bad"]:
            t = byid[v["id"]]
            name, content, ft, caddl, decl = meta[v["id"]]
            ctx.violation(f"parse_directive_text({name}, first_line={ft!r}, content={content!r}, additional={caddl}) is not a behaviour of the model: "
                          f"{sorted(v['bad'])} differ; expected {v['exp']}, observed {t['obs']}",
                          {"leg": "V", "class": name, "decl": decl, "first_line": ft, "content": content, "additional_options": caddl,
                           "expected": v["exp"], "observed": t["obs"]})
    ctx.leg("V", classes=len(classes), traces=len(traces))
    ctx.extra["registry_classes"] = [c[0] for c in classes]
    ctx.exhaustive = True


def replay(case) -> int:
    import json
    print(json.dumps(case, indent=1)[:4000])
    return 1
