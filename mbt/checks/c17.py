"""C17 -- HTML blocks: verbatim pass-through, img/admonition = directives, GFM tag filter.

T  HtmlBlocks.tla, three parts: the conversion decision |= PassThrough / OneNodePerElement
   for every list of top-level element kinds x flag combination; the attribute round trip
   through the generated option line and the option tokenizer (composition with
   OptTokOps.tla) |= ValueUnchanged for every value within the bound (Dev_Unquoted: the
   as-built plain-scalar spelling, open finding); the GFM tag filter scanner |= Neutralised
   for every symbol string within the bound.
R  every behaviour replayed: HTML blocks/inline HTML through the docutils pipeline under the
   four on/off combinations (raw text vs token content; image/admonition nodes vs the
   directive spelling); attribute values through <img alt="..."> / <div class="...">; the
   filter through html_to_nodes with a gfm_only renderer (linkify-it-py is not importable,
   the fallback the property names).
V  grammar-generated HTML fragments (arbitrary elements, attributes, nesting, inline HTML),
   validated by HtmlBlocksTrace.
"""
from __future__ import annotations

import html as _html
import itertools
import random

from .. import tlc
from ..frontends import c2s, s2c
from ..pool import pmap

META = {
    "level": "model_checking",
    "text": "TLC checks the HTML-block model in three parts: the conversion decision over every list of top-level element kinds and flag combination, the attribute round trip through the generated option line and the option tokenizer (module composition with the C07 scanner) for every value within the bound, and the GFM tag filter scanner over every symbol string within the bound; every behaviour is replayed through the docutils pipeline / html_to_nodes, and grammar-generated HTML fragments are validated as traces by TLC.",
    "note": "Bound: <= 3 top-level elements over {img, div.admonition, other element, text, white space} x 4 flag settings; attribute values <= 3 (quick) / 4 characters over 12 option-significant characters; filter strings <= 5 / 6 over 7 symbols, concretised with several spellings of the disallowed names. GFM mode is driven through html_to_nodes with a gfm_only configuration (the full pipeline needs linkify-it-py). The as-built plain-scalar spelling of attribute values is an open finding pinned by the repository's html_to_nodes fixtures.",
    "technique": "TLA+ spec + TLC exhaustive check (composition with the option-scanner module); spec-behaviour replay into the code; TLC batch trace validation",
    "specs": ["HtmlBlocks", "HtmlBlocksTrace", "OptTokOps"],
}

ELEMS = ["img", "admon", "div", "text", "ws", "comment"]
ATTR_SIGMA = "a #'\"|>:-\n[*\\"
FILTER_SIGMA = ["<", "/", "S", "s", " ", ">", "x"]
DISALLOWED = ["script", "iframe", "title", "textarea", "xmp", "style", "noembed", "noframes", "plaintext"]


def base_consts(part, **kw):
    c = {"Part": part, "ElemKinds": set(ELEMS), "MaxElems": 0, "Sigma": {97}, "MaxLen": 0, "DevUnquoted": False, "DevTitleSubstring": False}
    c.update(kw)
    return c


def elem_text(kind, n, upper=False):
    if upper:       # HTML names are case-insensitive
        return {"img": f'<IMG SRC="i{n}.png" ALT="A{n}x">', "admon": f'<DIV CLASS="admonition">\n<P CLASS="title">T{n}x</P>\nB{n}x *em*\n</DIV>',
                "div": f"<Div>D{n}x</Div>", "text": f"X{n}x", "ws": " \n ", "comment": f"<!-- C{n}x -->"}[kind]
    return {"img": f'<img src="i{n}.png" alt="A{n}x">', "admon": f'<div class="admonition">\n<p class="title">T{n}x</p>\nB{n}x *em*\n</div>',
            "div": f"<div>D{n}x</div>", "text": f"X{n}x", "ws": " \n ", "comment": f"<!-- C{n}x -->"}[kind]


# fragments that end inside a construct: what they leave behind must not reach the next fragment
UNTERMINATED = ['<div>\n<span class="x', '<img src="b.png" alt="one', "<div>\n<!-- open comment", "<div>\nx &amp"]


def render_block(text, exts):
    from docutils import nodes
    from ..frontends import docutils_doctree
    doc, warns = docutils_doctree(text, {"myst_enable_extensions": exts}, transforms=False)
    kinds = []
    for ch in doc.children:
        if isinstance(ch, nodes.raw):
            kinds.append(("raw", ch.astext()))
        elif isinstance(ch, nodes.image):
            kinds.append(("image", ch.get("alt", "")))
        elif isinstance(ch, nodes.Admonition):
            kinds.append(("admonition", ch.astext()))
        elif isinstance(ch, nodes.system_message):
            continue
        else:
            kinds.append((ch.tagname, ch.astext()))
    return kinds, doc, warns


def _sphinx_passthrough(ctx):
    from docutils import nodes
    from ..sphinx_runner import run_docs
    fig = "```{figure-md} fig-%s\n<img src=\"fig%s.png\" alt=\"f\">\n\ncaption\n```\n"
    docs = {"a_before": '<img src="before.png" alt="b">\n\n' + fig % ("a", "a") + '\n<img src="after.png" alt="a">\n\ninline <img src="inl.png" alt="i"> text\n',
            "b_other": '# Other\n\n<img src="other.png" alt="o">\n',
            "c_two": fig % ("c1", "c1") + "\n" + fig % ("c2", "c2") + '\n<div class="admonition">\nnot converted\n</div>\n\n<img src="last.png" alt="l">\n'}
    res = run_docs(ctx.wd / "sx_pass", docs, {}, resolve=True)
    n = 0
    for name, text in docs.items():
        n += 1
        ctx.count(("sphinx-pass", name))
        ctx.traces_validated += 1
        case = {"leg": "R-sphinx", "document": name, "markdown": text, "extensions": []}
        r = res.get(name)
        if not r or not r["ok"] or r.get("doctree") is None:
            ctx.violation(f"Sphinx build failed: {(r or {}).get('error')}", case)
            continue
        tree = r["doctree"]
        imgs = sorted(i.get("uri", "").rsplit("/", 1)[-1] for i in tree.findall(nodes.image))
        want = sorted(f"fig{k}.png" for k in ("a",) if name == "a_before") + sorted(f"fig{k}.png" for k in ("c1", "c2") if name == "c_two")
        if imgs != sorted(want):
            ctx.violation(f"Sphinx, html_image not enabled: image nodes {imgs}, expected only those of the figure-md bodies {sorted(want)} "
                          "(every other <img> is verbatim HTML)", case)
    return n


def gfm_renderer():
    """a real DocutilsRenderer whose configuration is gfm_only (fallback named by the property)"""
    from docutils.frontend import get_default_settings
    from docutils.utils import new_document
    from myst_parser.config.main import MdParserConfig
    from myst_parser.mdit_to_docutils.base import DocutilsRenderer
    from myst_parser.parsers.docutils_ import Parser
    from myst_parser.parsers.mdit import create_md_parser
    import io
    md = create_md_parser(MdParserConfig(), DocutilsRenderer)
    settings = get_default_settings(Parser)
    settings.warning_stream = io.StringIO()
    doc = new_document("<string>", settings)
    md.options["document"] = doc
    md.renderer.setup_render(md.options, {})
    md.renderer.md_config = MdParserConfig(gfm_only=True)
    return md.renderer


def gfm_doctree(source):
    """the whole pipeline in gfm_only mode (the linkify rule is switched off: linkify-it-py is not installed here)"""
    from myst_parser.config.main import MdParserConfig
    from myst_parser.mdit_to_docutils.base import DocutilsRenderer, make_document
    from myst_parser.parsers.docutils_ import Parser
    from myst_parser.parsers.mdit import create_md_parser
    md = create_md_parser(MdParserConfig(gfm_only=True), DocutilsRenderer)
    md.disable("linkify")
    md.options["linkify"] = False
    document = make_document(parser_cls=Parser)
    md.options["document"] = document
    md.render(source)
    return document


def sym_text(syms, name, other="span"):
    return "".join({"S": name, "s": other}.get(s, s) for s in syms)


def html_attr(v: str) -> str:
    return v.replace("&", "&amp;").replace('"', "&quot;").replace("\n", "&#10;").replace("<", "&lt;").replace(">", "&gt;")


SIGNIFICANT = set("#'\"|>:-[*\\\n&!%@`{},?")


def attr_known(v: str) -> bool:
    """signature of the open finding C17-attr-values: the value starts/ends with white space, or contains a
    character that is significant in the option syntax"""
    return v != v.strip() or any(c in SIGNIFICANT for c in v)


def run(ctx):
    from docutils import nodes
    quick = ctx.tier == "quick"
    rnd = random.Random(ctx.seed + 17)
    ctx.rule = ("R: every list of <= 3 top-level element kinds x 4 flag settings; every attribute value within the bound; every filter symbol string "
                "within the bound x spellings of the disallowed names. V: grammar-generated HTML fragments x flag settings. "
                "non-trivial = a block with at least one convertible element / a value with an option-significant character / a string with a disallowed tag")
    ctx.assumptions += ["docutils front end; gfm_only via html_to_nodes with a gfm_only renderer configuration"]
    inv_all = ["PassThrough", "OneNodePerElement", "ValueUnchanged", "Neutralised", "TitleRule", "Emit"]
    # ---- T ------------------------------------------------------------------------------------
    rc = tlc.run("HtmlBlocks", tlc.cfg(ctx, "hb_classify.cfg", base_consts("classify", MaxElems=3), invariants=inv_all, properties=["Terminates"]), wd=ctx.wd, coverage=True)
    tlc.expect_holds(rc, "HtmlBlocks[classify] M |= S")
    ctx.add_tlc("HtmlBlocks_classify", rc)
    na = 3 if quick else 4
    ra = tlc.run("HtmlBlocks", tlc.cfg(ctx, "hb_attr.cfg", base_consts("attr", Sigma=set(s2c(ATTR_SIGMA)), MaxLen=na), invariants=inv_all), wd=ctx.wd, timeout=3000)
    tlc.expect_holds(ra, "HtmlBlocks[attr] M |= S")
    ctx.add_tlc("HtmlBlocks_attr", ra, f"values <= {na} over {len(ATTR_SIGMA)} characters, through OptTokOps")
    rdv = tlc.run("HtmlBlocks", tlc.cfg(ctx, "hb_attr_dev.cfg", base_consts("attr", Sigma=set(s2c("a #")), MaxLen=3, DevUnquoted=True), invariants=["ValueUnchanged"]), wd=ctx.wd)
    tlc.expect_violation(rdv, "ValueUnchanged", "HtmlBlocks Dev_Unquoted")
    ctx.add_tlc("HtmlBlocks_dev_unquoted", rdv, "expected counterexample found (e.g. 'a #' read as 'a')")
    nf = 5 if quick else 6
    rf = tlc.run("HtmlBlocks", tlc.cfg(ctx, "hb_filter.cfg", base_consts("filter", Sigma=set(FILTER_SIGMA), MaxLen=nf), invariants=inv_all), wd=ctx.wd, timeout=3000)
    tlc.expect_holds(rf, "HtmlBlocks[filter] M |= S")
    ctx.add_tlc("HtmlBlocks_filter", rf, f"symbol strings <= {nf} over {FILTER_SIGMA}")
    for act in ("Classify",):
        if rc.coverage.get(act, (0, 0))[0] == 0:
            raise tlc.MachineryFailure(f"HtmlBlocks: action {act} never taken")

    toks = ["title", "admonition-title", "subtitle", "card-title", "untitled", "lead"]
    rt = tlc.run("HtmlBlocks", tlc.cfg(ctx, "hb_title.cfg", base_consts("title", Sigma=set(toks), MaxLen=2), invariants=inv_all), wd=ctx.wd)
    tlc.expect_holds(rt, "HtmlBlocks[title] M |= S")
    ctx.add_tlc("HtmlBlocks_title", rt, "class token lists <= 2 over 6 tokens")
    rdt = tlc.run("HtmlBlocks", tlc.cfg(ctx, "hb_title_dev.cfg", base_consts("title", Sigma=set(toks), MaxLen=1, DevTitleSubstring=True), invariants=["TitleRule"]), wd=ctx.wd)
    tlc.expect_violation(rdt, "TitleRule", "HtmlBlocks Dev_TitleSubstring")
    ctx.add_tlc("HtmlBlocks_dev_titlesubstring", rdt, "expected counterexample found (class 'subtitle')")
    for rec in rt.records:
        for tag in ("p", "div"):
            cls = " ".join(rec["val"])
            text = f'<div class="admonition">\n<{tag} class="{cls}">FIRSTx</{tag}>\nBODYx\n</div>\n'
            kinds, doc, _ = render_block(text, ["html_admonition"])
            adm = [n for n in doc.findall(nodes.Admonition)]
            ctx.count(("title", cls, tag), nontrivial=bool(rec["val"]))
            ctx.traces_validated += 1
            case = {"leg": "R-title", "markdown": text}
            if len(adm) != 1 or not isinstance(adm[0][0], nodes.title):
                ctx.violation(f"div.admonition with first child <{tag} class={cls!r}>: no single titled admonition produced", case)
                continue
            ttl = adm[0][0].astext()
            is_title = "FIRSTx" in ttl
            if is_title != (rec["out"] == ["title"]):
                ctx.violation(f"div.admonition with first child <{tag} class={cls!r}>: it is {'taken as the title' if is_title else 'left in the body'}, "
                              f"the recognised title forms say {'title' if rec['out'] == ['title'] else 'body'} (title: {ttl!r})", case)
            elif not is_title and "FIRSTx" not in adm[0].astext():
                ctx.violation(f"div.admonition with first child <{tag} class={cls!r}>: its text is lost", case)
    # ---- R classify ---------------------------------------------------------------------------
    nrec = 0
    for rec in rc.records:
        elems = rec["elems"]
        if not elems:
            continue
        if elems[0] in ("text", "ws") or "ws" in elems:
            continue            # a leading text line is a paragraph; white space between elements is already there (the line breaks)
        exts = (["html_image"] if rec["fimg"] else []) + (["html_admonition"] if rec["fadm"] else [])
        # variants: lower-case / upper-case names; alone / after an unterminated fragment (another block of the same document)
        for upper, lead in ((False, None), (True, None), (False, UNTERMINATED[nrec % len(UNTERMINATED)])):
            parts = [elem_text(k, n + 1, upper) for n, k in enumerate(elems)]
            text = "\n".join(parts) + "\n"
            full = (lead + "\n\n" + text) if lead else text
            nrec += 1
            case = {"leg": "R-classify", "markdown": full, "extensions": exts}
            try:
                kinds, doc, _ = render_block(full, exts)
                from ..render import md_parser
                toks = [t for t in md_parser({"enable_extensions": exts}).parse(full) if t.type == "html_block"]
            except Exception as e:  # noqa: BLE001
                ctx.violation(f"rendering raised {type(e).__name__}: {e}", case)
                continue
            ctx.count(("classify", full, tuple(exts)), nontrivial=any(k in ("img", "admon") for k in elems))
            ctx.traces_validated += 1
            if lead:
                if len(toks) != 2 or toks[1].content != text or not kinds or kinds[0] != ("raw", toks[0].content):
                    if len(toks) == 2 and toks[1].content == text:
                        ctx.violation(f"an unterminated HTML fragment {lead!r} must stay one raw node with its exact text; observed {kinds[:1]}", case)
                    continue        # (generator miss: not two HTML blocks)
                kinds = kinds[1:]
                tok = toks[1]
            else:
                if len(toks) != 1 or toks[0].content != text:
                    continue            # the text is not one HTML block (generator miss)
                tok = toks[0]
            exp = list(rec["out"])
            where = f"elements {elems}{' (upper-case names)' if upper else ''}{' after the fragment ' + repr(lead) if lead else ''}, extensions {exts}"
            if exp == ["raw"]:
                if kinds != [("raw", tok.content)]:
                    ctx.violation(f"HTML block that is not fully convertible ({where}) must be one raw node with the exact source text; observed {kinds}", case)
            else:
                got = [k for k, _ in kinds]
                if got != exp:
                    ctx.violation(f"HTML block with {where}: expected nodes {exp}, observed {got}", case)
    ctx.leg("R-classify", behaviours=nrec)
    # Sphinx front end: figure-md switches html_image on for its own body only; every other <img> of the project stays
    # verbatim HTML while the extension is off (Classify with fimg = FALSE), whatever was read before it
    ns = _sphinx_passthrough(ctx)
    ctx.leg("R-sphinx", documents=ns)
    # conversion = the directive spelling
    eq = [('<img src="a.png" alt="text" class="c1" width="10px">\n', "```{image} a.png\n:alt: text\n:class: c1\n:width: 10px\n```\n", ["html_image"]),
          ('<div class="admonition tip" name="n1">\n<p class="title">My *title*</p>\nBody **md** and `code`.\n</div>\n',
           "```{admonition} My *title*\n:class: admonition tip\n:name: n1\nBody **md** and `code`.\n```\n", ["html_admonition"]),
          ('<div class="admonition">\nno title\n</div>\n', "```{admonition} Note\n:class: admonition\nno title\n```\n", ["html_admonition"]),
          # character references are Markdown's to decode, after the conversion: the directive gets them as written
          ('<div class="admonition">\n<p class="title">T &lt;i&gt; &amp;amp;</p>\nB &#42;x&#42; &amp;lt;b&amp;gt; &copy; end\n</div>\n',
           "```{admonition} T &lt;i&gt; &amp;amp;\n:class: admonition\nB &#42;x&#42; &amp;lt;b&amp;gt; &copy; end\n```\n", ["html_admonition"]),
          # white space between two inline elements inside a paragraph of the body
          ('<div class="admonition">\n<p class="title">Keys</p>\n<p>Press <kbd>Ctrl</kbd> <kbd>C</kbd> then <em>a</em> <em>b</em></p>\n</div>\n',
           "```{admonition} Keys\n:class: admonition\nPress <kbd>Ctrl</kbd> <kbd>C</kbd> then <em>a</em> <em>b</em>\n```\n", ["html_admonition"]),
          # self-closed elements that are not void elements stay as written inside a converted body
          ('<div class="admonition">\n<p class="title">T</p>\n<p>A <span class="badge ok"/> and <i class="fa"/> end <br/> x</p>\n</div>\n',
           "```{admonition} T\n:class: admonition\nA <span class=\"badge ok\"/> and <i class=\"fa\"/> end <br/> x\n```\n", ["html_admonition"]),
          # attributes written without a value are empty
          ('<img src="a.png" alt width="10px">\n', "```{image} a.png\n:alt:\n:width: 10px\n```\n", ["html_image"]),
          ('<div class="admonition tip" name>\n<p class="title">T</p>\nbody\n</div>\n', "```{admonition} T\n:class: admonition tip\n:name:\nbody\n```\n", ["html_admonition"]),
          # an image with an EMPTY alt text inside an admonition body (the body is re-rendered from the tree and parsed again)
          ('<div class="admonition tip">\n<p class="title">Layout</p>\n<p>A divider <img src="d.png" alt="" width="80px"> here</p>\n</div>\n',
           "```{admonition} Layout\n:class: admonition tip\nA divider <img src=\"d.png\" alt=\"\" width=\"80px\"> here\n```\n", ["html_admonition", "html_image"]),
          ('<div class="admonition">\n<p class="title">T &lt;i&gt; and &amp;amp;</p>\nB &#42;x&#42; then &amp;lt;b&amp;gt; and &copy; end\n</div>\n',
           "```{admonition} T &lt;i&gt; and &amp;amp;\n:class: admonition\nB &#42;x&#42; then &amp;lt;b&amp;gt; and &copy; end\n```\n", ["html_admonition"])]
    for h, dsp, exts in eq:
        k1, d1, _ = render_block(h, exts)
        k2, d2, _ = render_block(dsp, exts)
        ctx.count(("equiv", h))
        import re
        p1 = d1.pformat()
        if p1 != d2.pformat():
            import difflib
            # open finding C17-charref-space: white space that stands alone between two character references is dropped
            # (Element.strip() removes white-space-only text nodes); recognised when that is the ONLY difference
            squeeze = lambda t: re.sub(r"(?<=[*;>©]) (?=[&*<©])", "", t)      # noqa: E731
            if re.search(r"&#?\w+; &#?\w+;", h) and squeeze(p1) == squeeze(d2.pformat()):
                ctx.violation("HTML form and directive form differ in the white space between two adjacent character references",
                              {"leg": "R-equivalence", "html": h, "directive": dsp}, finding="C17-charref-space")
                continue
            diff = "\n".join(list(difflib.unified_diff(d2.pformat().splitlines(), p1.splitlines(), "directive", "html", lineterm="", n=0))[:8])
            ctx.violation(f"HTML form and directive form give different nodes:\n{diff}", {"leg": "R-equivalence", "html": h, "directive": dsp})

    # ---- R attr -------------------------------------------------------------------------------------
    # the open finding C17-attr-values is decided by the model: a mismatch is that finding only if the observed value is
    # exactly what M predicts with DevUnquoted on (the value travelling through an unquoted option line)
    rae = tlc.run("HtmlBlocks", tlc.cfg(ctx, "hb_attr_asbuilt.cfg", base_consts("attr", Sigma=set(s2c(ATTR_SIGMA)), MaxLen=na, DevUnquoted=True),
                                        invariants=["Emit"]), wd=ctx.wd, timeout=3000)
    ctx.add_tlc("HtmlBlocks_attr_asbuilt", rae, "as-built prediction per value (DevUnquoted)")
    asbuilt = {c2s(r["val"]): (r["out"][0], c2s(r["out"][1])) for r in rae.records}
    known = 0
    for rec in ra.records:
        v = c2s(rec["val"])
        text = f'<img src="a.png" alt="{html_attr(v)}">\n'
        ctx.count(("attr", v), nontrivial=attr_known(v))
        ctx.traces_validated += 1
        case = {"leg": "R-attr", "markdown": text, "value": v}
        try:
            kinds, doc, warns = render_block(text, ["html_image"])
        except Exception as e:  # noqa: BLE001
            ctx.violation(f"rendering raised {type(e).__name__}: {e}", case)
            continue
        imgs = list(doc.findall(nodes.image))
        got = imgs[0].get("alt") if len(imgs) == 1 else None
        if got != v:
            pred = asbuilt.get(v)
            # (a value with a line break makes the generated option block several lines; M's Decoded reads one key: value pair,
            # so for such values the finding is recognised by its signature alone)
            as_built = "\n" in v or pred is not None and ((pred[0] == "ok" and got == pred[1]) or (pred[0] == "error" and got is None))  # (an option block that cannot be tokenised is dropped with a warning)
            ctx.violation(f"<img alt={v!r}>: the attribute value is not carried over unchanged (observed {got!r}, {len(imgs)} image node(s))", case,
                          finding="C17-attr-values" if attr_known(v) and as_built else None)
    # values beyond the model's alphabet: runs of blanks and non-ASCII white space are content
    extra = ["Overview.  Click to enlarge", "Figure\u00a01\u00a0 plan du site", "Range 10\u00a0km", "x\u3000y", "a\u2003b", "two   spaces"]
    for v in extra:
        text = f'<img src="a.png" alt="{v}" class="c1  c2">\n'
        ctx.count(("attr-extra", v))
        ctx.traces_validated += 1
        kinds, doc, warns = render_block(text, ["html_image"])
        imgs = list(doc.findall(nodes.image))
        got = imgs[0].get("alt") if len(imgs) == 1 else None
        if got != v:
            ctx.violation(f"<img alt={v!r}>: the attribute value is not carried over unchanged (observed {got!r})", {"leg": "R-attr", "markdown": text, "value": v})
    ctx.leg("R-attr", values=len(ra.records) + len(extra))

    # ---- R filter -----------------------------------------------------------------------------------
    from myst_parser.mdit_to_docutils.html_to_nodes import html_to_nodes
    rend = gfm_renderer()
    nfil = 0
    for n, rec in enumerate(rf.records):
        syms = list(rec["val"])
        if "S" not in syms and n % 5:
            continue
        for name in ([DISALLOWED[n % len(DISALLOWED)], DISALLOWED[(n + 3) % len(DISALLOWED)].upper(), "Title"] if "S" in syms else ["script"]):
            text = sym_text(syms, name)
            want = "".join({"S": name, "s": "span"}.get(s, s) for s in rec["out"])
            nfil += 1
            case = {"leg": "R-filter", "html": text}
            try:
                out = html_to_nodes(text, 1, rend)
            except Exception as e:  # noqa: BLE001
                ctx.violation(f"html_to_nodes raised {type(e).__name__}: {e}", case)
                continue
            ctx.count(("filter", text), nontrivial="S" in syms)
            ctx.traces_validated += 1
            got = "".join(x.astext() for x in out if isinstance(x, nodes.raw))
            if got != want:
                ctx.violation(f"gfm_only: raw HTML {text!r} should be filtered to {want!r}, observed {got!r}", case)
    # the tab / newline / form-feed delimiters of the filter (same symbol class as " ")
    for name, d in itertools.product(["script", "IFRAME"], ["\t", "\n", "\f", "\r", "/", ">"]):
        text = f"<{name}{d}x"
        out = html_to_nodes(text, 1, rend)
        got = "".join(x.astext() for x in out if isinstance(x, nodes.raw))
        ctx.count(("filter-delim", text))
        if got != "&lt;" + text[1:]:
            ctx.violation(f"gfm_only: {text!r} must be neutralised, observed {got!r}", {"leg": "R-filter", "html": text})
    ctx.leg("R-filter", strings=nfil)
    # the same rule wherever the tag stands: inline HTML in a paragraph / a table cell, through the whole GFM pipeline
    # (Neutralised: no "<" "/"? disallowed-name delimiter survives in any raw node)
    ninl = 0
    import re as _re
    dis = _re.compile(r"</?(" + "|".join(DISALLOWED) + r")(?=[\t\n\f\r />])", _re.I)
    for k, name in enumerate(DISALLOWED + [d.upper() for d in DISALLOWED[:3]]):
        forms = [f"<{name}>x</{name}>", f"<{name} a=\"1\">", f"</{name}>", f"<{name}/>"]
        src = (f"<{name}>block{k}</{name}>\n\nHello {forms[k % 4]} world and {forms[(k + 1) % 4]} <em>fine</em>.\n\n"
               f"| a | b |\n|---|---|\n| {forms[(k + 2) % 4]} cell | <b>ok</b> |\n")
        ninl += 1
        ctx.count(("filter-inline", name))
        ctx.traces_validated += 1
        case = {"leg": "R-filter-inline", "markdown": src, "gfm_only": True}
        try:
            doc = gfm_doctree(src)
        except Exception as e:  # noqa: BLE001
            ctx.violation(f"GFM pipeline raised {type(e).__name__}: {e}", case)
            continue
        raws = [n_.astext() for n_ in doc.findall(nodes.raw) if n_.get("format") == "html"]
        leaked = [t for t in raws if dis.search(t)]
        if leaked:
            ctx.violation(f"GFM mode: disallowed raw HTML reaches the output un-neutralised: {leaked[:3]}", case)
        elif not any("&lt;" in t for t in raws):
            ctx.violation("GFM mode: the disallowed tags were not neutralised but removed or altered otherwise", case)
    ctx.leg("R-filter-inline", documents=ninl)
    mid = rf.records[len(rf.records) // 2]
    ctx.sample({"filter_symbols": mid["val"], "html": sym_text(mid["val"], "script"), "expected": sym_text(mid["out"], "script")})

    # ---- V: grammar HTML ------------------------------------------------------------------------
    traces, keep = [], {}
    for t in range(300 if quick else 6000):
        parts, kinds = [], []
        for n in range(rnd.randint(1, 4)):
            r = rnd.random()
            if r < 0.3:
                al = rnd.choice(["plain", "two words", "x1"])
                parts.append(f'<img src="p{n}.png" alt="{al}" class="k{n}">')
                kinds.append("img")
            elif r < 0.55:
                parts.append(f'<div class="admonition {rnd.choice(["", "tip", "warning"])}">\n<p class="title">Ti{n}</p>\ninner {rnd.choice(["*em*", "`c`", "text"])}\n</div>')
                kinds.append("admon")
            elif r < 0.8:
                tag = rnd.choice(["div", "section", "table", "details", "p"])
                parts.append(f'<{tag} {rnd.choice(["", "id=q", "class=\"admonitionx\"", "data-x=\"1 2\""])}>c{n} <b>b</b></{tag}>')
                kinds.append("div")
            elif r < 0.9:
                parts.append(f"loose{n}")
                kinds.append("text")
            else:
                parts.append("")
                kinds.append("ws")
        if kinds[0] in ("text", "ws"):
            parts, kinds = parts[1:] + parts[:1], kinds[1:] + kinds[:1]
            if kinds[0] in ("text", "ws"):
                continue
        text = "\n".join(parts) + "\n"
        fimg, fadm = rnd.random() < 0.6, rnd.random() < 0.6
        exts = (["html_image"] if fimg else []) + (["html_admonition"] if fadm else [])
        try:
            obs, doc, _ = render_block(text, exts)
            from ..render import md_parser
            toks = [tk for tk in md_parser({"enable_extensions": exts}).parse(text) if tk.type == "html_block"]
        except Exception as e:  # noqa: BLE001
            ctx.violation(f"rendering raised {type(e).__name__}: {e}", {"leg": "V", "markdown": text, "extensions": exts})
            continue
        if len(toks) != 1 or toks[0].content != text:
            ctx.gen_miss += 1
            continue
        ctx.count(("v", t))
        okinds = [k if not (k == "raw" and txt != text) else "raw-altered" for k, txt in obs]
        keep[t] = (text, exts, obs)
        traces.append({"id": t, "elems": kinds, "fimg": fimg, "fadm": fadm, "obs": okinds})
    tf = ctx.wd / "hb_traces.ndjson"
    tlc.write_ndjson(tf, traces)
    rv = tlc.run("HtmlBlocksTrace", tlc.cfg(ctx, "hb_trace.cfg", base_consts("classify"), spec="TraceSpec", invariants=["Verdict", "PassThrough", "OneNodePerElement"]),
                 wd=ctx.wd, env={"TRACE_FILE": str(tf)}, timeout=3000)
    tlc.expect_holds(rv, "HtmlBlocksTrace invariants")
    ctx.add_tlc("HtmlBlocksTrace", rv)
    if len(rv.records) != len(traces):
        raise tlc.MachineryFailure(f"HtmlBlocksTrace: {len(rv.records)} verdicts for {len(traces)} traces")
    for v in rv.records:
        ctx.traces_validated += 1
        if not v["ok"]:
            text, exts, obs = keep[v["id"]]
            ctx.violation(f"HTML block with extensions {exts}: expected nodes {v['exp']}, observed {[k for k, _ in obs]} (raw must carry the exact source text)",
                          {"leg": "V", "markdown": text, "extensions": exts})
    ctx.leg("V", traces=len(traces))
    ctx.exhaustive = True


def replay(case) -> int:
    import json
    print(json.dumps(case, indent=1, default=str)[:3000])
    return 1
