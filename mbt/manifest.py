"""Regenerate MANIFEST.json from the check modules' META (python -m mbt.manifest)."""
import importlib
import json
from pathlib import Path

VERIF = Path(__file__).resolve().parent.parent
NOT_BUILT = "check not built yet (work in progress; see DESIGN.md section 6 for the planned S/M/T/R/V)"
NA_REASONS: dict = {}


def main():
    props = [json.loads(l) for l in (VERIF / "properties.jsonl").read_text().splitlines() if l.strip()]
    checks, na, engines = [], [], {}
    for p in props:
        pid = p["id"]
        f = VERIF / "mbt" / "checks" / f"{pid.lower()}.py"
        if not f.exists():
            na.append({"property_id": pid, "reason": NA_REASONS.get(pid, NOT_BUILT)})
            continue
        src = f.read_text()
        ns: dict = {}
        # META is a literal dict at module top: evaluate without importing the repo
        start = src.index("META = ")
        end = src.index("\n}\n", start) + 2
        exec(src[start:end], ns)
        m = ns["META"]
        c = {
            "property_id": pid,
            "quick_cmd": f"./check {pid} --tier quick",
            "thorough_cmd": f"./check {pid} --tier thorough",
            "evidence_file": f"/verif/evidence/{pid}.json",
            "replay_cmd_template": f"./check {pid} --replay {{path}}",
            "engine": "tlc+mbt",
            "level_claimed": {"category": m["level"], "text": m["text"], "design_ref": m.get("design_ref", f"DESIGN.md section 6 {pid}")},
            "level_note": m["note"],
            "technique": m["technique"],
        }
        checks.append(c)
        for mod in m.get("specs", []):
            engines.setdefault(mod, []).append(pid)
    man = {
        "version": 1,
        "setup_cmd": "./check --selfcheck",
        "hooks": {
            "guard": "MYST_PARSER_VERIF",
            "enable": "no source hooks are used: every property is observed at public call returns (DESIGN.md 4.6); the variable is reserved and unused",
            "baseline_off_cmd": "cd /repo && /venv/bin/python -m pytest -ra -q -p no:cacheprovider --timeout=900 --continue-on-collection-errors",
            "source_commits": [],
            "add_only": True,
        },
        "engines": [{"name": k, "path": f"/verif/specs/{k}.tla", "serves_properties": v,
                     "kind_free_text": "TLA+ module checked with TLC; bound to the code by replay (R) and trace validation (V) through /verif/mbt"}
                    for k, v in sorted(engines.items())],
        "checks": checks,
        "notes": "Model-based verification with an explicit TLA+ specification (specs/), TLC for T, behaviour replay (R) and batch trace validation (V) for conformance. See DESIGN.md.",
        "not_applicable": na,
    }
    (VERIF / "MANIFEST.json").write_text(json.dumps(man, indent=1) + "\n")
    print(f"MANIFEST: {len(checks)} checks, {len(na)} not_applicable")


if __name__ == "__main__":
    main()
