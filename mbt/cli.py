"""./check <Cxx> [--tier quick|thorough] [--replay path] | --selfcheck"""
from __future__ import annotations

import argparse
import importlib
import json
import os
import sys
import traceback

from . import core
from .tlc import MachineryFailure


def main(argv=None) -> int:
    ap = argparse.ArgumentParser()
    ap.add_argument("pid", nargs="?")
    ap.add_argument("--tier", default=os.environ.get("VERIF_TIER", "quick"), choices=["quick", "thorough"])
    ap.add_argument("--replay")
    ap.add_argument("--selfcheck", action="store_true")
    a = ap.parse_args(argv)
    seed = int(os.environ.get("VERIF_SEED", "0") or 0)
    os.environ.setdefault("PYTHONHASHSEED", "0")
    if a.selfcheck:
        return selfcheck()
    if not a.pid:
        ap.error("property id required")
    pid = a.pid.upper()
    try:
        core.fresh_import_guard()
        mod = importlib.import_module(f"mbt.checks.{pid.lower()}")
        if a.replay:
            case = json.loads(open(a.replay).read())
            return mod.replay(case)
        ctx = core.Ctx(pid, a.tier, seed, level=getattr(mod, "META", {}).get("level", "model_checking"))
        mod.run(ctx)
        return ctx.finish()
    except MachineryFailure as e:
        print(f"MACHINERY-FAILURE {pid}: {e}")
        if not os.environ.get("VERIF_KEEP_WORK"):
            from . import tlc as _t
            _t.cleanup(f"{pid}_{a.tier}_{os.getpid()}")
        return 2
    except Exception:
        traceback.print_exc()
        print(f"MACHINERY-FAILURE {pid}: unexpected exception in the harness")
        return 2


def selfcheck() -> int:
    import shutil
    import subprocess
    ok = True
    for tool in ("java",):
        if not shutil.which(tool):
            print("missing", tool)
            ok = False
    if not os.path.exists("/opt/veriftools/tla/tla2tools.jar"):
        print("missing tla2tools.jar")
        ok = False
    try:
        core.fresh_import_guard()
        import docutils, markdown_it, sphinx, yaml  # noqa
    except Exception as e:
        print("import failure", e)
        ok = False
    print("selfcheck", "ok" if ok else "FAILED")
    return 0 if ok else 2


if __name__ == "__main__":
    sys.exit(main())
