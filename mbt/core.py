"""Check context: collects TLC statistics, replayed cases, verdicts; writes evidence; decides
VIOLATION vs KNOWN-FINDING from /verif/known_findings.json (never written at run time)."""
from __future__ import annotations

import json
import os
import sys
import time
from pathlib import Path

from . import tlc
from .tlc import MachineryFailure, VERIF

REPO = Path(os.environ.get("VERIF_REPO", "/repo"))
FINDINGS_FILE = VERIF / "known_findings.json"
EVIDENCE = Path(os.environ.get("VERIF_EVIDENCE_DIR") or VERIF / "evidence")   # redirected by tools/seedtest.py only
REPLAYS = Path(os.environ.get("VERIF_REPLAYS_DIR") or VERIF / "replays")


def load_findings() -> list[dict]:
    if not FINDINGS_FILE.exists():
        return []
    return json.loads(FINDINGS_FILE.read_text())["findings"]


class Ctx:
    def __init__(self, pid: str, tier: str, seed: int, level: str = "model_checking"):
        self.pid, self.tier, self.seed, self.level = pid, tier, seed, level
        self.t0 = time.time()
        self.wd = tlc.workdir(f"{pid}_{tier}_{os.getpid()}")
        self.states = 0
        self.transitions = 0
        self.tlc_runs: list[dict] = []
        self.traces_validated = 0      # V traces with a TLC verdict + R behaviours replayed
        self.evaluations = 0           # executions of real code
        self._distinct: set = set()
        self.samples: list = []
        self.rule = ""
        self.exhaustive: bool | None = None
        self.assumptions: list[str] = []
        self.extra: dict = {}
        self.violations: list[dict] = []
        self.known_hits: dict[str, dict] = {}
        self.open_findings = {f["id"]: f for f in load_findings()
                              if f.get("property") == pid and f.get("status") == "open"}
        self.gen_miss = 0
        self.legs: dict[str, dict] = {}

    # ---- TLC bookkeeping -------------------------------------------------------------
    def add_tlc(self, name: str, res: tlc.TLCResult, note: str = "") -> None:
        self.states += res.distinct
        self.transitions += res.generated
        self.tlc_runs.append({"run": name, "distinct_states": res.distinct,
                              "states_generated": res.generated, "depth": res.depth,
                              "wall_s": round(res.wall_s, 2), "violated": res.violated,
                              "note": note})

    def leg(self, name: str, **kw) -> None:
        self.legs.setdefault(name, {}).update(kw)

    # ---- cases -----------------------------------------------------------------------
    def count(self, key, nontrivial: bool = True) -> None:
        """One execution of real code on a case identified by `key`."""
        self.evaluations += 1
        if nontrivial:
            self._distinct.add(key if isinstance(key, (str, int, tuple)) else json.dumps(key, sort_keys=True))

    def sample(self, s, cap: int = 6) -> None:
        if len(self.samples) < cap:
            self.samples.append(s)

    # ---- verdicts --------------------------------------------------------------------
    def violation(self, clause: str, case: dict, finding: str | None = None) -> None:
        """Report a mismatch. `finding` is the id of the known finding this case matches by
        signature AND by predicted deviant result (decided by the caller); it is honoured
        only if that id is listed open in known_findings.json."""
        if finding is not None and finding in self.open_findings:
            self.known_hits.setdefault(finding, {"n": 0, "example": case})["n"] += 1
            return
        if len(self.violations) < 50:
            self.violations.append({"clause": clause, "case": case})
        else:
            self.violations.append(None)

    # ---- finish ----------------------------------------------------------------------
    def finish(self) -> int:
        wall = time.time() - self.t0
        nviol = len(self.violations)
        replay_paths = []
        if nviol:
            REPLAYS.mkdir(exist_ok=True)
            for i, v in enumerate([v for v in self.violations if v][:10]):
                p = REPLAYS / f"{self.pid}_{self.tier}_{i}.json"
                p.write_text(json.dumps({"property": self.pid, **v}, indent=1, default=str))
                replay_paths.append(str(p))
        cov = {
            "states": self.states, "transitions": self.transitions,
            "traces_validated_against_impl": self.traces_validated,
            "evaluations": self.evaluations,
            "distinct_nontrivial": len(self._distinct),
            "rule": self.rule,
            "samples": self.samples or ["<none>"],
            "tlc_runs": self.tlc_runs,
            "legs": self.legs,
            "generator_misses": self.gen_miss,
            "known_findings_hit": {k: v["n"] for k, v in self.known_hits.items()},
        }
        if self.exhaustive is not None:
            cov["exhaustive"] = self.exhaustive
        cov.update(self.extra)
        ev = {"property_id": self.pid, "tier": self.tier, "seed": self.seed, "level": self.level,
              "coverage": cov, "assumptions": self.assumptions, "wall_s": round(wall, 2),
              "violations": nviol}
        EVIDENCE.mkdir(exist_ok=True)
        (EVIDENCE / f"{self.pid}.json").write_text(json.dumps(ev, indent=1, default=str) + "\n")
        for fid, hit in self.known_hits.items():
            f = self.open_findings[fid]
            print(f"KNOWN-FINDING: property={self.pid} {fid}: {f['what']} (hit {hit['n']}x)")
        tlc.cleanup(self.wd.name)
        if nviol:
            for v, p in zip([v for v in self.violations if v], replay_paths):
                print(f"  clause: {v['clause']}")
            for p in replay_paths[:1]:
                print(f"VIOLATION property={self.pid} replay={p}")
            print(f"{self.pid} {self.tier}: {nviol} violation(s) in {wall:.1f}s")
            return 1
        print(f"{self.pid} {self.tier}: held on {self.evaluations} executions "
              f"({len(self._distinct)} distinct non-trivial), {self.states} TLC states, "
              f"{self.traces_validated} traces bound to the implementation, {wall:.1f}s")
        return 0


def fresh_import_guard() -> None:
    """Make sure the implementation is imported from VERIF_REPO's working tree."""
    sys.path.insert(0, str(REPO))
    import myst_parser  # noqa
    got = Path(myst_parser.__file__).resolve().parent.parent
    if got != REPO.resolve():
        raise MachineryFailure(f"myst_parser imported from {got}, expected {REPO}")
