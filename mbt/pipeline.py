"""The transform pipeline (specs/Pipeline.tla): constants extracted from the working tree, and
recorded runs of docutils' Transformer.  Used by C11 (footnote chain) and C09 (anchor resolution)."""
from __future__ import annotations

from . import tlc

MYST = "myst_parser.mdit_to_docutils.transforms."
DU = "docutils.transforms."
# S: the order the footnote and anchor models are written in (a before b)
NEEDS = [(MYST + "SortFootnotes", DU + "references.Footnotes"),                 # numbering follows the sorted registry
         (DU + "references.Footnotes", MYST + "UnreferencedFootnotesDetector"),  # detection looks at resolved references
         (DU + "references.Footnotes", MYST + "CollectFootnotes"),               # collected footnotes carry their numbers
         (MYST + "UnreferencedFootnotesDetector", MYST + "CollectFootnotes"),
         (MYST + "SortFootnotes", MYST + "CollectFootnotes"),
         (DU + "references.PropagateTargets", MYST + "ResolveAnchorIds"),        # a target's id sits on the node it labels
         (DU + "references.Footnotes", MYST + "ResolveAnchorIds")]

DOC = "# Title\n\n(tgt)=\n## Sub\n\ntext [^b] and [^a] and [l](#tgt) [m](#sub)\n\n[^a]: one\n[^b]: two\n[^c]: unused\n"


def record(text: str = DOC, overrides: dict | None = None):
    """publish `text` with the docutils front end; -> (registered [{name, prio, serial}], applied order [names])"""
    from docutils.transforms import Transformer
    from .frontends import docutils_doctree
    seen = {}
    orig = Transformer.apply_transforms

    def patched(self):
        before = list(self.transforms)
        orig(self)
        seen.setdefault("before", before)
        seen.setdefault("applied", list(self.applied))
    Transformer.apply_transforms = patched
    try:
        docutils_doctree(text, {"myst_heading_anchors": 2, **(overrides or {})}, transforms=True)
    finally:
        Transformer.apply_transforms = orig

    def name(cls):
        return f"{cls.__module__}.{cls.__name__}"
    reg = []
    for entry in seen["before"]:
        ps, cls = entry[0], entry[1]
        prio, serial = ps.split("-")
        reg.append({"name": name(cls), "prio": int(prio), "serial": int(serial)})
    order = [name(e[1]) for e in seen["applied"]]
    return reg, order


def check(ctx, pid: str):
    """T: the schedule of the transforms registered in this tree satisfies the stage order; V: the recorded run is that schedule"""
    reg, order = record()
    names = [r["name"] for r in reg]
    if len(set(names)) != len(names):
        raise tlc.MachineryFailure("Pipeline: a transform class is registered twice")
    defs = {"TransformsV": "{" + ", ".join(f'[name |-> "{r["name"]}", prio |-> {r["prio"]}, serial |-> {r["serial"]}]' for r in reg) + "}",
            "NeedsV": "{" + ", ".join(f'<<"{a}", "{b}">>' for a, b in NEEDS) + "}"}
    consts = {"Transforms": "<-TransformsV", "Needs": "<-NeedsV"}
    r = tlc.run("Pipeline", tlc.cfg(ctx, "pl_mc.cfg", consts, invariants=["StageOrder", "Deterministic", "EachOnce", "Emit"], properties=["Terminates"]),
                wd=ctx.wd, defs=defs, allow_violation=True)
    ctx.add_tlc("Pipeline_mc", r, f"{len(reg)} transforms registered by reader, parser and writer; priorities read from the tree")
    missing = [n for pair in NEEDS for n in pair if n not in names]
    if missing:
        ctx.violation(f"transform(s) {sorted(set(missing))} are not registered by the docutils parser", {"leg": "T-pipeline", "registered": reg})
    if r.violated:
        sched = sorted(reg, key=lambda t: (t["prio"], t["serial"]))
        pos = {t["name"]: i for i, t in enumerate(sched)}
        bad = [(a, b) for a, b in NEEDS if a in pos and b in pos and pos[a] >= pos[b]]
        ctx.violation(f"transform order: {r.violated} fails for the priorities in this tree; "
                      + "; ".join(f"{a.rsplit('.', 1)[1]} (priority {sched[pos[a]]['prio']}) must run before {b.rsplit('.', 1)[1]} (priority {sched[pos[b]]['prio']})" for a, b in bad),
                      {"leg": "T-pipeline", "registered": reg})
        return
    tf = ctx.wd / "pl_trace.ndjson"
    traces = []
    for tid, (text, ov) in enumerate([(DOC, {}), (DOC, {"myst_footnote_sort": False}), ("plain\n", {}), (DOC + "\n```{note}\n[^a]\n```\n", {"myst_footnote_transition": False})]):
        reg2, order2 = record(text, ov)
        if reg2 != reg:
            ctx.violation("the registered transforms depend on the document / configuration", {"leg": "V-pipeline", "markdown": text, "overrides": ov})
            continue
        traces.append({"id": tid, "order": order2})
    tlc.write_ndjson(tf, traces)
    rv = tlc.run("PipelineTrace", tlc.cfg(ctx, "pl_trace.cfg", consts, spec="TraceSpec", invariants=["Verdict"]), wd=ctx.wd, env={"TRACE_FILE": str(tf)}, defs=defs)
    ctx.add_tlc("PipelineTrace", rv)
    if len(rv.records) != len(traces):
        raise tlc.MachineryFailure(f"PipelineTrace: {len(rv.records)} verdicts for {len(traces)} traces")
    for v in rv.records:
        ctx.traces_validated += 1
        ctx.count(("pipeline", v["id"]))
        if not (v["schedule"] and v["needs"]):
            ctx.violation("recorded transform run is not the schedule of the pipeline model" if not v["schedule"] else "recorded transform run violates the stage order",
                          {"leg": "V-pipeline", "recorded": traces[v["id"]]["order"], "registered": reg})
    ctx.leg("pipeline", transforms=len(reg), recorded_runs=len(traces))
