----------------------------- MODULE SectionsTrace -----------------------------
(* V leg of C05: recorded renders.  {id, ev: micro events, res: projected result per     *)
(* micro event, warns: micro indices of [myst.header] warnings}.  M's actions consume     *)
(* the events; the verdict compares M's registers with the observation and evaluates S    *)
(* on the observation itself.                                                             *)
EXTENDS Sections, IOUtils

Traces == ndJsonDeserialize(IOEnv.TRACE_FILE)
VARIABLE tid
tvars == <<vars, tid>>
T == Traces[tid]

TraceInit == /\ tid \in 1..Len(Traces)
             /\ items = <<>> /\ ev = Traces[tid].ev
             /\ pos = 1 /\ open = (0 :> 0) /\ hoff = 0 /\ cur = 0 /\ saved = <<>>
             /\ res = <<>> /\ warns = {}
TraceNext == Next /\ UNCHANGED tid
TraceSpec == TraceInit /\ [][TraceNext]_tvars

ObsWarns == {T.warns[x] : x \in 1..Len(T.warns)}
Verdict == Done => PrintT(ToJson([id |-> T.id,
                                  m |-> (res = T.res /\ warns = ObsWarns),
                                  s |-> (Len(T.res) = Len(ev) /\ StructureOf(T.res) /\ ObsWarns = WarnSet),
                                  firstdiff |-> LET D == {n \in 1..Len(res) : n > Len(T.res) \/ res[n] # T.res[n]}
                                                IN IF D = {} THEN 0 ELSE CHOOSE n \in D : \A y \in D : n <= y]))
=============================================================================
