----------------------------- MODULE XRef -----------------------------
(* C12 -- Sphinx cross-document links resolve to the right URI or warn exactly once.        *)
(* A project is a set of documents (paths as sequences of components, e.g. <<"b","c","y">>   *)
(* for b/c/y.md), each with a title and a fixed list of headings; one label and one extra    *)
(* file have fixed places.  A link is written in document `src`:                             *)
(*   [to |-> target path, sp |-> spelling, anchor |-> 0 (none) | k (k-th heading of the      *)
(*    target) | 99 (a slug that does not exist), text |-> "explicit" | "empty"]               *)
(* spellings: "rel" x.md, "dot" ./x.md, "abs" /a/x.md, "noext" (no extension),                *)
(*            "project" <project:x.md>, "label" #lab, "file" (relative path of the extra      *)
(*            file), "path" <path:...>                                                        *)
(* M follows the code: SphinxRenderer.render_link_* classifies the destination (file exists   *)
(* -> doc / download; else "any"), MystReferenceResolver resolves (resolve_myst_ref_doc with  *)
(* the target's slug table; resolve_myst_ref_any with docname_join and std labels), and       *)
(* make_refnode computes the relative URI.  S states the expected result from the project     *)
(* description alone.                                                                         *)
EXTENDS Naturals, Sequences, FiniteSets, TLC, Json

CONSTANTS Universe,      \* all document paths that may exist
          Headings,      \* [path -> number of headings]
          LabelDoc,      \* the document that holds the label (before its last heading)
          FileDir,       \* directory (sequence) of the extra file f.txt
          DevAnchorAsFragment,  \* a seeded change: the requested slug is used as URI fragment
          DevExistsNotIsFile    \* a seeded change: a directory with the document's name counts as a file

Spellings == {"rel", "dot", "abs", "noext", "project", "label", "file", "path", "rst"}     \* "rst": x.rst where only x.md exists (no such file)
Projects == {P \in SUBSET Universe : P # {}}

(* ------------------------------------------------------------------ paths ----------- *)
DirOf(p) == SubSeq(p, 1, Len(p) - 1)
RECURSIVE NormFrom(_, _)
NormFrom(s, acc) == IF s = <<>> THEN acc
                    ELSE IF Head(s) = "." THEN NormFrom(Tail(s), acc)
                    ELSE IF Head(s) = ".." THEN NormFrom(Tail(s), IF acc = <<>> THEN <<>> ELSE SubSeq(acc, 1, Len(acc) - 1))
                    ELSE NormFrom(Tail(s), Append(acc, Head(s)))
Norm(s) == NormFrom(s, <<>>)
RECURSIVE Common(_, _)
Common(a, b) == IF a = <<>> \/ b = <<>> \/ Head(a) # Head(b) THEN 0 ELSE 1 + Common(Tail(a), Tail(b))
Ups(n) == [j \in 1..n |-> ".."]
(* how a relative link from a file in directory d to path t is written *)
RelPath(d, t) == LET c == Common(d, DirOf(t)) IN Ups(Len(d) - c) \o SubSeq(t, c + 1, Len(t))     \* never empty: the file name stays
(* sphinx.util.osutil.relative_uri on .html targets *)
RECURSIVE JoinSlash(_)
JoinSlash(s) == IF s = <<>> THEN "" ELSE IF Len(s) = 1 THEN s[1] ELSE s[1] \o "/" \o JoinSlash(Tail(s))
RelUri(from, to) == IF from = to THEN ""
                    ELSE LET c == Common(DirOf(from), DirOf(to))      \* common leading directories
                             b == SubSeq(from, c + 1, Len(from))
                             t == SubSeq(to, c + 1, Len(to))
                         IN JoinSlash(Ups(Len(b) - 1) \o SubSeq(t, 1, Len(t) - 1) \o <<t[Len(t)] \o ".html">>)

VARIABLES proj, src, link, pc, cls, res
vars == <<proj, src, link, pc, cls, res>>

Links == [to : Universe, sp : Spellings, anchor : {0, 1, 2, 99}, text : {"explicit", "empty"}]
Init == /\ proj \in Projects /\ src \in proj /\ link \in Links
        /\ (link.sp \in {"label", "file", "path"} => link.anchor = 0 /\ link.to = src)      \* (target irrelevant)
        /\ (link.anchor \in {1, 2} => link.anchor <= Headings[link.to])
        /\ (link.sp \in {"noext", "rst"} => link.anchor = 0)
        /\ pc = "classify" /\ cls = <<>> /\ res = <<>>

(* the components the link is written with *)
Written == CASE link.sp = "rel" -> RelPath(DirOf(src), link.to)
             [] link.sp = "dot" -> <<".">> \o RelPath(DirOf(src), link.to)
             [] link.sp = "abs" -> link.to
             [] link.sp = "noext" -> RelPath(DirOf(src), link.to)
             [] link.sp = "rst" -> RelPath(DirOf(src), link.to)
             [] link.sp = "project" -> RelPath(DirOf(src), link.to)
             [] link.sp \in {"file", "path"} -> RelPath(DirOf(src), Append(FileDir, "f.txt"))
             [] OTHER -> <<>>
(* relfn2path / docname_join: absolute spellings are relative to the source directory *)
Located == IF link.sp = "abs" THEN Norm(Written) ELSE Norm(DirOf(src) \o Written)

Classify ==
  /\ pc = "classify"
  /\ cls' = CASE link.sp = "label" -> <<"any-label">>
              [] link.sp = "path" -> <<"download">>
              [] link.sp = "file" -> <<"download">>                                  \* the file exists and is not a document
              [] link.sp = "noext" -> <<"any-doc", Located>>                          \* 'x' is not a file: left to the resolver
              [] link.sp = "rst" -> <<"any-missing">>                                 \* a file of that name does not exist, and the suffix is part of the name
              [] Located \in proj -> <<"doc", Located>>                              \* potential_path.is_file() and path2doc
              [] link.sp = "project" -> <<"missing-at-render">>                      \* render_link_project warns at once
              [] OTHER -> <<"any-missing">>
  /\ pc' = "resolve" /\ UNCHANGED <<proj, src, link, res>>

TextOf(kind, doc, k) == IF link.text = "explicit" THEN <<"explicit">> ELSE <<kind, doc, k>>
HasLabel == LabelDoc \in proj
Resolve ==
  /\ pc = "resolve"
  /\ res' =
       CASE cls[1] = "doc" ->
              LET t == cls[2] IN
              IF link.anchor = 0 THEN [kind |-> "doc", uri |-> RelUri(src, t), frag |-> <<"none">>, same |-> src = t,
                                       text |-> TextOf("title", t, 0), warns |-> 0]
              ELSE IF link.anchor = 99 THEN [kind |-> "doc", uri |-> RelUri(src, t), frag |-> <<"literal", "nosuchslug">>, same |-> src = t,
                                             text |-> IF link.text = "explicit" THEN <<"explicit">> ELSE <<"nothing">>, warns |-> 1]
              ELSE [kind |-> "doc", uri |-> RelUri(src, t),
                    frag |-> IF DevAnchorAsFragment THEN <<"slug", t, link.anchor>> ELSE <<"heading", t, link.anchor>>,
                    same |-> src = t, text |-> TextOf("heading", t, link.anchor), warns |-> 0]
         [] cls[1] = "any-doc" ->
              IF cls[2] \in proj THEN [kind |-> "doc", uri |-> RelUri(src, cls[2]), frag |-> <<"none">>, same |-> src = cls[2],
                                       text |-> TextOf("title", cls[2], 0), warns |-> 0]
              ELSE [kind |-> "missing", uri |-> "", frag |-> <<"none">>, same |-> FALSE,
                    text |-> IF link.text = "explicit" THEN <<"explicit">> ELSE <<"literal">>, warns |-> 1]
         [] cls[1] = "any-label" ->
              IF HasLabel THEN [kind |-> "doc", uri |-> RelUri(src, LabelDoc), frag |-> <<"heading", LabelDoc, Headings[LabelDoc]>>, same |-> src = LabelDoc,
                                text |-> TextOf("heading", LabelDoc, Headings[LabelDoc]), warns |-> 0]
              ELSE [kind |-> "missing", uri |-> "", frag |-> <<"none">>, same |-> FALSE,
                    text |-> IF link.text = "explicit" THEN <<"explicit">> ELSE <<"literal">>, warns |-> 1]
         [] cls[1] = "download" -> [kind |-> "download", uri |-> "", frag |-> <<"none">>, same |-> FALSE,
                                    text |-> IF link.text = "explicit" THEN <<"explicit">> ELSE <<"literal">>, warns |-> 0]
         [] OTHER -> [kind |-> "missing", uri |-> "", frag |-> <<"none">>, same |-> FALSE,
                      text |-> IF link.text = "explicit" THEN <<"explicit">> ELSE <<"literal">>, warns |-> 1]
  /\ pc' = "done" /\ UNCHANGED <<proj, src, link, cls>>

Next == Classify \/ Resolve
Spec == Init /\ [][Next]_vars /\ WF_vars(Next)
Done == pc = "done"

(************************************ S ************************************************)
(* the target, from the project description and the link's meaning alone *)
STarget == CASE link.sp \in {"file", "path"} -> <<"file">>
             [] link.sp = "label" -> IF LabelDoc \in proj THEN <<"label">> ELSE <<"missing">>
             [] link.to \notin proj \/ link.sp = "rst" -> <<"missing">>
             [] link.anchor = 99 -> <<"doc-missing-anchor", link.to>>
             [] link.anchor = 0 -> <<"doc", link.to>>
             [] OTHER -> <<"heading", link.to, link.anchor>>
RightUri == Done =>
  CASE STarget[1] = "doc" -> res.kind = "doc" /\ res.uri = RelUri(src, link.to) /\ res.frag = <<"none">> /\ res.warns = 0
    [] STarget[1] = "heading" -> res.kind = "doc" /\ res.uri = RelUri(src, link.to) /\ res.frag = <<"heading", link.to, link.anchor>> /\ res.warns = 0
    [] STarget[1] = "label" -> res.kind = "doc" /\ res.uri = RelUri(src, LabelDoc) /\ res.frag[1] = "heading" /\ res.warns = 0
    [] STarget[1] = "file" -> res.kind = "download" /\ res.warns = 0
    [] STarget[1] = "doc-missing-anchor" -> res.warns = 1
    [] OTHER -> res.kind = "missing" /\ res.warns = 1                       \* exactly one warning
TextKept == Done => (link.text = "explicit" => res.text = <<"explicit">>)
(* the way a relative link is written leads back to the target (the URI arithmetic is an inverse) *)
RoundTrip == \A d \in Universe, t \in Universe : /\ Norm(DirOf(d) \o RelPath(DirOf(d), t)) = t
                                                  /\ RelPath(DirOf(d), t) # <<>>
Terminates == <>Done
Emit == Done => PrintT(ToJson([proj |-> proj, src |-> src, link |-> link, written |-> Written, res |-> res]))
=============================================================================
