----------------------------- MODULE Totality -----------------------------
(* C01 -- parsing is total: any text, any valid configuration, never an uncaught exception. *)
(* The pipeline is modelled as a sequence of stages; a document is a sequence of injected    *)
(* faults <<site, fault>> (malformed, unsupported or unresolvable input at a known place),    *)
(* each in a context (top level or nested in a container), each followed by a marker          *)
(* paragraph.  M: every fault is met by the handler of its site; a handled fault yields at    *)
(* least one message (system-message node or logged warning) and the pipeline goes on; an     *)
(* unhandled one would end the run in "raised".  The handler table Handles is the INTENDED    *)
(* design: every fault of every site.  (As-built gaps found by replaying the behaviours were  *)
(* repaired in the code, see known_findings.json; Dev_Unhandled re-creates one of them.)      *)
(* S: Total, Reported, RestProcessed.                                                        *)
EXTENDS Naturals, Sequences, FiniteSets, TLC, Json

CONSTANTS Faults,         \* set of <<site, fault>>
          Contexts,       \* e.g. {"top", "quote", "list", "directive"}
          MaxFaults,
          Silent,         \* faults that are legitimately not reported (input merely unusual, not malformed)
          DevUnhandled    \* set of <<site, fault>> that no handler catches (regression of the diagnosis)

Docs == UNION {[1..n -> (Faults \X Contexts)] : n \in 0..MaxFaults}

VARIABLES doc, pos, outcome, msgs, markers
vars == <<doc, pos, outcome, msgs, markers>>

Init == /\ doc \in Docs /\ pos = 1 /\ outcome = "running" /\ msgs = <<>> /\ markers = <<>>

(* one stage meets the next fault *)
Handle == /\ outcome = "running" /\ pos <= Len(doc)
          /\ LET f == doc[pos][1] IN
             IF f \in DevUnhandled
             THEN outcome' = "raised" /\ UNCHANGED <<msgs, markers>>
             ELSE /\ msgs' = IF f \in Silent THEN msgs ELSE Append(msgs, pos)
                  /\ markers' = Append(markers, pos)       \* the paragraph after the faulty construct is rendered
                  /\ UNCHANGED outcome
          /\ pos' = pos + 1 /\ UNCHANGED doc
Finish == /\ outcome = "running" /\ pos > Len(doc) /\ outcome' = "returned" /\ UNCHANGED <<doc, pos, msgs, markers>>
Next == Handle \/ Finish
Spec == Init /\ [][Next]_vars /\ WF_vars(Next)
Done == outcome # "running"

Total == outcome # "raised"
Reported == outcome = "returned" => \A n \in 1..Len(doc) : doc[n][1] \notin Silent => \E m \in 1..Len(msgs) : msgs[m] = n
RestProcessed == outcome = "returned" => markers = [n \in 1..Len(doc) |-> n]
Terminates == <>Done

Emit == Done => PrintT(ToJson([doc |-> doc, outcome |-> outcome, msgs |-> msgs]))
=============================================================================
