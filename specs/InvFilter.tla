----------------------------- MODULE InvFilter -----------------------------
(* C19 (second half) -- filtering inventories and rendering an `inv:` link.           *)
(*                                                                                    *)
(* An inventory collection is a sequence of distinct entries                          *)
(*   [inv, dom, typ, name]  (code-point strings), in *inventory order*: the order in  *)
(* which the nested mapping inventory -> domain -> type -> name yields them.          *)
(* M  FilterStep: the four nested loops of filter_inventories, one entry per step,    *)
(*    with the early `continue`s; Link: render_link_inventory's decision.             *)
(* S  result = the subsequence of entries all four of whose coordinates match.        *)
EXTENDS WildcardOps, FiniteSets, TLC, Json

CONSTANTS MaxEntries, DevDropTrailing

\* "k" "k2" | "py" "s" | "f" "f:n" | "a" "ab" "*"
InvNames == {<<107>>, <<107, 50>>}
Domains  == {<<112, 121>>, <<115>>}
Types    == {<<102>>, <<102, 58, 110>>}   \* "f", "f:n" (an object type may itself contain a colon)
Targets  == {<<97>>, <<97, 98>>, <<42>>}
Universe == InvNames \X Domains \X Types \X Targets

\* filter patterns per coordinate; NONE = omitted
PInv == {NONE, <<42>>, <<107>>, <<107, 42>>}                  \* None * k k*
PDom == {NONE, <<42>>, <<112, 121>>, <<112, 42>>}             \* None * py p*
PTyp == {NONE, <<102>>, <<102, 42>>}                          \* None f f*
PTgt == {NONE, <<42>>, <<97>>, <<97, 42>>, <<92, 42>>, <<42, 98>>}  \* None * a a* \* *b
Filters == PInv \X PDom \X PTyp \X PTgt

\* grouped order: entries sharing an inventory (then domain, then type) are contiguous
Grouped(s) == \A a, b, c \in 1..Len(s) : (a < b /\ b < c) =>
                 /\ (s[a][1] = s[c][1] => s[b][1] = s[a][1])
                 /\ (s[a][1] = s[c][1] /\ s[a][2] = s[c][2] => s[b][2] = s[a][2])
                 /\ (s[a][1] = s[c][1] /\ s[a][2] = s[c][2] /\ s[a][3] = s[c][3] => s[b][3] = s[a][3])
Distinct(s) == \A a, b \in 1..Len(s) : a # b => s[a] # s[b]
Inventories == {s \in UNION {[1..n -> Universe] : n \in 0..MaxEntries} : Distinct(s) /\ Grouped(s)}

VARIABLES inv, flt, pos, out, phase
vars == <<inv, flt, pos, out, phase>>

Init == /\ inv \in Inventories /\ flt \in Filters
        /\ pos = 1 /\ out = <<>> /\ phase = "filter"

Mt(p, n) == MatchM(p, n, DevDropTrailing)

(* one entry of the nested loops; the early continues make the order of tests visible *)
FilterStep ==
  /\ phase = "filter" /\ pos <= Len(inv)
  /\ LET e == inv[pos] IN
       out' = IF ~Mt(flt[1], e[1]) THEN out
              ELSE IF ~Mt(flt[2], e[2]) THEN out
              ELSE IF ~Mt(flt[3], e[3]) THEN out
              ELSE IF Mt(flt[4], e[4]) THEN Append(out, pos) ELSE out
  /\ pos' = pos + 1 /\ UNCHANGED <<inv, flt, phase>>

FilterDone == /\ phase = "filter" /\ pos > Len(inv) /\ phase' = "done"
              /\ UNCHANGED <<inv, flt, pos, out>>

Next == FilterStep \/ FilterDone
Spec == Init /\ [][Next]_vars

(* S *)
Expected == SelectSeq([k \in 1..Len(inv) |-> k],
                      LAMBDA k : \A c \in 1..4 : SMatchOpt(flt[c], inv[k][c]))
Correct  == phase = "done" => out = Expected
Ordered  == \A a, b \in 1..Len(out) : a < b => out[a] < out[b]
Partial  == phase = "filter" =>
              out = SelectSeq([k \in 1..(pos - 1) |-> k],
                              LAMBDA k : \A c \in 1..4 : SMatchOpt(flt[c], inv[k][c]))

(* link decision (render_link_inventory): warning kind and which match is rendered *)
LinkWarn(matches)  == IF matches = <<>> THEN "iref_missing"
                      ELSE IF Len(matches) > 1 THEN "iref_ambiguous" ELSE "none"
LinkMatch(matches) == IF matches = <<>> THEN 0 ELSE matches[1]

Emit == phase = "done" =>
          PrintT(ToJson([inv |-> inv, flt |-> flt, out |-> out,
                         warn |-> LinkWarn(out), first |-> LinkMatch(out)]))
=============================================================================
