----------------------------- MODULE WarningsTrace -----------------------------
(* V leg of C14: pairs of recorded runs of the same document, A without and B with a        *)
(* suppress list.  {id, lst: [[target, subtarget]], outA, outB}: each output is the          *)
(* document-order sequence of items <<"warn", <<type, subtype>>>> (a system_message node),   *)
(* <<"log", <<type, subtype>>>> (a warning-stream line) and <<"node", sid>> (any other node, *)
(* interned).  The verdict is S's relation: B = A with exactly the matching warnings         *)
(* removed; and every tag of type myst is in the extracted catalogue.                        *)
EXTENDS Warnings, IOUtils

Traces == ndJsonDeserialize(IOEnv.TRACE_FILE)
VARIABLE tid
tvars == <<vars, tid>>
T == Traces[tid]

TraceInit == /\ tid \in 1..Len(Traces)
             /\ tag = <<"myst", "header">> /\ lst = Traces[tid].lst /\ i = 1 /\ verdict = "run"
             /\ acts = <<>> /\ k = 1 /\ outA = Traces[tid].outA /\ outB = Traces[tid].outB
TraceNext == (Loop \/ LoopEnd) /\ UNCHANGED tid
TraceSpec == TraceInit /\ [][TraceNext]_tvars

FilterAll(out, l) == SelectSeq(out, LAMBDA it : ~(it[1] \in {"warn", "log"} /\ SSuppressed(it[2], l)))
TagsOf(out) == {out[n][2] : n \in {n \in 1..Len(out) : out[n][1] \in {"warn", "log"}}}
Verdict == verdict # "run" =>
  PrintT(ToJson([id |-> T.id,
                 relation |-> (outB = FilterAll(outA, lst)),
                 catalogue |-> (\A t \in TagsOf(outA) \cup TagsOf(outB) : t[1] = "myst" => t[2] \in Catalogue),
                 firstdiff |-> LET F == FilterAll(outA, lst)
                                   D == {n \in 1..(IF Len(F) > Len(outB) THEN Len(F) ELSE Len(outB)) :
                                           n > Len(F) \/ n > Len(outB) \/ F[n] # outB[n]}
                               IN IF D = {} THEN 0 ELSE CHOOSE n \in D : \A m \in D : n <= m]))
=============================================================================
