----------------------------- MODULE TotalityTrace -----------------------------
(* V leg of C01: recorded runs on arbitrary inputs (token soup, grammar documents, the        *)
(* repository's fixtures) under sampled configurations and both front ends.  For such        *)
(* inputs the faults are not known in advance, so a trace carries the outcome only:          *)
(* {id, outcome: "returned" | "raised", faults: n of injected faults (0 if unknown),         *)
(* reported: n of messages}.  The verdict is S's Total (and Reported where faults are known) *)
EXTENDS Naturals, Sequences, TLC, Json, IOUtils

Traces == ndJsonDeserialize(IOEnv.TRACE_FILE)
VARIABLE tid
TraceInit == tid \in 1..Len(Traces)
TraceNext == UNCHANGED tid
TraceSpec == TraceInit /\ [][TraceNext]_tid
T == Traces[tid]
Verdict == PrintT(ToJson([id |-> T.id, total |-> T.outcome = "returned",
                          reported |-> (T.faults = 0 \/ T.reported >= 1)]))
=============================================================================
