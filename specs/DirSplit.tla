----------------------------- MODULE DirSplit -----------------------------
(* C08 -- parse_directive_text: first line + content lines -> arguments, options, body,   *)
(* body offset, warnings.  Lines are abstract:                                            *)
(*   <<"o", key, val>>  an option line  (":key: val" in the colon style, "key: val"       *)
(*                      inside a --- block)                                               *)
(*   <<"b">> blank   <<"t">> text in column 0   <<"i">> indented text   <<"d">> "---"     *)
(* A directive class is its declaration record                                            *)
(*   [req, opt, faw (final_argument_whitespace), content (has_content), spec (has an      *)
(*    option_spec)];  its option_spec is fixed: a -> nonnegative_int, b -> unchanged,      *)
(*   f -> flag, anything else unknown.                                                    *)
(* M follows the code: DetectStyle, TakeBlock, Tokenize, Validate (one step per option),  *)
(* Assemble (first line / arguments / leading blank / content check).                     *)
(* S is the declarative partition/offset/option statement; both are in this module.       *)
EXTENDS Naturals, Sequences, FiniteSets, SequencesExt, TLC, Json

CONSTANTS MaxLines,        \* content length bound
          LineVocab,       \* set of abstract lines
          Decls,           \* set of declaration records
          Firsts,          \* set of first lines: number of words 0..3
          Addls,           \* set of additional_options (sequences of <<key, val>>)
          DevDropTrailing  \* as-built before the fix: a trailing blank content line is lost
                           \* when an option block is present, and the offset grows by one

Contents == UNION {[1..n -> LineVocab] : n \in 0..MaxLines}

Kind(l) == l[1]
IsOpt(l) == Kind(l) = "o"
IsBlank(l) == Kind(l) = "b"
(* does the line, left-stripped, start with ":" (colon style) *)
ColonLine(l) == IsOpt(l)

VARIABLES lines, decl, first, addl,     \* the input
          pc,                           \* program counter
          style, p, block,              \* option style, number of content lines consumed, block lines
          pairs, tokerr, todo, opts, nwarn, unknown,
          res                           \* the result record (at pc = "done")
vars == <<lines, decl, first, addl, pc, style, p, block, pairs, tokerr, todo, opts, nwarn, unknown, res>>

Init == /\ lines \in Contents /\ decl \in Decls /\ first \in Firsts /\ addl \in Addls
        /\ pc = "detect" /\ style = "none" /\ p = 0 /\ block = <<>>
        /\ pairs = <<>> /\ tokerr = FALSE /\ todo = <<>> /\ opts = <<>> /\ nwarn = 0 /\ unknown = FALSE
        /\ res = [st |-> "run"]

N == Len(lines)
(* ------------------------------------------------------------------ operators ------ *)
(* index of the first "d" line at or after k, or N + 1 *)
RECURSIVE NextDash(_, _)
NextDash(L, k) == IF k > Len(L) THEN Len(L) + 1 ELSE IF Kind(L[k]) = "d" THEN k ELSE NextDash(L, k + 1)
(* number of leading colon lines *)
RECURSIVE LeadColon(_, _)
LeadColon(L, k) == IF k > Len(L) THEN k - 1 ELSE IF ColonLine(L[k]) THEN LeadColon(L, k + 1) ELSE k - 1

StyleOf(L, d) == IF ~d.spec \/ L = <<>> THEN "none"
                 ELSE IF Kind(L[1]) = "d" THEN "dash"
                 ELSE IF ColonLine(L[1]) THEN "colon" ELSE "none"
(* has_options_block: "---" first, or the first non-blank line is a colon line (the code  *)
(* tests content.lstrip().startswith(":"), which also skips leading blank lines; the      *)
(* block is then empty unless the colon line is the very first line)                      *)
HasBlock(L, d) == /\ d.spec /\ L # <<>>
                  /\ \/ Kind(L[1]) = "d"
                     \/ \E k \in 1..Len(L) : ColonLine(L[k]) /\ \A j \in 1..(k - 1) : IsBlank(L[j])
(* number of content lines that belong to the option block (delimiters included) *)
Consumed(L, d) == LET s == StyleOf(L, d) IN
                  IF s = "none" THEN 0
                  ELSE IF s = "colon" THEN LeadColon(L, 1)
                  ELSE IF NextDash(L, 2) > Len(L) THEN Len(L) ELSE NextDash(L, 2)
BlockOf(L, d) == LET s == StyleOf(L, d) IN
                 IF s = "none" THEN <<>>
                 ELSE IF s = "colon" THEN SubSeq(L, 1, LeadColon(L, 1))
                 ELSE SubSeq(L, 2, NextDash(L, 2) - 1)

(* tokenizer on abstract block lines: a text line in column 0 cannot be a key ("expected  *)
(* ':' after key").  An indented line inside a --- block (dedent, continuation of a plain  *)
(* value, key not in column 0) is outside this model: the run ends in "outside" and        *)
(* nothing is claimed about it (OptTok.tla decides the tokenizer itself).                  *)
TokErr(B) == \E k \in 1..Len(B) : Kind(B[k]) = "t"
Unmodelled(B) == \E k \in 1..Len(B) : Kind(B[k]) = "i"
PairsOf(B) == LET idx == {k \in 1..Len(B) : IsOpt(B[k])} IN
              [n \in 1..Cardinality(idx) |->
                 LET k == CHOOSE k \in idx : Cardinality({j \in idx : j <= k}) = n IN <<B[k][2], B[k][3]>>]

(* dict(pairs): the last value of a key wins; as a function on the keys present *)
DictOf(ps) == [k \in {ps[n][1] : n \in 1..Len(ps)} |->
                 ps[CHOOSE n \in 1..Len(ps) : ps[n][1] = k /\ \A m \in (n + 1)..Len(ps) : ps[m][1] # k][2]]
(* {**additional, **block} *)
Merge(ad, bl) == [k \in DOMAIN ad \cup DOMAIN bl |-> IF k \in DOMAIN bl THEN bl[k] ELSE ad[k]]

Known == {"a", "b", "f"}
ValidVal(k, v) == IF k = "a" THEN v = "1" ELSE TRUE          \* nonnegative_int / unchanged / flag
Conv(k, v) == IF k = "f" THEN "" ELSE v                        \* flag -> None, unchanged("") -> ""

(* arguments: number of arguments returned, or "error" *)
ArgsOf(d, w) == IF d.req + d.opt = 0 THEN 0
                ELSE IF w < d.req THEN 99
                ELSE IF w > d.req + d.opt THEN (IF d.faw THEN d.req + d.opt ELSE 99)
                ELSE w
ArgErr == 99

(* ------------------------------------------------------------------ M -------------- *)
DetectStyle == /\ pc = "detect"
               /\ style' = StyleOf(lines, decl)
               /\ pc' = IF decl.spec THEN "take" ELSE "assemble"     \* no option_spec: no option handling at all
               /\ UNCHANGED <<lines, decl, first, addl, p, block, pairs, tokerr, todo, opts, nwarn, unknown, res>>

TakeBlock == /\ pc = "take"
             /\ p' = Consumed(lines, decl) /\ block' = BlockOf(lines, decl)
             /\ pc' = "tokenize"
             /\ UNCHANGED <<lines, decl, first, addl, style, pairs, tokerr, todo, opts, nwarn, unknown, res>>

Tokenize == /\ pc = "tokenize"
            /\ IF TokErr(block)
               THEN /\ tokerr' = TRUE /\ nwarn' = nwarn + 1 /\ pc' = "assemble"   \* options dropped, one warning
                    /\ UNCHANGED <<pairs, todo>>
               ELSE /\ pairs' = PairsOf(block) /\ tokerr' = FALSE /\ pc' = "validate"
                    /\ todo' = LET m == Merge(DictOf(addl), DictOf(PairsOf(block))) IN
                               \* iteration order is irrelevant for the result; fix one
                               LET ks == SetToSeq(DOMAIN m) IN [n \in 1..Len(ks) |-> <<ks[n], m[ks[n]]>>]
                    /\ UNCHANGED nwarn
            /\ UNCHANGED <<lines, decl, first, addl, style, p, block, opts, unknown, res>>

(* with no option block (style "none") the additional options are validated all the same *)
ValidateOne == /\ pc = "validate" /\ todo # <<>>
               /\ LET k == Head(todo)[1] v == Head(todo)[2] IN
                  IF k \notin Known THEN /\ unknown' = TRUE /\ UNCHANGED <<opts, nwarn>>
                  ELSE IF ValidVal(k, v) THEN /\ opts' = Append(opts, <<k, Conv(k, v)>>) /\ UNCHANGED <<unknown, nwarn>>
                  ELSE /\ nwarn' = nwarn + 1 /\ UNCHANGED <<opts, unknown>>
               /\ todo' = Tail(todo)
               /\ UNCHANGED <<lines, decl, first, addl, pc, style, p, block, pairs, tokerr, res>>
ValidateEnd == /\ pc = "validate" /\ todo = <<>>
               /\ nwarn' = nwarn + (IF unknown THEN 1 ELSE 0)     \* one combined "Unknown option keys" warning
               /\ pc' = "assemble"
               /\ UNCHANGED <<lines, decl, first, addl, style, p, block, pairs, tokerr, todo, opts, unknown, res>>

(* the rest of the content after the block, as the code sees it *)
RestIdx == LET full == [k \in 1..(N - p) |-> p + k] IN
           IF DevDropTrailing /\ style # "none" /\ full # <<>> /\ IsBlank(lines[N])
           THEN SubSeq(full, 1, Len(full) - 1) ELSE full
Assemble ==
  /\ pc = "assemble"
  /\ LET noargs == decl.req + decl.opt = 0
         merged == noargs /\ first > 0
         rest   == RestIdx
         off0   == N - Len(rest)
         strip  == ~merged /\ rest # <<>> /\ IsBlank(lines[rest[1]])
         body   == IF strip THEN Tail(rest) ELSE rest
         na     == ArgsOf(decl, first)
     IN res' = IF Unmodelled(block)              \* the option values are outside the model; the partition is not
               THEN [st |-> "outside", body |-> body, merged |-> merged, off |-> IF merged THEN 0 ELSE IF strip THEN off0 + 1 ELSE off0,
                     argerr |-> (na = ArgErr)]
               ELSE IF na = ArgErr THEN [st |-> "markup"]
               ELSE [st |-> "ok", args |-> na,
                     opts |-> {opts[n] : n \in 1..Len(opts)},
                     body |-> body, merged |-> merged,
                     off |-> IF merged THEN 0 ELSE IF strip THEN off0 + 1 ELSE off0,
                     w_opt |-> nwarn,
                     w_split |-> (merged /\ HasBlock(lines, decl) /\ \E n \in 1..Len(rest) : ~IsBlank(lines[rest[n]])),
                     w_content |-> ((merged \/ body # <<>>) /\ ~decl.content)]
  /\ pc' = "done"
  /\ UNCHANGED <<lines, decl, first, addl, style, p, block, pairs, tokerr, todo, opts, nwarn, unknown>>

Next == DetectStyle \/ TakeBlock \/ Tokenize \/ ValidateOne \/ ValidateEnd \/ Assemble
Spec == Init /\ [][Next]_vars /\ WF_vars(Next)
Done == pc = "done"

(* ------------------------------------------------------------------ S -------------- *)
(* declarative: the option lines are a prefix of the content *)
SOptEnd == CASE ~decl.spec \/ lines = <<>> -> 0
             [] Kind(lines[1]) = "d" ->
                  (IF \E k \in 2..N : Kind(lines[k]) = "d"
                   THEN CHOOSE k \in 2..N : Kind(lines[k]) = "d" /\ \A j \in 2..(k - 1) : Kind(lines[j]) # "d"
                   ELSE N)
             [] ColonLine(lines[1]) ->
                  (CHOOSE k \in 1..N : (\A j \in 1..k : ColonLine(lines[j])) /\ (k = N \/ ~ColonLine(lines[k + 1])))
             [] OTHER -> 0
SMerged == decl.req + decl.opt = 0 /\ first > 0
Partition == (Done /\ res.st = "ok") =>
  LET q == SOptEnd
      lead == ~SMerged /\ q < N /\ IsBlank(lines[q + 1])
      start == IF lead THEN q + 2 ELSE q + 1
  IN /\ res.body = [k \in 1..(N - start + 1) |-> start + k - 1]      \* exactly the lines that follow
     /\ res.off = (IF SMerged THEN 0 ELSE start - 1)                  \* index of the first body line
(* options: exactly the valid known options of the block (last spelling of a key wins),   *)
(* block before additional; one warning per invalid value, one for all unknown keys       *)
SBlockLines == LET q == SOptEnd IN
               IF q = 0 THEN <<>>
               ELSE IF Kind(lines[1]) = "d" THEN SubSeq(lines, 2, IF q > 1 /\ Kind(lines[q]) = "d" THEN q - 1 ELSE q)
               ELSE SubSeq(lines, 1, q)
SBlockBad == \E k \in 1..Len(SBlockLines) : Kind(SBlockLines[k]) = "t"
Options == (Done /\ res.st = "ok") =>
  IF ~decl.spec THEN res.opts = {} /\ res.w_opt = 0
  ELSE IF SBlockBad THEN res.opts = {} /\ res.w_opt = 1
  ELSE LET eff == Merge(DictOf(addl), DictOf(PairsOf(SBlockLines))) IN
       /\ res.opts = {<<k, Conv(k, eff[k])>> : k \in {k \in DOMAIN eff : k \in Known /\ ValidVal(k, eff[k])}}
       /\ res.w_opt = Cardinality({k \in DOMAIN eff : k \in Known /\ ~ValidVal(k, eff[k])})
                      + (IF \E k \in DOMAIN eff : k \notin Known THEN 1 ELSE 0)
Arguments == (Done /\ res.st # "outside") =>
  /\ (res.st = "markup") = (decl.req + decl.opt > 0 /\ (first < decl.req \/ (first > decl.req + decl.opt /\ ~decl.faw)))
  /\ (res.st = "ok" /\ decl.req + decl.opt > 0 => res.args = (IF first > decl.req + decl.opt THEN decl.req + decl.opt ELSE first))
  /\ (res.st = "ok" /\ decl.req + decl.opt = 0 => res.args = 0)
Terminates == <>Done

(* the whole run as an operator, for the style-interchangeability statement *)
OpRun(L, d, f, ad) ==
  LET s == StyleOf(L, d)
      q == Consumed(L, d)
      B == BlockOf(L, d)
      bad == TokErr(B)
      eff == IF ~d.spec \/ bad THEN <<>> ELSE Merge(DictOf(ad), DictOf(PairsOf(B)))
      merged == d.req + d.opt = 0 /\ f > 0
      rest == SubSeq(L, q + 1, Len(L))
      strip == ~merged /\ rest # <<>> /\ IsBlank(rest[1])
  IN [opts |-> IF ~d.spec \/ bad THEN {} ELSE {<<k, Conv(k, eff[k])>> : k \in {k \in DOMAIN eff : k \in Known /\ ValidVal(k, eff[k])}},
      body |-> IF strip THEN Tail(rest) ELSE rest,
      off |-> IF merged THEN 0 ELSE IF strip THEN q + 1 ELSE q]
(* the colon block rewritten in the --- style *)
Dashify(L) == LET q == LeadColon(L, 1) IN <<<<"d">>>> \o SubSeq(L, 1, q) \o <<<<"d">>>> \o SubSeq(L, q + 1, Len(L))
Interchangeable ==
  (Done /\ res.st = "ok" /\ style = "colon") =>
    LET o == OpRun(Dashify(lines), decl, first, addl) IN
    /\ o.opts = res.opts
    /\ [k \in 1..Len(res.body) |-> lines[res.body[k]]] = o.body
    /\ (~res.merged => o.off = res.off + 2)

Emit == Done => PrintT(ToJson([lines |-> lines, decl |-> decl, first |-> first, addl |-> addl, res |-> res]))
=============================================================================
