----------------------------- MODULE SessionTrace -----------------------------
(* V leg of C15: recorded histories of parses in one process.  {id, hist: kinds, abs: the      *)
(* channel-observing part of each output ("ok" when the kind observes nothing), same: for each  *)
(* parse, is the whole output (doctree + warnings) identical to the fresh-process output}.      *)
(* M's Parse runs on the logged history; the verdict is S on the observation (every output      *)
(* equals the fresh one) and agreement of the observed channel values with M.                   *)
EXTENDS Session, IOUtils

Traces == ndJsonDeserialize(IOEnv.TRACE_FILE)
VARIABLE tid
tvars == <<vars, tid>>
T == Traces[tid]
TraceInit == /\ tid \in 1..Len(Traces) /\ ps = PS0 /\ outs = <<>> /\ pc = "run"
             /\ hist = Traces[tid].hist /\ assign = <<>> /\ order = <<>> /\ wstate = <<>> /\ merged = {}
TraceNext == (Parse \/ EndHist) /\ UNCHANGED tid
TraceSpec == TraceInit /\ [][TraceNext]_tvars
Verdict == Done => PrintT(ToJson([id |-> T.id,
                                  differs |-> {n \in 1..Len(hist) : ~T.same[n]},
                                  channel |-> {n \in 1..Len(hist) : T.abs[n] # "ok" /\ T.abs[n] # outs[n]}]))
=============================================================================
