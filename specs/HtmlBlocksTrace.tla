----------------------------- MODULE HtmlBlocksTrace -----------------------------
(* V leg of C17: recorded renders of grammar-generated HTML blocks.  {id, elems: top-level   *)
(* element kinds of the block, fimg, fadm, obs: kinds of the nodes produced ("raw" only if    *)
(* its text is exactly the source text, else "raw-altered")}.  M's Classify runs on the        *)
(* logged block; the verdict compares.                                                         *)
EXTENDS HtmlBlocks, IOUtils

Traces == ndJsonDeserialize(IOEnv.TRACE_FILE)
VARIABLE tid
tvars == <<vars, tid>>
T == Traces[tid]
TraceInit == /\ tid \in 1..Len(Traces) /\ pc = "start" /\ out = <<>>
             /\ elems = Traces[tid].elems /\ fimg = Traces[tid].fimg /\ fadm = Traces[tid].fadm /\ val = <<>>
TraceNext == Classify /\ UNCHANGED tid
TraceSpec == TraceInit /\ [][TraceNext]_tvars
Verdict == Done => PrintT(ToJson([id |-> T.id, ok |-> (T.obs = out), exp |-> out]))
=============================================================================
