----------------------------- MODULE RenderTrace -----------------------------
(* V leg of C02/C03: recorded parses.  {id, ev: token events (from markdown-it's own token    *)
(* stream), obs: {nodes: [{k,t,a}], par: [...]}, ids: [{k, ids, refid, backrefs, warned}]}   *)
(* obs = projection of the doctree returned by the parser (pre-transform), obsw = the same    *)
(* with system messages kept as leaves, obs2 = after the (with system messages)                *)
(* transform pipeline, ids = id/refid bookkeeping of the doctree after the transforms.        *)
(* M's Step consumes the events; the verdict compares trees and evaluates S's C03 clauses     *)
(* on the observation itself.                                                                 *)
EXTENDS Render, IOUtils

Traces == ndJsonDeserialize(IOEnv.TRACE_FILE)
VARIABLE tid
tvars == <<vars, tid>>
T == Traces[tid]

TraceInit == /\ tid \in 1..Len(Traces)
             /\ phase = "render" /\ ev = Traces[tid].ev /\ gstack = <<>> /\ items = 0 /\ lastleaf = "" /\ RInit
TraceNext == (Step \/ Finish) /\ UNCHANGED tid
TraceSpec == TraceInit /\ [][TraceNext]_tvars

ON == T.obs.nodes
OP == T.obs.par
(* S's C03 clauses on an observed tree (NN: nodes, PP: parent indices) *)
WellFormed(NN, PP, post) ==
  LET KK(id) == IF id = 0 THEN "document" ELSE NN[id].k
      Kids(p) == SelectSeq([j \in 1..Len(PP) |-> j], LAMBDA j : PP[j] = p)
  IN /\ Len(NN) = Len(PP) /\ \A j \in 1..Len(PP) : PP[j] < j                               \* one parent, document order
     /\ T.dups = 0                                                                           \* no node object occurs twice
     /\ \A j \in 1..Len(NN) : NN[j].k = "section" =>
          /\ KK(PP[j]) \in {"document", "section"}
          /\ Kids(j) # <<>> /\ NN[Kids(j)[1]].k = "title"
     /\ \A j \in 1..Len(NN) : NN[j].k = "transition" => KK(PP[j]) \in {"document", "section"}
     /\ \A j \in 1..Len(NN) : NN[j].k = "row" => ToString(Len(Kids(j))) = NN[PP[PP[j]]].a
     /\ \A j \in 1..Len(NN) : NN[j].k = "footnote" => (post => (Kids(j) # <<>> /\ NN[Kids(j)[1]].k = "label"))
(* the well-formedness view keeps the system messages as leaves (a section must START with its title) *)
ObsWellFormed == IF "obsw" \in DOMAIN T THEN WellFormed(T.obsw.nodes, T.obsw.par, FALSE) ELSE WellFormed(ON, OP, FALSE)
AllIds == UNION {{T.ids[n].ids[m] : m \in 1..Len(T.ids[n].ids)} : n \in 1..Len(T.ids)}
IdsOK ==
  /\ \A a, b \in 1..Len(T.ids) : a # b => \A m \in 1..Len(T.ids[a].ids) : \A q \in 1..Len(T.ids[b].ids) : T.ids[a].ids[m] # T.ids[b].ids[q]
  /\ \A n \in 1..Len(T.ids) : (T.ids[n].refid # "" /\ ~T.ids[n].warned) => T.ids[n].refid \in AllIds
  /\ \A n \in 1..Len(T.ids) : \A m \in 1..Len(T.ids[n].backrefs) : T.ids[n].backrefs[m] \in AllIds
FirstDiff == LET D == {j \in 1..(IF Len(nodes) > Len(ON) THEN Len(nodes) ELSE Len(ON)) :
                         j > Len(nodes) \/ j > Len(ON) \/ nodes[j] # ON[j] \/ par[j] # OP[j]}
             IN IF D = {} THEN 0 ELSE CHOOSE j \in D : \A m \in D : j <= m
Verdict == Done => PrintT(ToJson([id |-> T.id, tree |-> (T.c03only \/ (nodes = ON /\ par = OP)), wf |-> ObsWellFormed,
                                  wf2 |-> WellFormed(T.obs2.nodes, T.obs2.par, TRUE), ids |-> IdsOK,
                                  firstdiff |-> FirstDiff,
                                  exp |-> IF FirstDiff = 0 \/ FirstDiff > Len(nodes) THEN <<>> ELSE <<nodes[FirstDiff], par[FirstDiff]>>]))
=============================================================================
