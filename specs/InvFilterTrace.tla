----------------------------- MODULE InvFilterTrace -----------------------------
(* V leg of C19 (filtering): recorded calls list(filter_inventories(...)) on generated *)
(* inventories, validated by M's FilterStep/FilterDone and S's Expected.               *)
(* TRACE_FILE: ndjson of {id, inv: [[inv,dom,typ,name]...], flt: [p1..p4], out: [k..]} *)
EXTENDS InvFilter, IOUtils

Traces == ndJsonDeserialize(IOEnv.TRACE_FILE)
VARIABLE tid
tvars == <<vars, tid>>
T == Traces[tid]

TraceInit == /\ tid \in 1..Len(Traces)
             /\ inv = Traces[tid].inv /\ flt = Traces[tid].flt
             /\ pos = 1 /\ out = <<>> /\ phase = "filter"
TraceNext == (FilterStep \/ FilterDone) /\ UNCHANGED tid
TraceSpec == TraceInit /\ [][TraceNext]_tvars

Verdict == phase = "done" =>
  PrintT(ToJson([id |-> T.id, m |-> (out = T.out), s |-> (Expected = T.out),
                 warn |-> LinkWarn(out), first |-> LinkMatch(out)]))
=============================================================================
