----------------------------- MODULE ConfigTrace -----------------------------
(* V leg of C13: recorded sequences of merge_file_level / parse calls on one global         *)
(* configuration object.  {id, docs: [{upd: [[field, value]], eff: {field: value},           *)
(* warns: n, G: {field: value}}]} -- values in the abstract <<form, id>> spelling, projected  *)
(* from the real objects.  M's actions consume the documents; S's rules are invariants of    *)
(* the same run; the verdict compares the effective configuration, the warning count and     *)
(* the global object after every document.                                                   *)
EXTENDS Config, IOUtils

Traces == ndJsonDeserialize(IOEnv.TRACE_FILE)
VARIABLES tid, seen     \* seen: per finished document, did the observation agree
tvars == <<vars, tid, seen>>
T == Traces[tid]

ObsOf(d) == IF "obs" \in DOMAIN d THEN {d.obs[i] : i \in 1..Len(d.obs)} ELSE Fields   \* fields whose effect was observed
TraceInit == /\ tid \in 1..Len(Traces) /\ Init /\ seen = <<>>
TStart == /\ Len(hist) < Len(T.docs) /\ pc = "idle"
          /\ LET d == T.docs[Len(hist) + 1] IN
             IF WithRender THEN StartDoc(d.upd, d.fm, d.fig) ELSE StartParse(d.upd)
          /\ UNCHANGED <<tid, seen>>
TEnd == /\ (EndParse \/ EndRender)
        /\ LET d == T.docs[Len(hist)] IN
           seen' = Append(seen, [eff |-> \A f \in ObsOf(d) : d.eff[f] = new[f],
                                 warns |-> d.warns = warns,
                                 global |-> \A f \in Fields : d.G[f] = G[f]])
        /\ UNCHANGED tid
TraceNext == \/ TStart
             \/ ((ValidateUpdate \/ Assign \/ Normalise \/ (WithRender /\ EndMerge) \/ FigAdd \/ FigRestore) /\ UNCHANGED <<tid, seen>>)
             \/ TEnd
TraceSpec == TraceInit /\ [][TraceNext]_tvars

Finished2 == pc = "idle" /\ Len(hist) = Len(T.docs)
Verdict == Finished2 => PrintT(ToJson([id |-> T.id, seen |-> seen]))
=============================================================================
