----------------------------- MODULE DirSplitTrace -----------------------------
(* V leg of C08: recorded calls parse_directive_text(cls, first_line, content, ...) on the *)
(* directive classes of the docutils / Sphinx registries.  Each class is abstracted to its  *)
(* declaration record, each content line to its abstract kind (option lines through the     *)
(* roles a / b / f / u of DirSplit's option_spec, decided by calling the class's own        *)
(* converter).  {id, lines, decl, first, addl, obs}.  M's actions run on the logged input;  *)
(* S (Partition, Options, Arguments, Interchangeable) is checked by TLC as invariants of    *)
(* the same run; the verdict compares M's result with the observation field by field.      *)
EXTENDS DirSplit, IOUtils

Traces == ndJsonDeserialize(IOEnv.TRACE_FILE)
VARIABLE tid
tvars == <<vars, tid>>
T == Traces[tid]

TraceInit == /\ tid \in 1..Len(Traces)
             /\ lines = Traces[tid].lines /\ decl = Traces[tid].decl
             /\ first = Traces[tid].first /\ addl = Traces[tid].addl
             /\ pc = "detect" /\ style = "none" /\ p = 0 /\ block = <<>>
             /\ pairs = <<>> /\ tokerr = FALSE /\ todo = <<>> /\ opts = <<>> /\ nwarn = 0 /\ unknown = FALSE
             /\ res = [st |-> "run"]
TraceNext == Next /\ UNCHANGED tid
TraceSpec == TraceInit /\ [][TraceNext]_tvars

O == T.obs
SetOf(s) == {s[n] : n \in 1..Len(s)}
Bad == IF res.st = "outside" THEN {}
       ELSE IF res.st # O.st THEN {"status"}
       ELSE IF res.st = "markup" THEN {}
       ELSE (IF res.args # O.args THEN {"arguments"} ELSE {})
            \cup (IF res.opts # SetOf(O.opts) THEN {"options"} ELSE {})
            \cup (IF res.body # O.body THEN {"body"} ELSE {})
            \cup (IF res.off # O.off THEN {"body_offset"} ELSE {})
            \cup (IF res.w_opt # O.w_opt THEN {"option warnings"} ELSE {})
            \cup (IF (IF res.w_split THEN 1 ELSE 0) + (IF res.w_content THEN 1 ELSE 0) # O.w_parse THEN {"parsing warnings"} ELSE {})
Verdict == Done => PrintT(ToJson([id |-> T.id, bad |-> Bad, exp |-> res]))
=============================================================================
