----------------------------- MODULE OptTokTrace -----------------------------
(* V leg of C07: recorded calls options_to_items(text, lo, co) -> pairs | TokenizeError |  *)
(* other exception.  {id, t: [code points], lo, co, st: "ok"|"err"|"raise",               *)
(* r: [[key, value]], e: [index, line, column]}.  M's own actions (Key, Colon, Value,     *)
(* Finish) are run on the logged text; the verdict says whether the logged result is      *)
(* M's result (m) and whether it is admissible for texts outside the subset (cls:         *)
(* pairs, or the documented error with a mark inside the text).                           *)
EXTENDS OptTok, IOUtils

Traces == ndJsonDeserialize(IOEnv.TRACE_FILE)
VARIABLE tid
tvars == <<vars, tid>>
T == Traces[tid]

TraceInit == /\ tid \in 1..Len(Traces)
             /\ text = Buf(Traces[tid].t)
             /\ i = 1 /\ phase = "key" /\ items = <<>> /\ pkey = <<>> /\ st = "run" /\ err = 0 /\ hc = FALSE
TraceNext == Next /\ UNCHANGED tid
TraceSpec == TraceInit /\ [][TraceNext]_tvars

ExpErr == <<err - 1, Line(b, err) + T.lo, Col(b, err) + T.co>>
MarkInside == /\ T.e[1] \in 0..(Len(text) - 1)
              /\ T.e[2] - T.lo \in 0..Line(b, Len(b))
              /\ T.e[3] - T.co \in 0..(Len(text) - 1)
Verdict == Done =>
  PrintT(ToJson([id |-> T.id, mst |-> st,
                 m |-> (T.st = st /\ (st = "ok" => T.r = Result) /\ (st = "err" => T.e = ExpErr)),
                 mr |-> IF st = "ok" THEN Result ELSE <<>>,
                 cls |-> (T.st = "ok" \/ (T.st = "err" /\ MarkInside))]))
=============================================================================
