----------------------------- MODULE Security -----------------------------
(* C20 -- docutils security settings (raw_enabled, file_insertion_enabled) are honoured.    *)
(* A document is a sequence of constructs <<kind, wrapper>>, each followed by a marker      *)
(* paragraph.  Kinds:                                                                        *)
(*   raw carriers  "html_block" "html_inline" "raw_dir" "evalrst_raw" "evalrst_rawrole"      *)
(*                 "hardbreak" "strike"                                                      *)
(*   file carriers "include" "include_literal" "include_code" "include_angle"                *)
(*                 "evalrst_include" "csv_file"                                              *)
(*   both          "raw_file"   (raw directive with :file:)                                  *)
(* M: render actions (what each construct appends to the tree, with the checks that live in  *)
(* the construct itself: docutils' raw role/directive and include/csv-table test the         *)
(* settings, MockIncludeDirective has its own gate), then the single PostFilter pass of      *)
(* Parser.parse that replaces every raw node left in the tree.                               *)
EXTENDS Naturals, Sequences, FiniteSets, TLC, Json

CONSTANTS Kinds, Wrappers, MaxLen,
          DevFilterSkips,       \* a seeded change: removing a node while iterating skips the next sibling
          DevAngleNoGate,       \* a seeded change: the include gate is skipped for <...> paths
          DevFilterLastSection  \* a seeded change: the post-filter starts at the renderer's current node (the last section)

RawRender == {"html_block", "html_inline", "hardbreak", "strike", "html_cblock", "task_html"}   \* the renderer itself emits raw nodes (html_cblock: an HTML block that starts and ends with a comment)
Inert == {"evalrst_mdsub"}         \* a MyST substitution (whose value is HTML) referenced as |key| from rST: not defined there: nothing of it reaches the tree
RawSelf == {"raw_dir", "evalrst_raw", "evalrst_rawrole"}                   \* docutils' own code checks raw_enabled
FileMock == {"include", "include_literal", "include_code", "include_angle"} \* MockIncludeDirective.run
FileSelf == {"evalrst_include", "csv_file"}                                 \* docutils' own code checks file_insertion_enabled
Docs == UNION {[1..n -> (Kinds \X Wrappers)] : n \in 0..MaxLen}

VARIABLES doc, rawOn, fileOn,
          pos, tree,          \* tree: Seq of [k: "raw"|"warn"|"ins"|"marker", c: construct index]
          reads,              \* construct indices whose file was opened
          pc
vars == <<doc, rawOn, fileOn, pos, tree, reads, pc>>

Init == /\ doc \in Docs /\ rawOn \in BOOLEAN /\ fileOn \in BOOLEAN
        /\ pos = 1 /\ tree = <<>> /\ reads = {} /\ pc = "render"

Node(k, c) == [k |-> k, c |-> c]
NRaw(kind) == IF kind = "hardbreak" THEN 2 ELSE 1           \* a hard break is an html + a latex raw node
Rep(n, x) == [j \in 1..n |-> x]

Render ==
  /\ pc = "render" /\ pos <= Len(doc)
  /\ LET kind == doc[pos][1]
         out == CASE kind \in RawRender -> Rep(NRaw(kind), Node("raw", pos))
                  [] kind \in RawSelf -> IF rawOn THEN <<Node("raw", pos)>> ELSE <<Node("warn", pos)>>
                  [] kind \in FileMock ->
                       IF fileOn \/ (DevAngleNoGate /\ kind = "include_angle") THEN <<Node("ins", pos)>> ELSE <<Node("warn", pos)>>
                  [] kind \in FileSelf -> IF fileOn THEN <<Node("ins", pos)>> ELSE <<Node("warn", pos)>>
                  [] kind \in Inert -> <<>>             \* (docutils reports the undefined substitution in its own section at the end)
                  [] kind = "raw_file" -> IF ~rawOn THEN <<Node("warn", pos)>>
                                          ELSE IF ~fileOn THEN <<Node("warn", pos)>> ELSE <<Node("raw", pos)>>
         \* wrapper "sec": the construct sits in a section of its own that is followed by another section
         body == out \o <<Node("marker", pos)>>
     IN /\ tree' = tree \o (IF doc[pos][2] = "sec" THEN <<Node("heading", pos)>> \o body \o <<Node("heading", pos)>> ELSE body)
        /\ reads' = IF \/ (kind \in FileMock \cup FileSelf /\ (fileOn \/ (DevAngleNoGate /\ kind = "include_angle")))
                       \/ (kind = "raw_file" /\ rawOn /\ fileOn)
                    THEN reads \cup {pos} ELSE reads
  /\ pos' = pos + 1 /\ UNCHANGED <<doc, rawOn, fileOn, pc>>
RenderEnd == /\ pc = "render" /\ pos > Len(doc) /\ pc' = "filter" /\ UNCHANGED <<doc, rawOn, fileOn, pos, tree, reads>>

(* Parser.parse: for node in document.traverse(raw): replace by a warning (one pass)        *)
RECURSIVE FilterFrom(_)
FilterFrom(t) == IF t = <<>> THEN <<>>
                 ELSE (IF Head(t).k = "raw" THEN <<Node("warn", Head(t).c)>> ELSE <<Head(t)>>) \o FilterFrom(Tail(t))
(* the seeded variant: after two adjacent raw nodes the following raw sibling is skipped *)
RECURSIVE FilterSkippy(_, _)
FilterSkippy(t, run) ==
  IF t = <<>> THEN <<>>
  ELSE IF Head(t).k = "raw"
       THEN IF run >= 2 THEN <<Head(t)>> \o FilterSkippy(Tail(t), 0)
            ELSE <<Node("warn", Head(t).c)>> \o FilterSkippy(Tail(t), run + 1)
       ELSE <<Head(t)>> \o FilterSkippy(Tail(t), IF Head(t).k = "marker" THEN run ELSE 0)
(* the part of the tree below the last heading: what a sweep starting at current_node would see *)
LastHeading == LET H == {n \in 1..Len(tree) : tree[n].k = "heading"} IN IF H = {} THEN 0 ELSE CHOOSE n \in H : \A m \in H : m <= n
PostFilter == /\ pc = "filter"
              /\ tree' = IF rawOn THEN tree ELSE IF DevFilterSkips THEN FilterSkippy(tree, 0)
                         ELSE IF DevFilterLastSection THEN SubSeq(tree, 1, LastHeading) \o FilterFrom(SubSeq(tree, LastHeading + 1, Len(tree)))
                         ELSE FilterFrom(tree)
              /\ pc' = "done" /\ UNCHANGED <<doc, rawOn, fileOn, pos, reads>>

Next == Render \/ RenderEnd \/ PostFilter
Spec == Init /\ [][Next]_vars /\ WF_vars(Next)
Done == pc = "done"

(************************************ S ************************************************)
Items(k) == {n \in 1..Len(tree) : tree[n].k = k}
CarriesRaw(kind) == kind \in RawRender \cup RawSelf \cup {"raw_file"}
CarriesFile(kind) == kind \in FileMock \cup FileSelf \cup {"raw_file"}
NoRawWhenDisabled == (Done /\ ~rawOn) => Items("raw") = {}
NoFileWhenDisabled == (Done /\ ~fileOn) => reads = {} /\ Items("ins") = {}
(* each refusal is reported: a construct that was refused has at least one warning of its own *)
Refused(c) == LET kind == doc[c][1] IN
              \/ (CarriesRaw(kind) /\ ~rawOn)
              \/ (CarriesFile(kind) /\ ~fileOn)
RefusalsWarn == Done => \A c \in 1..Len(doc) : Refused(c) => \E n \in Items("warn") : tree[n].c = c
(* the rest of the document is processed normally: every marker survives, in order *)
MarkersKept == Done => [n \in 1..Len(SelectSeq(tree, LAMBDA x : x.k = "marker")) |-> SelectSeq(tree, LAMBDA x : x.k = "marker")[n].c]
                         = [c \in 1..Len(doc) |-> c]
(* nothing is refused when the settings allow it *)
AllowedPass == Done => \A c \in 1..Len(doc) : (~Refused(c) /\ doc[c][1] \notin Inert) =>
                 (\E n \in 1..Len(tree) : tree[n].c = c /\ tree[n].k \in {"raw", "ins"})
Terminates == <>Done

Emit == Done => PrintT(ToJson([doc |-> doc, rawOn |-> rawOn, fileOn |-> fileOn,
                               per |-> [c \in 1..Len(doc) |->
                                         [raw |-> Cardinality({n \in Items("raw") : tree[n].c = c}),
                                          ins |-> Cardinality({n \in Items("ins") : tree[n].c = c}),
                                          warn |-> Cardinality({n \in Items("warn") : tree[n].c = c}),
                                          read |-> c \in reads]]]))
=============================================================================
