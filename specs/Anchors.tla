----------------------------- MODULE Anchors -----------------------------
(* C09 + C10 -- heading anchors (GitHub slug rule, uniqueness suffix, depth) and the       *)
(* resolution of local '#name' links (explicit targets first, then heading slugs, else a    *)
(* warning).                                                                                *)
(* A document is a sequence of items                                                        *)
(*   <<"h", title, level>>   heading (title = sequence of code points)                      *)
(*   <<"t", name, follow>>   '(name)=' block target (name = sequence of code points);        *)
(*                           follow = "next": the next item (or a plain paragraph) follows,  *)
(*                           "quote": a block quote holding a titled admonition follows      *)
(*   <<"f", label, "note">>  a paragraph with the footnote reference [^label] and its          *)
(*                           definition: a docutils name, but NOT a target of '#label' links   *)
(* followed by a fixed block of links <<name, form>>                                        *)
(* (form "text" | "empty" | "auto" = <project:#name>).                                      *)
(* M: render phase, one action per item (Heading: generate_heading_target with              *)
(* compute_unique_slug over the insertion-ordered _heading_slugs; Target:                   *)
(* note_explicit_target), then the ResolveAnchorIds transform, one action per link.         *)
(* S: the declarative slug rule / resolution rule, evaluated on M's result.                 *)
EXTENDS Naturals, Sequences, FiniteSets, TLC, Json

CONSTANTS ItemVocab, MaxItems, Depths, Links,
          SlugFn,             \* "default" | "reverse" (a custom heading_slug_func) | "raise" (one that fails)
          DevCompoundSuffix,  \* as-built before the fix: suffix appended to the previous candidate
          DevCaseSensitive,   \* as-built before the fix: explicit names looked up verbatim
          DevNoStrip          \* as-built (open finding, pinned by a repository test): the renderer does not
                              \* strip the title before slugifying, myst-anchors does

(* ------------------------------------------------------------------ Slugify ---------- *)
(* default_slugify: lower(), ' ' -> '-', remove everything but \w, CJK, '-'                *)
Lower(c) == IF c \in 65..90 THEN <<c + 32>>
            ELSE IF c \in (192..222) \ {215} THEN <<c + 32>>          \* Latin-1 capitals
            ELSE IF c = 304 THEN <<105, 775>>                          \* 'İ'.lower() is two code points
            ELSE <<c>>
IsWord(c) == \/ c \in 48..57 \/ c \in 65..90 \/ c \in 97..122 \/ c = 95
             \/ c \in (192..255) \ {215, 247}                          \* Latin-1 letters
             \/ c \in 19968..40959                                      \* CJK unified ideographs
             \/ c \in {945, 955, 1078}                                  \* a few more letters (alpha, lambda, zhe)
Keep(c) == IsWord(c) \/ c = 45
RECURSIVE LowerAll(_), Clean(_)
LowerAll(s) == IF s = <<>> THEN <<>> ELSE Lower(Head(s)) \o LowerAll(Tail(s))
Clean(s) == IF s = <<>> THEN <<>>
            ELSE LET c == IF Head(s) = 32 THEN 45 ELSE Head(s) IN
                 (IF Keep(c) THEN <<c>> ELSE <<>>) \o Clean(Tail(s))
RECURSIVE Reverse(_)
Reverse(s) == IF s = <<>> THEN <<>> ELSE Append(Reverse(Tail(s)), Head(s))
(* str.strip(): leading and trailing white space *)
White == {9, 10, 11, 12, 13, 32, 133, 160}
RECURSIVE LStrip(_)
LStrip(s) == IF s # <<>> /\ Head(s) \in White THEN LStrip(Tail(s)) ELSE s
Strip(s) == Reverse(LStrip(Reverse(LStrip(s))))
(* the title text handed to the slug function: the content of the text and inline-code tokens; the line *)
(* breaks of a setext heading written over several lines are not part of it                           *)
TitleText(t) == SelectSeq(t, LAMBDA c : c # 10)
Slugify(t) == IF SlugFn = "reverse" THEN Reverse(TitleText(t))
              ELSE Clean(LowerAll(IF DevNoStrip THEN TitleText(t) ELSE Strip(TitleText(t))))

(* decimal digits of k >= 1 *)
RECURSIVE Digits(_)
Digits(k) == IF k < 10 THEN <<48 + k>> ELSE Digits(k \div 10) \o <<48 + (k % 10)>>
Suffixed(b, k) == b \o <<45>> \o Digits(k)

(* S: Unique(b, U) = b if b \notin U, else b-k for the least k >= 1 with b-k \notin U *)
Unique(b, U) == IF b \notin U THEN b
                ELSE Suffixed(b, CHOOSE k \in 1..(Cardinality(U) + 1) :
                                   /\ Suffixed(b, k) \notin U
                                   /\ \A j \in 1..(k - 1) : Suffixed(b, j) \in U)

(* M: the loop of compute_unique_slug *)
RECURSIVE UniqLoop(_, _, _, _)
UniqLoop(base, cand, k, U) ==
  IF cand \notin U THEN cand
  ELSE UniqLoop(base, IF DevCompoundSuffix THEN Suffixed(cand, k) ELSE Suffixed(base, k), k + 1, U)

(* docutils fully_normalize_name on the names used here: lower-case *)
Norm(n) == LowerAll(n)

(* ------------------------------------------------------------------ M --------------- *)
Docs == UNION {[1..n -> ItemVocab] : n \in 0..MaxItems}

VARIABLES items, depth, links,
          pos,        \* next item
          slugs,      \* _heading_slugs: Seq of <<slug, item index>> (insertion ordered)
          explicit,   \* explicit target registry: Seq of <<normalised name, item index>>
          lpos,       \* next link
          res,        \* per link: <<"explicit", item>> | <<"slug", item>> | <<"missing">>
          nwarn       \* [myst.heading_slug] warnings
vars == <<items, depth, links, pos, slugs, explicit, lpos, res, nwarn>>

Init == /\ items \in Docs /\ depth \in Depths /\ links = Links
        /\ pos = 1 /\ slugs = <<>> /\ explicit = <<>> /\ lpos = 1 /\ res = <<>> /\ nwarn = 0

SlugSet == {slugs[j][1] : j \in 1..Len(slugs)}
Heading == /\ pos <= Len(items) /\ items[pos][1] = "h"
           /\ nwarn' = IF items[pos][3] <= depth /\ SlugFn = "raise" THEN nwarn + 1 ELSE nwarn
           /\ slugs' = IF items[pos][3] > depth \/ SlugFn = "raise" THEN slugs
                       ELSE Append(slugs, <<UniqLoop(Slugify(items[pos][2]), Slugify(items[pos][2]), 1, SlugSet), pos>>)
           /\ pos' = pos + 1 /\ UNCHANGED <<items, depth, links, explicit, lpos, res>>
Target == /\ pos <= Len(items) /\ items[pos][1] = "t"
          /\ explicit' = Append(explicit, <<Norm(items[pos][2]), pos>>)
          /\ pos' = pos + 1 /\ UNCHANGED <<items, depth, links, slugs, lpos, res, nwarn>>

Footnote == /\ pos <= Len(items) /\ items[pos][1] = "f"
            /\ pos' = pos + 1 /\ UNCHANGED <<items, depth, links, slugs, explicit, lpos, res, nwarn>>

LinkSeq == links    \* a sequence of <<name, form>>
Lookup(reg, n) == LET c == {j \in 1..Len(reg) : reg[j][1] = n} IN
                  IF c = {} THEN 0 ELSE reg[CHOOSE j \in c : \A i \in c : j <= i][2]
Resolve == /\ pos > Len(items) /\ lpos <= Len(LinkSeq)
           /\ LET n == LinkSeq[lpos][1]
                  e == IF DevCaseSensitive THEN Lookup(explicit, n)
                       ELSE IF Lookup(explicit, n) # 0 THEN Lookup(explicit, n) ELSE Lookup(explicit, Norm(n))
                  s == Lookup(slugs, n)
              IN res' = Append(res, IF e # 0 THEN <<"explicit", e>>
                                    ELSE IF s # 0 THEN <<"slug", s>> ELSE <<"missing">>)
           /\ lpos' = lpos + 1 /\ UNCHANGED <<items, depth, links, pos, slugs, explicit, nwarn>>

Next == Heading \/ Target \/ Footnote \/ Resolve
Spec == Init /\ [][Next]_vars /\ WF_vars(Next)
Done == pos > Len(items) /\ lpos > Len(LinkSeq)

(* ------------------------------------------------------------------ S --------------- *)
Anchored == {j \in 1..Len(items) : items[j][1] = "h" /\ items[j][3] <= depth}
HeadIdx == IF SlugFn = "raise" THEN {} ELSE Anchored
SlugWarnings == pos > Len(items) => nwarn = (IF SlugFn = "raise" THEN Cardinality(Anchored) ELSE 0)
(* the declarative slug of anchored heading j: a function of the earlier slugs *)
RECURSIVE DeclSlug(_)
DeclSlug(j) == Unique(Slugify(items[j][2]), {DeclSlug(i) : i \in {i \in HeadIdx : i < j}})
SlugRule == \A n \in 1..Len(slugs) : slugs[n][1] = DeclSlug(slugs[n][2])
SlugsUnique == \A a, b \in 1..Len(slugs) : a # b => slugs[a][1] # slugs[b][1]
DepthRule == pos > Len(items) => {slugs[n][2] : n \in 1..Len(slugs)} = HeadIdx
(* explicit targets first, then slugs, else missing; never a different target *)
TargetIdx(n) == {j \in 1..Len(items) : items[j][1] = "t" /\ Norm(items[j][2]) = Norm(n)}
NoDupTargets == \A i, j \in 1..Len(items) : (i # j /\ items[i][1] \in {"t", "f"} /\ items[j][1] \in {"t", "f"}) => Norm(items[i][2]) # Norm(items[j][2])
(* for an empty link text: the item whose title fills it (a target directly followed by a   *)
(* heading takes that heading's title), 0 = none ("#name" is shown)                          *)
TitleOf(r) == IF r[1] = "slug" THEN r[2]
              ELSE IF r[1] = "explicit" /\ items[r[2]][3] = "next" /\ r[2] < Len(items) /\ items[r[2] + 1][1] = "h"
                   THEN r[2] + 1
              ELSE IF r[1] = "explicit" /\ items[r[2]][3] = "dirname" THEN r[2]      \* a named directive: its own title
              ELSE 0      \* a title nested deeper inside what follows is not the target's title
ResolveRule == \A l \in 1..Len(res) :
  LET n == LinkSeq[l][1] IN
  IF TargetIdx(n) # {} THEN res[l][1] = "explicit" /\ res[l][2] \in TargetIdx(n)
  ELSE IF \E j \in HeadIdx : DeclSlug(j) = n
       THEN res[l] = <<"slug", CHOOSE j \in HeadIdx : DeclSlug(j) = n>>
       ELSE res[l] = <<"missing">>
(* every anchor resolves to its own heading unless an explicit target has its name *)
SelfResolve == Done => \A n \in 1..Len(slugs) : \A l \in 1..Len(LinkSeq) :
                 (LinkSeq[l][1] = slugs[n][1] /\ TargetIdx(slugs[n][1]) = {}) => res[l] = <<"slug", slugs[n][2]>>
Terminates == <>Done

Emit == Done => PrintT(ToJson([items |-> items, depth |-> depth,
                               slugs |-> slugs, res |-> res, nwarn |-> nwarn,
                               title |-> [l \in 1..Len(res) |-> TitleOf(res[l])]]))
=============================================================================
