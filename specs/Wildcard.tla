----------------------------- MODULE Wildcard -----------------------------
(* C19 -- the documented wildcard semantics (S, in WildcardOps) next to the           *)
(* character-by-character translator of inventory._create_regex (M).                  *)
(* M: one action per loop iteration of _create_regex (state: position, the            *)
(*    backslash_last flag, the regex built so far as a token list), then Finish.      *)
EXTENDS WildcardOps, FiniteSets, TLC, Json

CONSTANTS Sigma,            \* alphabet (set of code points)
          MaxP, MaxN,       \* pattern / name length bounds
          DevDropTrailing   \* as-built deviation: a trailing backslash is dropped

Strs(n) == UNION {[1..k -> Sigma] : k \in 0..n}

VARIABLES pat,   \* the pattern being translated
          i,     \* next character (1-based)
          bs,    \* backslash_last
          re,    \* regex so far: sequence of <<"lit", c>> | <<"any">>
          done
vars == <<pat, i, bs, re, done>>

Init == /\ pat \in Strs(MaxP)
        /\ i = 1 /\ bs = FALSE /\ re = <<>> /\ done = FALSE

(* one iteration of `for char in pat` *)
Char == /\ ~done /\ i <= Len(pat)
        /\ LET s == StepChar(pat[i], bs, re) IN re' = s[1] /\ bs' = s[2]
        /\ i' = i + 1 /\ UNCHANGED <<pat, done>>

(* after the loop *)
Finish == /\ ~done /\ i > Len(pat)
          /\ re' = FinishRe(bs, re, DevDropTrailing)
          /\ bs' = FALSE /\ done' = TRUE /\ UNCHANGED <<pat, i>>

Next == Char \/ Finish
Spec == Init /\ [][Next]_vars /\ WF_vars(Next)

(***************************** T: M |= S **********************************************)
Names == Strs(MaxN)

TypeOK == i \in 1..(Len(pat) + 1) /\ bs \in BOOLEAN /\ done \in BOOLEAN

(* step invariant: the regex built so far (plus the pending backslash) matches        *)
(* exactly what the consumed prefix of the pattern matches                            *)
Pending == IF bs THEN Append(re, Lit(BS)) ELSE re
PrefixAgree == ~done => \A n \in Names : RMatch(Pending, n) = SMatch(SubSeq(pat, 1, i - 1), n)

Agree == done => \A n \in Names : RMatch(re, n) = SMatch(pat, n)

(* the operator form used by composing modules is the same function *)
OperatorForm == done => re = Translate(pat, DevDropTrailing)

Terminates == <>done

(***************************** R: behaviour export ************************************)
Emit == done => PrintT(ToJson([p |-> pat, m |-> {n \in Names : RMatch(re, n)}]))
=============================================================================
