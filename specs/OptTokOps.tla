----------------------------- MODULE OptTokOps -----------------------------
(* C07 -- the restricted-YAML option scanner of parsers/options.py as pure operators.   *)
(* Text is a sequence of code points; buf = text \o <<0>> (the "\0" sentinel of          *)
(* StreamBuffer).  Positions are 1-based indices into buf (python index = position - 1). *)
(* Every sub-scanner is a recursive operator that returns a record                        *)
(*   [i |-> position after the scan, v |-> characters produced, e |-> 0 | error position] *)
(* mirroring one _scan_* function; OptTok.tla steps them token by token.                  *)
(* This module is also used by DirSplit / HtmlBlocks (option blocks of directives).       *)
EXTENDS Naturals, Sequences

NUL == 0   TAB == 9   LF == 10   CR == 13   SP == 32   DQ == 34   HASH == 35   SQ == 39
PLUS == 43 MINUS == 45 COLON == 58 GT == 62  BSL == 92  BAR == 124
NEL == 133 LS == 8232 PS == 8233 BOM == 65279
MAXCP == 1114111   \* chr() accepts 0..0x10FFFF

Newline   == {CR, LF, NEL, LS, PS}
EndNl     == Newline \cup {NUL}
SpNl      == Newline \cup {SP}
EndSpNl   == Newline \cup {NUL, SP}
EndSpTabNl == Newline \cup {NUL, SP, TAB}
Digits    == 48..57
HexDigits == Digits \cup (65..70) \cup (97..102)

(* _ESCAPE_REPLACEMENTS: escape character -> produced code point *)
EscRepl == [c \in {48, 97, 98, 116, TAB, 110, 118, 102, 114, 101, SP, DQ, BSL, 47, 78, 95, 76, 80} |->
              CASE c = 48 -> 0 [] c = 97 -> 7 [] c = 98 -> 8 [] c = 116 -> 9 [] c = TAB -> 9
                [] c = 110 -> 10 [] c = 118 -> 11 [] c = 102 -> 12 [] c = 114 -> 13 [] c = 101 -> 27
                [] c = SP -> 32 [] c = DQ -> DQ [] c = BSL -> BSL [] c = 47 -> 47 [] c = 78 -> NEL
                [] c = 95 -> 160 [] c = 76 -> LS [] c = 80 -> PS]
EscLen(c) == IF c = 120 THEN 2 ELSE IF c = 117 THEN 4 ELSE IF c = 85 THEN 8 ELSE 0

HexVal(c) == IF c \in Digits THEN c - 48 ELSE IF c \in 65..70 THEN c - 55 ELSE c - 87

Buf(text) == text \o <<NUL>>

(* ---------------------------------------------------------------- positions ------- *)
(* StreamBuffer.forward(): a line break resets the column, "﻿" does not count     *)
IsBreakAt(b, j) == IF b[j] \in {LF, NEL, LS, PS} THEN TRUE
                   ELSE IF b[j] = CR THEN b[j + 1] # LF ELSE FALSE
RECURSIVE Col(_, _), Line(_, _)
Col(b, j) == IF j = 1 THEN 0
             ELSE IF IsBreakAt(b, j - 1) THEN 0
             ELSE Col(b, j - 1) + (IF b[j - 1] = BOM THEN 0 ELSE 1)
Line(b, j) == IF j = 1 THEN 0 ELSE Line(b, j - 1) + (IF IsBreakAt(b, j - 1) THEN 1 ELSE 0)

(* _scan_line_break *)
BreakLen(b, j) == IF b[j] = CR THEN (IF b[j + 1] = LF THEN 2 ELSE 1)
                  ELSE IF b[j] \in {LF, NEL, LS, PS} THEN 1 ELSE 0
BreakVal(b, j) == IF b[j] \in {CR, LF, NEL} THEN <<LF>>
                  ELSE IF b[j] \in {LS, PS} THEN <<b[j]>> ELSE <<>>

RECURSIVE SkipSp(_, _), SkipSpTab(_, _), ToEol(_, _), SkipWhile(_, _, _)
SkipSp(b, j)    == IF b[j] = SP THEN SkipSp(b, j + 1) ELSE j
SkipSpTab(b, j) == IF b[j] \in {SP, TAB} THEN SkipSpTab(b, j + 1) ELSE j
ToEol(b, j)     == IF b[j] \in EndNl THEN j ELSE ToEol(b, j + 1)
(* first position >= j whose character is in Stop (Stop always contains NUL) *)
SkipWhile(b, j, Stop) == IF b[j] \in Stop THEN j ELSE SkipWhile(b, j + 1, Stop)

(* ---------------------------------------------------------------- _scan_to_next_token *)
RECURSIVE ToNext0(_, _)
ToNext0(b, j) == LET a == SkipSp(b, j)
                     c == IF b[a] = HASH THEN ToEol(b, a) ELSE a
                 IN IF BreakLen(b, c) > 0 THEN ToNext0(b, c + BreakLen(b, c)) ELSE c
ToNext(b, j) == ToNext0(b, IF j = 1 /\ b[1] = BOM THEN 2 ELSE j)
(* does _scan_to_next_token from j pass over a comment? (State.has_comments) *)
RECURSIVE SeesComment0(_, _)
SeesComment0(b, j) == LET a == SkipSp(b, j)
                          c == IF b[a] = HASH THEN ToEol(b, a) ELSE a
                      IN IF b[a] = HASH THEN TRUE
                         ELSE IF BreakLen(b, c) > 0 THEN SeesComment0(b, c + BreakLen(b, c)) ELSE FALSE
SeesComment(b, j) == SeesComment0(b, IF j = 1 /\ b[1] = BOM THEN 2 ELSE j)

(* ---------------------------------------------------------------- plain scalars ---- *)
(* _scan_plain_spaces: [i, v] *)
RECURSIVE PlainBreaks(_, _, _)
PlainBreaks(b, j, acc) ==   \* while peek in " \r\n..." : skip spaces, collect breaks
  IF b[j] = SP THEN PlainBreaks(b, j + 1, acc)
  ELSE IF b[j] \in Newline THEN PlainBreaks(b, j + BreakLen(b, j), acc \o BreakVal(b, j))
  ELSE [i |-> j, v |-> acc]
PlainSpaces(b, j, allowNl) ==
  LET a == SkipSp(b, j) IN
  IF allowNl /\ b[a] \in Newline
  THEN LET lb == BreakVal(b, a)
           r  == PlainBreaks(b, a + BreakLen(b, a), <<>>)
       IN [i |-> r.i,
           v |-> (IF lb # <<LF>> THEN lb ELSE IF r.v = <<>> THEN <<SP>> ELSE <<>>) \o r.v]
  ELSE [i |-> a, v |-> SubSeq(b, j, a - 1)]

(* length of one plain chunk starting at j *)
RECURSIVE PlainChunkEnd(_, _, _)
PlainChunkEnd(b, j, isKey) ==
  IF b[j] \in EndSpTabNl THEN j
  ELSE IF isKey /\ b[j] = COLON /\ b[j + 1] \in EndSpTabNl THEN j
  ELSE PlainChunkEnd(b, j + 1, isKey)

(* _scan_plain_scalar: [i, v, c] (c: a comment was seen) *)
RECURSIVE PlainLoop(_, _, _, _, _)
PlainLoop(b, j, isKey, chunks, spaces) ==
  IF b[j] = HASH THEN [i |-> j, v |-> chunks, c |-> TRUE]
  ELSE LET e == PlainChunkEnd(b, j, isKey) IN
       IF e = j THEN [i |-> j, v |-> chunks, c |-> FALSE]
       ELSE LET ch == chunks \o spaces \o SubSeq(b, j, e - 1)
                sp == PlainSpaces(b, e, ~isKey)
                indent == IF isKey THEN 0 ELSE 1
            IN IF sp.v = <<>> \/ b[sp.i] = HASH \/ Col(b, sp.i) < indent
               THEN [i |-> sp.i, v |-> ch, c |-> b[sp.i] = HASH]
               ELSE PlainLoop(b, sp.i, isKey, ch, sp.v)
Plain(b, j, isKey) == PlainLoop(b, j, isKey, <<>>, <<>>)

(* ---------------------------------------------------------------- flow scalars ----- *)
RECURSIVE FlowBreaks(_, _, _)
FlowBreaks(b, j, acc) ==
  LET a == SkipSpTab(b, j) IN
  IF b[a] \in Newline THEN FlowBreaks(b, a + BreakLen(b, a), acc \o BreakVal(b, a))
  ELSE [i |-> a, v |-> acc]

(* hex escape of n digits at j: value capped at MAXCP + 1 (TLC integers are 32 bit) *)
RECURSIVE HexNum(_, _, _, _)
HexNum(b, j, n, acc) == IF n = 0 THEN acc
                        ELSE LET x == acc * 16 + HexVal(b[j]) IN
                             HexNum(b, j + 1, n - 1, IF x > MAXCP THEN MAXCP + 1 ELSE x)
RECURSIVE AllHex(_, _, _)
AllHex(b, j, n) == IF n = 0 THEN TRUE ELSE IF b[j] \in HexDigits THEN AllHex(b, j + 1, n - 1) ELSE FALSE

FlowStop == {SQ, DQ, BSL} \cup EndSpTabNl
(* _scan_flow_scalar_non_spaces: [i, v, e]; e = error position or 0.                     *)
(* overflow |-> what chr() does for a code above 0x10FFFF: "err" (TokenizeError at the   *)
(* escape, the design) or "raise" (the as-built OverflowError/ValueError, Dev switch)    *)
RECURSIVE FlowNonSpaces(_, _, _, _)
FlowNonSpaces(b, j, double, acc) ==
  LET e  == SkipWhile(b, j, FlowStop)
      a1 == acc \o SubSeq(b, j, e - 1)
      ch == b[e]
  IN IF ~double /\ ch = SQ /\ b[e + 1] = SQ THEN FlowNonSpaces(b, e + 2, double, Append(a1, SQ))
     ELSE IF (double /\ ch = SQ) \/ (~double /\ ch \in {DQ, BSL}) THEN FlowNonSpaces(b, e + 1, double, Append(a1, ch))
     ELSE IF double /\ ch = BSL
          THEN LET x == b[e + 1] IN
               IF x \in DOMAIN EscRepl THEN FlowNonSpaces(b, e + 2, double, Append(a1, EscRepl[x]))
               ELSE IF EscLen(x) > 0
                    THEN IF ~AllHex(b, e + 2, EscLen(x)) THEN [i |-> e + 2, v |-> a1, e |-> e + 2, of |-> FALSE]
                         ELSE LET code == HexNum(b, e + 2, EscLen(x), 0) IN
                              IF code > MAXCP THEN [i |-> e + 2, v |-> a1, e |-> e + 2, of |-> TRUE]
                              ELSE FlowNonSpaces(b, e + 2 + EscLen(x), double, Append(a1, code))
               ELSE IF x \in Newline
                    THEN LET r == FlowBreaks(b, e + 1 + BreakLen(b, e + 1), <<>>) IN
                         FlowNonSpaces(b, r.i, double, a1 \o r.v)
               ELSE [i |-> e + 1, v |-> a1, e |-> e + 1, of |-> FALSE]
     ELSE [i |-> e, v |-> a1, e |-> 0, of |-> FALSE]

(* _scan_flow_scalar_spaces *)
FlowSpaces(b, j) ==
  LET a == SkipSpTab(b, j) IN
  IF b[a] = NUL THEN [i |-> a, v |-> <<>>, e |-> a]
  ELSE IF b[a] \in Newline
       THEN LET lb == BreakVal(b, a)
                r  == FlowBreaks(b, a + BreakLen(b, a), <<>>)
            IN [i |-> r.i, e |-> 0,
                v |-> (IF lb # <<LF>> THEN lb ELSE IF r.v = <<>> THEN <<SP>> ELSE <<>>) \o r.v]
       ELSE [i |-> a, v |-> SubSeq(b, j, a - 1), e |-> 0]

(* _scan_flow_scalar: b[j] is the opening quote *)
RECURSIVE FlowLoop(_, _, _, _, _)
FlowLoop(b, j, double, quote, acc) ==
  IF b[j] = quote THEN [i |-> j + 1, v |-> acc, e |-> 0, of |-> FALSE]
  ELSE LET s == FlowSpaces(b, j) IN
       IF s.e # 0 THEN [i |-> s.i, v |-> acc, e |-> s.e, of |-> FALSE]
       ELSE LET n == FlowNonSpaces(b, s.i, double, acc \o s.v) IN
            IF n.e # 0 THEN n ELSE FlowLoop(b, n.i, double, quote, n.v)
Flow(b, j) ==
  LET double == b[j] = DQ
      n == FlowNonSpaces(b, j + 1, double, <<>>)
  IN IF n.e # 0 THEN n ELSE FlowLoop(b, n.i, double, b[j], n.v)

(* ---------------------------------------------------------------- block scalars ---- *)
(* _scan_block_scalar_indicators from j: [i, chomp \in {"clip","keep","strip"}, inc (0 = none), e] *)
BlockIndicators(b, j) ==
  LET chompOf(c) == IF c = PLUS THEN "keep" ELSE "strip"
      r == IF b[j] \in {PLUS, MINUS}
           THEN IF b[j + 1] \in Digits
                THEN IF b[j + 1] = 48 THEN [i |-> j + 1, chomp |-> chompOf(b[j]), inc |-> 0, e |-> j + 1]
                     ELSE [i |-> j + 2, chomp |-> chompOf(b[j]), inc |-> b[j + 1] - 48, e |-> 0]
                ELSE [i |-> j + 1, chomp |-> chompOf(b[j]), inc |-> 0, e |-> 0]
           ELSE IF b[j] \in Digits
                THEN IF b[j] = 48 THEN [i |-> j, chomp |-> "clip", inc |-> 0, e |-> j]
                     ELSE IF b[j + 1] \in {PLUS, MINUS}
                          THEN [i |-> j + 2, chomp |-> chompOf(b[j + 1]), inc |-> b[j] - 48, e |-> 0]
                          ELSE [i |-> j + 1, chomp |-> "clip", inc |-> b[j] - 48, e |-> 0]
                ELSE [i |-> j, chomp |-> "clip", inc |-> 0, e |-> 0]
  IN IF r.e # 0 THEN r
     ELSE IF b[r.i] \notin EndSpNl THEN [r EXCEPT !.e = r.i] ELSE r

(* _scan_block_scalar_ignored_line: [i, e, c] *)
BlockIgnoredLine(b, j) ==
  LET a == SkipSp(b, j)
      c == IF b[a] = HASH THEN ToEol(b, a) ELSE a
  IN IF b[c] \notin EndNl THEN [i |-> c, e |-> c, c |-> b[a] = HASH]
     ELSE [i |-> c + BreakLen(b, c), e |-> 0, c |-> b[a] = HASH]

(* _scan_block_scalar_indentation: [i, v, max] *)
RECURSIVE BlockIndentation(_, _, _, _)
BlockIndentation(b, j, acc, mx) ==
  IF b[j] \notin SpNl THEN [i |-> j, v |-> acc, max |-> mx]
  ELSE IF b[j] # SP THEN BlockIndentation(b, j + BreakLen(b, j), acc \o BreakVal(b, j), mx)
  ELSE LET c == Col(b, j + 1) IN BlockIndentation(b, j + 1, acc, IF c > mx THEN c ELSE mx)

(* _scan_block_scalar_breaks: [i, v] *)
RECURSIVE SkipIndent(_, _, _), BlockBreaks0(_, _, _, _)
SkipIndent(b, j, indent) == IF Col(b, j) < indent /\ b[j] = SP THEN SkipIndent(b, j + 1, indent) ELSE j
BlockBreaks0(b, j, indent, acc) ==
  IF b[j] \in Newline
  THEN BlockBreaks0(b, SkipIndent(b, j + BreakLen(b, j), indent), indent, acc \o BreakVal(b, j))
  ELSE [i |-> j, v |-> acc]
BlockBreaks(b, j, indent) == BlockBreaks0(b, SkipIndent(b, j, indent), indent, <<>>)

(* the inner loop of _scan_block_scalar: [i, v, lb, breaks] *)
RECURSIVE BlockBody(_, _, _, _, _, _)
BlockBody(b, j, indent, folded, chunks, breaks) ==
  IF ~(Col(b, j) = indent /\ b[j] # NUL) THEN [i |-> j, v |-> chunks, lb |-> <<>>, breaks |-> breaks]
  ELSE LET lead == b[j] \notin {SP, TAB}
           e    == ToEol(b, j)
           ch1  == chunks \o breaks \o SubSeq(b, j, e - 1)
           lb   == BreakVal(b, e)
           br   == BlockBreaks(b, e + BreakLen(b, e), indent)
       IN IF Col(b, br.i) = indent /\ b[br.i] # NUL
          THEN LET ch2 == IF folded /\ lb = <<LF>> /\ lead /\ b[br.i] \notin {SP, TAB}
                          THEN (IF br.v = <<>> THEN Append(ch1, SP) ELSE ch1)
                          ELSE ch1 \o lb
               IN LET r == BlockBody(b, br.i, indent, folded, ch2, br.v) IN
                  \* the recursive call resets line_break only if it scans a line; it always does here
                  r
          ELSE [i |-> br.i, v |-> ch1, lb |-> lb, breaks |-> br.v]

(* _scan_block_scalar: b[j] is '|' or '>' : [i, v, e, c] *)
Block(b, j) ==
  LET folded == b[j] = GT
      ind == BlockIndicators(b, j + 1)
  IN IF ind.e # 0 THEN [i |-> ind.i, v |-> <<>>, e |-> ind.e, c |-> FALSE]
     ELSE LET ig == BlockIgnoredLine(b, ind.i) IN
          IF ig.e # 0 THEN [i |-> ig.i, v |-> <<>>, e |-> ig.e, c |-> ig.c]
          ELSE LET first == IF ind.inc = 0
                            THEN LET r == BlockIndentation(b, ig.i, <<>>, 0) IN
                                 [i |-> r.i, v |-> r.v, indent |-> IF r.max > 1 THEN r.max ELSE 1]
                            ELSE LET r == BlockBreaks(b, ig.i, ind.inc) IN
                                 [i |-> r.i, v |-> r.v, indent |-> ind.inc]
                   body == BlockBody(b, first.i, first.indent, folded, <<>>, first.v)
                   tail == (IF ind.chomp # "strip" THEN body.lb ELSE <<>>)
                           \o (IF ind.chomp = "keep" THEN body.breaks ELSE <<>>)
               IN [i |-> body.i, v |-> body.v \o tail, e |-> 0, c |-> ig.c]
=============================================================================
