----------------------------- MODULE InvEntry -----------------------------
(* C18 (second half) -- from entry lines to the object table (inventory._load_v2's     *)
(* loop body), against the declarative meaning Sphinx's own loader gives the same      *)
(* lines.                                                                               *)
(*   entry = [name, dom, typ, colon, dollar, tail, disp]                                *)
(*     type field is "dom:typ" if colon, else "dom" alone (malformed: line skipped)     *)
(*     location is "p.html#" + ("$" if dollar else tail), or EMPTY (eloc: what Sphinx   *)
(*     writes for the root document of a dirhtml build: two blanks after the priority)  *)
(*     disp is the display name; "-" (or nothing) means "same as name" -> no text       *)
(* M  Entry: one loop iteration (skip without colon; first py:module wins; "$" is       *)
(*    replaced by the name; "-" -> no text; assignment into the nested mapping).        *)
(* S  Result: per key the LAST entry wins, except py:module where the FIRST wins; keys  *)
(*    are listed in nested-mapping order.                                               *)
EXTENDS Naturals, Sequences, FiniteSets, TLC, Json

CONSTANTS MaxLines,
          Shapes,        \* "core": the 24 basic entry shapes (deeper bound) | "all": every shape (empty location, a display
                         \* name equal to the name, a type with two colons)
          DevKeepLast    \* as-built deviation: the py:module guard never fires (keeps the last)

Names == {"m", "m x"}
Types == {<<"py", "module", TRUE>>, <<"py", "func", TRUE>>, <<"bad", "", FALSE>>,
          <<"rst", "directive:option", TRUE>>}          \* the type field is split at its FIRST colon only
Entries == {e \in [name : Names, ty : Types, dollar : BOOLEAN, eloc : BOOLEAN, disp : {"-", "T", "m", "E"}] :      \* ("m": a display name equal to the name m; "E": NO display name, the line ends after the location: malformed)
               /\ (e.eloc => ~e.dollar)
               /\ (Shapes = "core" => ~e.eloc /\ e.disp \notin {"m", "E"} /\ e.ty[1] # "rst")}
Frag(e, k) == "q" \o ToString(k)          \* literal fragment of line k (distinguishes lines)

VARIABLES lines, pos, res
vars == <<lines, pos, res>>

Init == /\ lines \in UNION {[1..n -> Entries] : n \in 0..MaxLines}
        /\ pos = 1 /\ res = <<>>

Key(e)  == <<e.ty[1], e.ty[2], e.name>>
Loc(e, k) == IF e.eloc THEN "" ELSE "p.html#" \o (IF e.dollar THEN e.name ELSE Frag(e, k))
Val(e, k) == [key |-> Key(e), loc |-> Loc(e, k), text |-> IF e.disp = "-" THEN "NONE" ELSE e.disp]

Has(r, key) == \E x \in 1..Len(r) : r[x].key = key
(* assignment into the nested mapping domain -> type -> name (insertion ordered) *)
LastIdx(r, P(_)) == LET S == {x \in 1..Len(r) : P(r[x])} IN
                    IF S = {} THEN 0 ELSE CHOOSE x \in S : \A y \in S : y <= x
InsertAt(r, k, v) == SubSeq(r, 1, k) \o <<v>> \o SubSeq(r, k + 1, Len(r))
Assign(r, v) ==
  IF Has(r, v.key)
  THEN [x \in 1..Len(r) |-> IF r[x].key = v.key THEN v ELSE r[x]]
  ELSE LET sameType == LastIdx(r, LAMBDA w : w.key[1] = v.key[1] /\ w.key[2] = v.key[2])
           sameDom  == LastIdx(r, LAMBDA w : w.key[1] = v.key[1]) IN
       IF sameType > 0 THEN InsertAt(r, sameType, v)
       ELSE IF sameDom > 0 THEN InsertAt(r, sameDom, v)
       ELSE Append(r, v)

Entry == /\ pos <= Len(lines)
         /\ LET e == lines[pos] IN
            res' = IF ~e.ty[3] \/ e.disp = "E" THEN res                     \* no ":" in type / no display-name field: the line is skipped
                   ELSE IF e.ty[1] = "py" /\ e.ty[2] = "module" /\ Has(res, Key(e)) /\ ~DevKeepLast
                        THEN res                                             \* first one is correct
                   ELSE Assign(res, Val(e, pos))
         /\ pos' = pos + 1 /\ UNCHANGED lines
Next == Entry
Spec == Init /\ [][Next]_vars

Done == pos > Len(lines)

(************************************ S ************************************************)
Valid(k) == lines[k].ty[3] /\ lines[k].disp # "E"
IsMod(k) == lines[k].ty[1] = "py" /\ lines[k].ty[2] = "module"
(* the line that defines key K *)
Winner(K) == LET S == {k \in 1..Len(lines) : Valid(k) /\ Key(lines[k]) = K} IN
             IF K[1] = "py" /\ K[2] = "module"
             THEN CHOOSE k \in S : \A j \in S : k <= j
             ELSE CHOOSE k \in S : \A j \in S : j <= k
Keys == {Key(lines[k]) : k \in {j \in 1..Len(lines) : Valid(j)}}
Table == [K \in Keys |-> Val(lines[Winner(K)], Winner(K))]

SameSet   == Done => /\ {res[x].key : x \in 1..Len(res)} = Keys
                     /\ \A x \in 1..Len(res) : res[x] = Table[res[x].key]
NoDupKeys == \A x, y \in 1..Len(res) : x # y => res[x].key # res[y].key
(* a malformed line never disturbs other entries: removing it gives the same table *)
Nested    == \A x, y, z \in 1..Len(res) : (x < y /\ y < z) =>
                /\ (res[x].key[1] = res[z].key[1] => res[y].key[1] = res[x].key[1])
                /\ (res[x].key[1] = res[z].key[1] /\ res[x].key[2] = res[z].key[2]
                       => res[y].key[2] = res[x].key[2])

Emit == Done => PrintT(ToJson([lines |-> lines, res |-> res]))
=============================================================================
