----------------------------- MODULE Lines -----------------------------
(* C04 -- nodes and warnings carry the true source line, at any nesting depth.              *)
(* A layout is a path of frames (outermost first) around one leaf construct:                 *)
(*   [w |-> "quote" | "list" | "btick" | "colon" (directives) | "div" (bare ::: container)   *)
(*          | "inc" (include of a file holding the rest),                                    *)
(*    opt |-> "none" | "colon" | "yaml", nopt |-> number of options, blanks |-> blank lines   *)
(*    between the option block / fence line and the body, skip |-> number of sibling          *)
(*    paragraphs (2 lines each) before the inner construct, first |-> body text on the        *)
(*    fence line, post |-> 1 if a sibling paragraph follows the inner construct inside the     *)
(*    frame, dname |-> "note" | "epigraph" (a quote directive with an attribution line) |      *)
(*    "container" (a directive that does not position its own output node)]                    *)
(* M composes the line the way the code does: token.map (0-based rows of a parse unit) + the  *)
(* lineno handed to nested_render_text (base) + 1; a directive body is a new parse unit at    *)
(* position + body_offset (DirSplit), a ::: container at its own line, an included file at    *)
(* start-line.  S counts physical lines of the layout.                                        *)
EXTENDS Naturals, Sequences, FiniteSets, TLC, Json

CONSTANTS Frames,          \* set of frame records
          MaxDepth, Pres, Leaves,
          DevIncludePlusOne,   \* as-built (open finding, pinned by a repository test): included lines are +1
          DevColonNested,      \* as-built before the fix: a ::: directive whose body starts with a ::: fence is +1 inside
          DevFirstLine,        \* as-built (open finding): body text on the fence line gets the next line's number
          DevRestoreToTop,     \* a seeded change: after an include the source is reset to the top-level file
          DevAttribution,      \* as-built before the fix: a quote directive's attribution is reported one line early
          DevTokenMemo,        \* a seeded change: the tokens of a nested text are remembered per document and shifted again on reuse
          DevDupShift,         \* a seeded change: every nested render shifts the recorded duplicate definitions
          DevQuoteNoLine       \* as-built before the fix (approximation): the quote directive's block_quote has no line of its own

Paths == UNION {[1..n -> Frames] : n \in 0..MaxDepth}
OptLines(f) == IF f.opt = "none" THEN 0 ELSE IF f.opt = "colon" THEN f.nopt ELSE f.nopt + 2
IsDir(f) == f.w \in {"btick", "colon"}
(* DirSplit: the body offset = option lines + one optional leading blank line *)
BodyOffset(f) == OptLines(f) + (IF f.blanks >= 1 THEN 1 ELSE 0)

LeafHeight(l) == IF l \in {"code", "target"} THEN 3 ELSE 1
(* physical lines of the construct at depth n (frame n with everything inside it; Len+1 = the leaf) *)
RECURSIVE Height(_, _, _)
Height(p, l, n) ==
  IF n > Len(p) THEN LeafHeight(l)
  ELSE LET f == p[n] inner == Height(p, l, n + 1) IN
       CASE f.w \in {"quote", "list"} -> 2 * f.skip + inner + 2 * f.post
         [] f.w = "inc" -> 2
         [] f.w = "div" -> 1 + 2 * f.skip + inner + 2 * f.post + 1
         [] f.first -> 2
         [] OTHER -> 1 + OptLines(f) + f.blanks + 2 * f.skip + inner + 2 * f.post + (IF f.dname = "epigraph" THEN 2 ELSE 0) + 1

VARIABLES path, pre, leaf,
          inner,        \* per entered frame: where its inner construct starts [base, row, abs] and the source before it
          k,            \* next frame
          base, row,    \* M: lineno of the current parse unit, 0-based row in it
          src,          \* M: "doc" or the index of the include frame whose file we are in
          abs, ssrc,    \* S: physical line in the current file, and that file
          marks         \* Seq of [what, m (M's line), s (true line), src]: one per frame and one for the leaf
vars == <<path, pre, leaf, inner, k, base, row, src, abs, ssrc, marks>>

WellFormedPath(p) ==
  /\ \A n \in 1..Len(p) : p[n].first => (n = Len(p) /\ IsDir(p[n]) /\ p[n].opt = "none" /\ p[n].blanks = 0 /\ p[n].skip = 0)
  /\ \A n \in 1..Len(p) : ~IsDir(p[n]) => (p[n].opt = "none" /\ p[n].nopt = 0 /\ p[n].blanks = 0 /\ ~p[n].first /\ p[n].dname = "note")
  /\ \A n \in 1..Len(p) : p[n].first => (p[n].post = 0 /\ p[n].dname = "note")
  /\ \A n \in 1..Len(p) : p[n].dname \in {"epigraph", "container"} => p[n].opt = "none"   \* (these directives are written without options)
  /\ \A n \in 1..Len(p) : (p[n].opt = "none") = (p[n].nopt = 0)
Init == /\ path \in {p \in Paths : WellFormedPath(p)} /\ pre \in Pres /\ leaf \in Leaves
        /\ (path # <<>> /\ path[Len(path)].first => leaf = "para")
        /\ k = 1 /\ base = 0 /\ row = pre /\ src = 0 /\ abs = pre + 1 /\ ssrc = 0 /\ marks = <<>> /\ inner = <<>>

Mark(what) == [what |-> what, m |-> base + row + 1, s |-> abs, src |-> src, ssrc |-> ssrc]

(* the frame starts on the current row; the inner construct starts ... *)
EnterQuoteOrList == /\ k <= Len(path) /\ path[k].w \in {"quote", "list"}
                    /\ marks' = Append(marks, Mark(path[k].w))
                    /\ row' = row + 2 * path[k].skip /\ abs' = abs + 2 * path[k].skip
                    /\ inner' = Append(inner, [base |-> base, row |-> row', abs |-> abs', osrc |-> src, ossrc |-> ssrc])
                    /\ k' = k + 1 /\ UNCHANGED <<path, pre, leaf, base, src, ssrc>>
NextStartsWithColon == k < Len(path) /\ path[k + 1].w \in {"colon", "div"}
EnterDirective ==
  /\ k <= Len(path) /\ IsDir(path[k])
  /\ LET f == path[k]
         position == base + row + 1                              \* token_line of the fence
         plus == IF DevColonNested /\ f.w = "colon" /\ f.opt = "none" /\ f.blanks = 0 /\ f.skip = 0 /\ ~f.first /\ NextStartsWithColon
                 THEN 1 ELSE 0                                    \* the "\n" + content trick of render_colon_fence
     IN /\ marks' = Append(marks, IF f.dname = "epigraph"
                                    \* the block_quote a quote directive returns: MockState.block_quote, first body line (as docutils)
                                    THEN [what |-> "quote-directive", m |-> position + BodyOffset(f) + 1 - (IF DevQuoteNoLine THEN 1 ELSE 0),
                                          s |-> abs + BodyOffset(f) + 1, src |-> src, ssrc |-> ssrc]
                                    ELSE Mark("directive"))
        /\ IF f.first                                                  \* the fence line itself is body row 0
           THEN /\ base' = (position - 1) + (IF DevFirstLine THEN 1 ELSE 0)  \* as built: rendered at position + 0, i.e. one line late
                /\ row' = 0
           ELSE /\ base' = position + BodyOffset(f) + plus             \* MockState.nested_parse: _lineno + input_offset
                /\ row' = (IF f.blanks >= 1 THEN f.blanks - 1 ELSE 0) + 2 * f.skip
        /\ abs' = IF f.first THEN abs ELSE abs + 1 + OptLines(f) + f.blanks + 2 * f.skip
  /\ inner' = Append(inner, [base |-> base', row |-> row', abs |-> abs', osrc |-> src, ossrc |-> ssrc])
  /\ k' = k + 1 /\ UNCHANGED <<path, pre, leaf, src, ssrc>>
EnterDiv == /\ k <= Len(path) /\ path[k].w = "div"
            /\ marks' = Append(marks, Mark("container"))
            /\ base' = base + row + 1 /\ row' = 2 * path[k].skip              \* nested_render_text(content, token_line)
            /\ abs' = abs + 1 + 2 * path[k].skip
            /\ inner' = Append(inner, [base |-> base', row |-> row', abs |-> abs', osrc |-> src, ossrc |-> ssrc])
            /\ k' = k + 1 /\ UNCHANGED <<path, pre, leaf, src, ssrc>>
EnterInclude == /\ k <= Len(path) /\ path[k].w = "inc"
                /\ marks' = marks                                             \* (an include leaves no node of its own)
                /\ base' = IF DevIncludePlusOne THEN 1 ELSE 0                 \* nested_render_text(text, startline [+ 1])
                /\ row' = 2 * path[k].skip /\ src' = k
                /\ abs' = 1 + 2 * path[k].skip /\ ssrc' = k
                /\ inner' = Append(inner, [base |-> base', row |-> row', abs |-> abs', osrc |-> src, ossrc |-> ssrc])
                /\ k' = k + 1 /\ UNCHANGED <<path, pre, leaf>>
Leaf == /\ k = Len(path) + 1
        /\ marks' = Append(marks, Mark(leaf))
        /\ k' = k + 1 /\ UNCHANGED <<path, pre, leaf, inner, base, row, src, abs, ssrc>>
(* leaving the frames again, innermost first: the sibling paragraph after the inner construct (same   *)
(* parse unit as the inner construct), and the restore of the document source after an include      *)
Exit == /\ k > Len(path) + 1 /\ k <= 2 * Len(path) + 1
        /\ LET n == 2 * Len(path) + 2 - k            \* frame being left
               f == path[n]
               h == Height(path, leaf, n + 1)
               i == inner[n]
               after == IF f.post = 1
                        THEN <<[what |-> "after", m |-> i.base + i.row + h + 1 + 1, s |-> i.abs + h + 1, src |-> src, ssrc |-> ssrc]>>
                        ELSE <<>>
               (* MockState.block_quote: the attribution line's index in the directive body, counted like nested_parse *)
               attr == IF IsDir(f) /\ f.dname = "epigraph"
                       THEN <<[what |-> "attribution", m |-> i.base + i.row + (h + 2 * f.post + 1) + (IF DevAttribution THEN 0 ELSE 1),
                               s |-> i.abs + h + 2 * f.post + 1, src |-> src, ssrc |-> ssrc]>>
                       ELSE <<>>
           IN /\ marks' = marks \o after \o attr
              /\ src' = IF f.w = "inc" THEN (IF DevRestoreToTop THEN 0 ELSE i.osrc) ELSE src
              /\ ssrc' = IF f.w = "inc" THEN i.ossrc ELSE ssrc
        /\ k' = k + 1 /\ UNCHANGED <<path, pre, leaf, inner, base, row, abs>>
(* after the whole construct, at document level: a duplicate reference definition.  Its warning is raised from   *)
(* the token map recorded when the DOCUMENT was tokenised, at the end of the render: nested renders in between   *)
(* must not move it                                                                                              *)
TailDef == /\ k = 2 * Len(path) + 2
        /\ LET line == pre + Height(path, leaf, 1) + 3             \* blank line, first definition, the duplicate
                shift == IF DevDupShift THEN Len(SelectSeq(path, LAMBDA f : f.w # "quote" /\ f.w # "list")) ELSE 0   \* (grows with every nested render)
                \* then two directives with the SAME body text, one after the other: the same text rendered twice.  Each
                \* body is placed from its own fence line (line + 2 and line + 6); a token list remembered from the first
                \* render (DevTokenMemo) has already been moved once
                t1 == line + 3
                t2 == line + 7
            IN marks' = marks \o <<[what |-> "dupdef", m |-> line + shift, s |-> line, src |-> 0, ssrc |-> 0],
                                   [what |-> "twin", m |-> t1, s |-> t1, src |-> 0, ssrc |-> 0],
                                   [what |-> "twin", m |-> t2 + (IF DevTokenMemo THEN t1 ELSE 0), s |-> t2, src |-> 0, ssrc |-> 0]>>
        /\ k' = k + 1 /\ UNCHANGED <<path, pre, leaf, inner, base, row, src, abs, ssrc>>
Next == EnterQuoteOrList \/ EnterDirective \/ EnterDiv \/ EnterInclude \/ Leaf \/ Exit \/ TailDef
Spec == Init /\ [][Next]_vars /\ WF_vars(Next)
Done == k = 2 * Len(path) + 3

(************************************ S ************************************************)
TrueLines == \A n \in 1..Len(marks) : marks[n].m = marks[n].s /\ marks[n].src = marks[n].ssrc
Terminates == <>Done
Emit == Done => PrintT(ToJson([path |-> path, pre |-> pre, leaf |-> leaf, marks |-> marks]))
=============================================================================
