----------------------------- MODULE AnchorsTrace -----------------------------
(* V leg of C09/C10: recorded renders of generated documents.  {id, items, depth, links,   *)
(* obs: {slugs: [[slug, item]], res: [[kind, item]], nwarn}} -- items/links are the          *)
(* abstract input (titles as extracted by markdown-it from the generated text), obs is the  *)
(* projection of the doctree.  M's actions run on the input; S's rules are invariants of    *)
(* the same run; the verdict compares M's registers with the observation.                   *)
EXTENDS Anchors, IOUtils

Traces == ndJsonDeserialize(IOEnv.TRACE_FILE)
VARIABLE tid
tvars == <<vars, tid>>
T == Traces[tid]

TraceInit == /\ tid \in 1..Len(Traces)
             /\ items = Traces[tid].items /\ depth = Traces[tid].depth /\ links = Traces[tid].links
             /\ pos = 1 /\ slugs = <<>> /\ explicit = <<>> /\ lpos = 1 /\ res = <<>> /\ nwarn = 0
TraceNext == Next /\ UNCHANGED tid
TraceSpec == TraceInit /\ [][TraceNext]_tvars

Verdict == Done => PrintT(ToJson([id |-> T.id,
                                  slugs |-> (slugs = T.obs.slugs), res |-> (res = T.obs.res),
                                  nwarn |-> (nwarn = T.obs.nwarn),
                                  exp_slugs |-> slugs, exp_res |-> res,
                                  title |-> [l \in 1..Len(res) |-> TitleOf(res[l])]]))
=============================================================================
