----------------------------- MODULE InvReader -----------------------------
(* C18 (first half) -- the chunked inventory reader of inventory.py, with the read     *)
(* schedule as nondeterminism: every read() may return any non-empty prefix of what is *)
(* left (and returns nothing only at the end).                                          *)
(*                                                                                      *)
(* Bytes are small integers; NL = 10.  Header line 1 decides the format:               *)
(*   <<V1>> = "# Sphinx inventory version 1",  <<V2>> = "... version 2", else invalid. *)
(* Line 4 (v2 only) must contain the byte Z ("zlib").  The compressed remainder is     *)
(* modelled by its decompressed text: streaming decompression is a homomorphism over   *)
(* concatenation, so a chunk of k compressed bytes releases some d >= 0 bytes of the   *)
(* decompressed body, and everything has been released once the stream is exhausted.   *)
(*                                                                                      *)
(* State = the fields of InventoryFileReader (stream, buffer, eof) + the generator      *)
(* state of read_compressed_lines (dbuf) + the caller's progress (phase, out).          *)
(* Actions = one per code step: ReadBuffer, TakeLine (newline found), TakeRest (eof),   *)
(* BodyChunk (one iteration of read_compressed_chunks), Split, Finish.                  *)
EXTENDS Naturals, Sequences, FiniteSets, TLC, Json

CONSTANTS V1Line, V2Line, \* the two recognised first lines (abstract: <<1>>, <<2>>; traces: real text)
          ZMark,          \* the marker line 4 must contain ("zlib"; abstract: <<2>>)
          MaxBody,        \* bound on the (decompressed) body length
          DevDropCarry,   \* mutant: header remainder not carried into the first compressed chunk
          DevKeepLast,    \* (unused here; keeps cfgs uniform)
          DevDropRest     \* as found (repaired): an unterminated last line of a v2 body is never delivered

NL == 10
AbsV1 == <<1>>
AbsV2 == <<2>>
AbsZ  == <<2>>
Contains(line, m) == \E x \in 1..(Len(line) - Len(m) + 1) : SubSeq(line, x, x + Len(m) - 1) = m

VARIABLES file,      \* the plain part of the file: header lines (v1: and the entry lines)
          body,      \* v1: the plain entry text; v2: the DECOMPRESSED entry text
          stream,    \* unread plain bytes
          zleft,     \* v2: decompressed bytes not yet released by the decompressor
          cleft,     \* v2: compressed bytes not yet read (only their number matters)
          buffer, eof, phase, ver, hdr, dbuf, out,
          isv2       \* (ghost) the generated file is in format 2: body is not part of `file`
vars == <<file, body, stream, zleft, cleft, buffer, eof, phase, ver, hdr, dbuf, out, isv2>>

HasNl(s)   == \E k \in 1..Len(s) : s[k] = NL
FirstNl(s) == CHOOSE k \in 1..Len(s) : s[k] = NL /\ \A j \in 1..(k - 1) : s[j] # NL
Drop(s, k) == SubSeq(s, k + 1, Len(s))
Take(s, k) == SubSeq(s, 1, k)

Bodies == UNION {[1..n -> {1, NL}] : n \in 0..MaxBody}

(* all files: valid/invalid first line, present/absent zlib marker, any body, and every *)
(* truncation inside the header (then there is no body)                                 *)
Init == /\ \E h1 \in {V1Line, V2Line, <<3>>}, h2 \in {<<>>, <<1>>}, h4 \in {ZMark, <<1>>},
              b \in Bodies, c \in 0..2 :
           LET header == h1 \o <<NL>> \o h2 \o <<NL>> \o <<1>> \o <<NL>>
                         \o (IF h1 = V2Line THEN h4 \o <<NL>> ELSE <<>>) IN
           \E t \in 0..Len(header) :
             /\ (h1 # V2Line => h4 = ZMark)
             /\ (t < Len(header) => b = <<>> /\ c = 0)
             /\ (h1 = V2Line => (b # <<>> <=> c > 0))
             /\ (h1 # V2Line => c = 0)
             /\ body = b /\ isv2 = (h1 = V2Line)
             /\ IF h1 = V2Line THEN /\ file = Take(header, t) /\ zleft = b /\ cleft = c
                               ELSE /\ file = Take(header, t) \o b /\ zleft = <<>> /\ cleft = 0
             /\ stream = file
        /\ ver = 0 /\ buffer = <<>> /\ eof = FALSE /\ phase = "h1" /\ hdr = <<>>
        /\ dbuf = <<>> /\ out = <<>>

InReadline == phase \in {"h1", "h2", "h3", "h4", "v1body"}

(* read(): k plain bytes and, once the plain part is exhausted, j compressed ones which *)
(* release d decompressed bytes (everything with the last compressed byte).  A          *)
(* compressed byte that lands in `buffer` during header reading is represented by the   *)
(* decompressed bytes it releases.  <<0,0,0>> = read() returned b"" (only at the end).  *)
Reads == {r \in (0..Len(stream)) \X (0..cleft) \X (0..Len(zleft)) :
            /\ (r[2] > 0 => r[1] = Len(stream))
            /\ (r[2] = 0 => r[3] = 0)
            /\ (r[2] = cleft /\ r[2] > 0 => r[3] = Len(zleft))
            /\ (r[1] = 0 /\ r[2] = 0 => stream = <<>> /\ cleft = 0)}
NewBytes(r) == Take(stream, r[1]) \o Take(zleft, r[3])
Consume(r)  == /\ stream' = Drop(stream, r[1]) /\ cleft' = cleft - r[2] /\ zleft' = Drop(zleft, r[3])
               /\ eof' = (r[1] = 0 /\ r[2] = 0)

Deliver(line) ==
  CASE phase = "h1" ->
         /\ ver' = IF line = V1Line THEN 1 ELSE IF line = V2Line THEN 2 ELSE 0
         /\ phase' = IF line \in {V1Line, V2Line} THEN "h2" ELSE "error"
         /\ hdr' = Append(hdr, line) /\ UNCHANGED out
    [] phase = "h2" -> /\ phase' = "h3" /\ hdr' = Append(hdr, line) /\ UNCHANGED <<ver, out>>
    [] phase = "h3" -> /\ phase' = IF ver = 1 THEN "v1body" ELSE "h4"
                       /\ hdr' = Append(hdr, line) /\ UNCHANGED <<ver, out>>
    [] phase = "h4" -> /\ phase' = IF Contains(line, ZMark) THEN "v2body" ELSE "error"
                       /\ hdr' = Append(hdr, line) /\ UNCHANGED <<ver, out>>
    [] phase = "v1body" -> /\ out' = IF line # <<>> THEN Append(out, line) ELSE out
                           /\ UNCHANGED <<phase, ver, hdr>>

(* readline(): newline in the buffer *)
TakeLine == /\ InReadline /\ (phase = "v1body" => ~eof) /\ HasNl(buffer)
            /\ LET p == FirstNl(buffer) IN
                 /\ Deliver(Take(buffer, p - 1))
                 /\ buffer' = Drop(buffer, p)
            /\ UNCHANGED <<file, body, isv2, stream, zleft, cleft, eof, dbuf>>
(* readline(): no newline, eof (header lines of a truncated file) *)
TakeRest == /\ InReadline /\ ~HasNl(buffer) /\ eof /\ phase # "v1body"
            /\ Deliver(buffer) /\ buffer' = <<>>
            /\ UNCHANGED <<file, body, isv2, stream, zleft, cleft, eof, dbuf>>
(* readline(): no newline, not eof -> read_buffer() *)
ReadMoreR(r) ==
            /\ InReadline /\ ~HasNl(buffer) /\ ~eof
            /\ r \in Reads /\ Consume(r) /\ buffer' = buffer \o NewBytes(r)
            /\ UNCHANGED <<file, body, isv2, phase, ver, hdr, dbuf, out>>
(* readlines(): the readline that hit eof returns what is left, then the loop ends *)
V1Last == /\ phase = "v1body" /\ eof
          /\ out' = IF buffer # <<>> THEN Append(out, buffer) ELSE out
          /\ buffer' = <<>> /\ phase' = "done"
          /\ UNCHANGED <<file, body, isv2, stream, zleft, cleft, eof, ver, hdr, dbuf>>

(* one iteration of read_compressed_chunks:                                           *)
(*   read_buffer(); yield decompress(buffer); buffer = b""                            *)
BodyChunkR(r) ==
             /\ phase = "v2body" /\ ~eof
             /\ r \in Reads /\ Consume(r)
             /\ dbuf' = dbuf \o (IF DevDropCarry THEN <<>> ELSE buffer) \o NewBytes(r)
             /\ buffer' = <<>>
             /\ UNCHANGED <<file, body, isv2, phase, ver, hdr, out>>
(* read_compressed_lines: split complete lines off the decompressed buffer *)
Split == /\ phase = "v2body" /\ HasNl(dbuf)
         /\ LET p == FirstNl(dbuf) IN /\ out' = Append(out, Take(dbuf, p - 1))
                                      /\ dbuf' = Drop(dbuf, p)
         /\ UNCHANGED <<file, body, isv2, stream, zleft, cleft, buffer, eof, phase, ver, hdr>>
(* end of the chunks: what is left in the buffer is the last (unterminated) line *)
Finish == /\ phase = "v2body" /\ eof /\ ~HasNl(dbuf) /\ phase' = "done"
          /\ out' = IF dbuf # <<>> /\ ~DevDropRest THEN Append(out, dbuf) ELSE out
          /\ UNCHANGED <<file, body, isv2, stream, zleft, cleft, buffer, eof, ver, hdr, dbuf>>

ReadMore  == \E r \in Reads : ReadMoreR(r)
BodyChunk == \E r \in Reads : BodyChunkR(r)
Next == TakeLine \/ TakeRest \/ ReadMore \/ V1Last \/ BodyChunk \/ Split \/ Finish
Spec == Init /\ [][Next]_vars /\ WF_vars(Next)

(********************************* S ***************************************************)
RECURSIVE SplitNl(_)           \* the newline-terminated lines of s
SplitNl(s) == IF ~HasNl(s) THEN <<>>
              ELSE LET p == FirstNl(s) IN <<Take(s, p - 1)>> \o SplitNl(Drop(s, p))
RECURSIVE Rest(_)              \* what follows the last newline
Rest(s) == IF ~HasNl(s) THEN s ELSE Rest(Drop(s, FirstNl(s)))
NonEmpty(ls) == SelectSeq(ls, LAMBDA l : l # <<>>)
RECURSIVE JoinNl(_)
JoinNl(ls) == IF ls = <<>> THEN <<>> ELSE Head(ls) \o <<NL>> \o JoinNl(Tail(ls))

(* header lines as readline() defines them: newline-terminated lines, then the rest,  *)
(* then empty strings                                                                  *)
IsV2File == isv2
PlainHdr == IF IsV2File THEN file ELSE Take(file, Len(file) - Len(body))
HL(n) == LET ls == SplitNl(PlainHdr) \o <<Rest(PlainHdr)>> IN IF n <= Len(ls) THEN ls[n] ELSE <<>>
ValidHeader == /\ HL(1) \in {V1Line, V2Line}
               /\ (HL(1) = V2Line => Contains(HL(4), ZMark))

(* chunking independence: the entry lines depend on the bytes only *)
(* (v1 drops empty lines; v2 keeps them -- the entry parser skips them -- but an empty remainder is no line) *)
ExpectedOut == IF HL(1) = V1Line THEN NonEmpty(SplitNl(body) \o <<Rest(body)>>)
               ELSE SplitNl(body) \o (IF Rest(body) # <<>> THEN <<Rest(body)>> ELSE <<>>)
Correct   == phase = "done" => out = ExpectedOut /\ hdr[2] = HL(2) /\ hdr[3] = HL(3)
ErrorIff  == (phase = "error" => ~ValidHeader) /\ (phase = "done" => ValidHeader)
(* byte conservation while reading a v2 body *)
Conserve  == phase = "v2body" => JoinNl(out) \o dbuf \o buffer \o zleft = body
Terminates == <>(phase \in {"done", "error"})

Emit == phase \in {"done", "error"} =>
          PrintT(ToJson([file |-> file, body |-> body, ver |-> ver, phase |-> phase, out |-> out, hdr |-> hdr]))
=============================================================================
