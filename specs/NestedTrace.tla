----------------------------- MODULE NestedTrace -----------------------------
(* V leg of C06: recorded pairs of renders of the same content, A written in place and B      *)
(* wrapped.  {id, pre, x, post, w, sigA, sigB, kindsA, kindsB}: per block the interned         *)
(* signature of the node(s) it produced (pformat, line/source not shown) and the outcome       *)
(* kind ("link" / "literal" / ...).  M runs on the logged blocks; the verdict checks S's       *)
(* relation on the observation: blocks of X (and, for include / substitution, all blocks)      *)
(* produce identical nodes in A and B, and the observed outcomes are M's.                      *)
EXTENDS Nested, IOUtils

Traces == ndJsonDeserialize(IOEnv.TRACE_FILE)
VARIABLE tid
tvars == <<vars, tid>>
T == Traces[tid]
TraceInit == /\ tid \in 1..Len(Traces)
             /\ pre = Traces[tid].pre /\ x = Traces[tid].x /\ post = Traces[tid].post /\ w = Traces[tid].w
             /\ pc = "A" /\ outA = <<>> /\ outB = <<>>
TraceNext == Next /\ UNCHANGED tid
TraceSpec == TraceInit /\ [][TraceNext]_tvars

Scope == IF w \in {"include", "substitution"} THEN 1..Len(T.sigA) ELSE XRange
Verdict == Done => PrintT(ToJson([id |-> T.id,
                                  same |-> {n \in Scope : T.sigA[n] # T.sigB[n]},               \* S on the observation
                                  ma |-> {n \in 1..Len(outA) : T.kindsA[n] # outA[n]},          \* the recorded runs are M's
                                  mb |-> {n \in 1..Len(outB) : T.kindsB[n] # outB[n]}]))
=============================================================================
