----------------------------- MODULE FootnotesTrace -----------------------------
(* V leg of C11: recorded publish_doctree runs on random arrangements.                      *)
(* {id, evs, sort, trans, obs: {defs_at, num, refview, backrefs, dupw, unrefw, final}}.     *)
(* M's render and transform actions run on the logged arrangement, S's clauses are          *)
(* invariants of the same run, the verdict compares M's registers with the observation.     *)
EXTENDS Footnotes, IOUtils

Traces == ndJsonDeserialize(IOEnv.TRACE_FILE)
VARIABLE tid
tvars == <<vars, tid>>
T == Traces[tid]
O == T.obs

TraceInit == /\ tid \in 1..Len(Traces)
             /\ evs = Traces[tid].evs /\ sort = Traces[tid].sort /\ trans = Traces[tid].trans
             /\ pc = "render" /\ pos = 1 /\ defs = <<>> /\ refs = <<>> /\ dupw = {} /\ autos = <<>>
             /\ num = <<>> /\ unrefw = {} /\ final = <<>>
TraceNext == Next /\ UNCHANGED tid
TraceSpec == TraceInit /\ [][TraceNext]_tvars

SetOf(s) == {s[n] : n \in 1..Len(s)}
Bad == (IF [d \in 1..Len(defs) |-> defs[d].at] # O.defs_at THEN {"definitions kept"} ELSE {})
       \cup (IF num # O.num THEN {"numbers"} ELSE {})
       \cup (IF RefView # O.refview THEN {"reference targets/labels"} ELSE {})
       \cup (IF [d \in 1..Len(defs) |-> Cardinality(RefsTo(defs[d].l))] # O.backrefs THEN {"backrefs"} ELSE {})
       \cup (IF dupw # SetOf(O.dupw) \/ Len(O.dupw) # Cardinality(dupw) THEN {"duplicate-definition warnings"} ELSE {})
       \cup (IF unrefw # SetOf(O.unrefw) \/ Len(O.unrefw) # Cardinality(unrefw) THEN {"unreferenced warnings"} ELSE {})
       \cup (IF Visible(final) # O.final THEN {"document order / transition"} ELSE {})
Verdict == Done => PrintT(ToJson([id |-> T.id, bad |-> Bad, num |-> num, final |-> Visible(final), refview |-> RefView]))
=============================================================================
