----------------------------- MODULE HtmlAstTrace -----------------------------
(* V leg of C16: recorded tokenize_html(text) calls on markup soup.  The event stream is    *)
(* produced by an independent html.parser.HTMLParser subclass of the harness on the same    *)
(* text; the observation is the tree (kinds/names, children lists, parent pointers) of the  *)
(* implementation.  M's Step consumes the events; the verdict compares trees and evaluates  *)
(* S's Consistent on the observation itself.                                                *)
EXTENDS HtmlAst, IOUtils

Traces == ndJsonDeserialize(IOEnv.TRACE_FILE)
VARIABLE tid
tvars == <<vars, tid>>
T == Traces[tid]

TraceInit == /\ tid \in 1..Len(Traces) /\ Init
TraceNext == /\ Len(evs) < Len(T.evs) /\ Step(T.evs[Len(evs) + 1]) /\ UNCHANGED tid
TraceSpec == TraceInit /\ [][TraceNext]_tvars

Finished == Len(evs) = Len(T.evs) \/ st # "run"
ObsKids == [j \in 0..(Len(T.kids) - 1) |-> T.kids[j + 1]]
Verdict == Finished =>
  PrintT(ToJson([id |-> T.id, st |-> st,
                 nodes |-> (Len(nodes) = Len(T.nodes) /\ \A j \in 1..Len(nodes) : nodes[j].k = T.nodes[j].k /\ nodes[j].n = T.nodes[j].n),
                 kids |-> (DOMAIN kids = DOMAIN ObsKids /\ \A j \in DOMAIN kids : kids[j] = ObsKids[j]),
                 par |-> (par = T.par),
                 consistent |-> (Len(T.kids) = Len(T.nodes) + 1 /\ Len(T.par) = Len(T.nodes)
                                 /\ Consistent(ObsKids, T.par, Len(T.nodes)))]))
=============================================================================
