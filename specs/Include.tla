----------------------------- MODULE Include -----------------------------
(* C04 (included files) -- which part of an included file is rendered, and at which line.      *)
(* mocking.MockIncludeDirective.run selects the text in three steps and keeps ONE number,      *)
(* `startline`, from which nested_render_text numbers every line of what is left:              *)
(*   Slice   lines[start-line : end-line]            (Python slice: None, negative, clamped)   *)
(*   After   drop everything up to and including the first `start-after` text                  *)
(*   Before  drop everything from the first `end-before` text (searched in what is left)       *)
(*   Render  row r (0-based) of the remaining text is reported at startline + 1 + r            *)
(* The text is a sequence of ITEMS: words "W", the start marker "S", the end marker "E" and    *)
(* line breaks "LF".  Every item carries a ghost tag ln = its physical 1-based line in the     *)
(* file; M never reads it.                                                                     *)
(* S  LineTrue: every item of a rendered row lies on the physical line the row is reported at  *)
(*    ("for included files the line is relative to the included file").                         *)
(*    Content: the rendered text is the slice, cut after the FIRST start marker and before the  *)
(*    first end marker that follows; a marker that does not occur is an error, nothing rendered.*)
EXTENDS Integers, Sequences, FiniteSets, TLC, Json

CONSTANTS MaxLines,
          Scope,          \* "full": every line shape <= 2 items | "core": 7 shapes (deeper bound)
          DevCharCount,   \* seeded / as found: start-after adds the cut's CHARACTER index to startline
          DevNegStart,    \* seeded / as found: startline = the raw (possibly negative / too large) start-line option
          DevPlusOne      \* as built (open finding C04-include-plus-one): every line reported one too large

None == 99
LineShapes == IF Scope = "full"
              THEN {<<>>} \cup {<<a>> : a \in {"W", "S", "E"}} \cup {<<a, b>> : a, b \in {"W", "S", "E"}}
              ELSE {<<>>, <<"W">>, <<"S">>, <<"E">>, <<"W", "S">>, <<"S", "W">>, <<"E", "W">>}
Files == UNION {[1..n -> LineShapes] : n \in 0..MaxLines}
Opts == [sl : {None, 0, 1, 2, -1, -2}, el : {None, 1, 2, 3, -1}, sa : BOOLEAN, eb : BOOLEAN]

VARIABLES file, opt, pc, text, startline, out, err
vars == <<file, opt, pc, text, startline, out, err>>

Max(a, b) == IF a > b THEN a ELSE b
Min(a, b) == IF a < b THEN a ELSE b
(* Python's slice bounds *)
Lo(n, a) == IF a = None THEN 0 ELSE IF a < 0 THEN Max(n + a, 0) ELSE Min(a, n)
Hi(n, b) == IF b = None THEN n ELSE IF b < 0 THEN Max(n + b, 0) ELSE Min(b, n)

RECURSIVE Flat(_, _)
(* lines k, k+1, ... joined with line breaks; every item tagged with its physical line *)
Flat(ls, k) == IF ls = <<>> THEN <<>>
               ELSE [i \in 1..Len(ls[1]) |-> [it |-> ls[1][i], ln |-> k]]
                    \o (IF Len(ls) > 1 THEN <<[it |-> "LF", ln |-> k]>> ELSE <<>>)
                    \o Flat(Tail(ls), k + 1)
First(t, m) == LET S == {i \in 1..Len(t) : t[i].it = m} IN
               IF S = {} THEN 0 ELSE CHOOSE i \in S : \A j \in S : i <= j
CountLF(t, n) == Cardinality({i \in 1..n : t[i].it = "LF"})

Init == /\ file \in Files /\ opt \in Opts
        /\ pc = "slice" /\ text = <<>> /\ startline = 0 /\ out = <<>> /\ err = "none"

Slice == /\ pc = "slice"
         /\ LET n == Len(file) lo == Lo(n, opt.sl) hi == Hi(n, opt.el) IN
            /\ text' = Flat(SubSeq(file, lo + 1, hi), lo + 1)
            /\ startline' = IF DevNegStart THEN (IF opt.sl = None THEN 0 ELSE opt.sl) ELSE lo
         /\ pc' = "after" /\ UNCHANGED <<file, opt, out, err>>

After == /\ pc = "after"
         /\ IF ~opt.sa THEN pc' = "before" /\ UNCHANGED <<text, startline, err>>
            ELSE LET i == First(text, "S") IN
                 IF i = 0 THEN pc' = "error" /\ err' = "start-after" /\ UNCHANGED <<text, startline>>
                 ELSE /\ startline' = startline + (IF DevCharCount THEN i ELSE CountLF(text, i))
                      /\ text' = SubSeq(text, i + 1, Len(text))
                      /\ pc' = "before" /\ UNCHANGED err
         /\ UNCHANGED <<file, opt, out>>

Before == /\ pc = "before"
          /\ IF ~opt.eb THEN pc' = "render" /\ UNCHANGED <<text, err>>
             ELSE LET i == First(text, "E") IN
                  IF i = 0 THEN pc' = "error" /\ err' = "end-before" /\ UNCHANGED text
                  ELSE text' = SubSeq(text, 1, i - 1) /\ pc' = "render" /\ UNCHANGED err
          /\ UNCHANGED <<file, opt, startline, out>>

RECURSIVE Rows(_)
Rows(t) == LET i == First(t, "LF") IN
           IF i = 0 THEN <<t>> ELSE <<SubSeq(t, 1, i - 1)>> \o Rows(SubSeq(t, i + 1, Len(t)))
Render == /\ pc = "render"
          /\ LET rs == Rows(text) IN
             out' = [r \in 1..Len(rs) |-> [items |-> rs[r], rep |-> startline + r + (IF DevPlusOne THEN 1 ELSE 0)]]
          /\ pc' = "done" /\ UNCHANGED <<file, opt, text, startline, err>>

Next == Slice \/ After \/ Before \/ Render
Spec == Init /\ [][Next]_vars
Done == pc \in {"done", "error"}

(************************************ S ************************************************)
LineTrue == pc = "done" => \A r \in 1..Len(out) : \A i \in 1..Len(out[r].items) : out[r].items[i].ln = out[r].rep
(* the specified selection, written on positions of the sliced text *)
Base == LET n == Len(file) IN Flat(SubSeq(file, Lo(n, opt.sl) + 1, Hi(n, opt.el)), Lo(n, opt.sl) + 1)
A == IF opt.sa THEN First(Base, "S") ELSE 0                                   \* last position dropped at the front
MissingA == opt.sa /\ First(Base, "S") = 0
Rest == SubSeq(Base, A + 1, Len(Base))
MissingB == opt.eb /\ First(Rest, "E") = 0
Sel == IF opt.eb THEN SubSeq(Rest, 1, First(Rest, "E") - 1) ELSE Rest
RECURSIVE Join(_)
Join(rs) == IF rs = <<>> THEN <<>> ELSE rs[1] \o (IF Len(rs) > 1 THEN <<"LF">> ELSE <<>>) \o Join(Tail(rs))
Its(t) == [i \in 1..Len(t) |-> t[i].it]
Content == /\ pc = "done"  => ~MissingA /\ ~MissingB /\ Join([r \in 1..Len(out) |-> Its(out[r].items)]) = Its(Sel)
           /\ pc = "error" => (IF err = "start-after" THEN MissingA ELSE ~MissingA /\ MissingB) /\ out = <<>>
(* line numbers grow by one per row *)
Consecutive == pc = "done" => \A r \in 1..(Len(out) - 1) : out[r + 1].rep = out[r].rep + 1

Emit == Done => PrintT(ToJson([file |-> file, sl |-> opt.sl, el |-> opt.el, sa |-> opt.sa, eb |-> opt.eb,
                               err |-> err, out |-> out]))
=============================================================================
