----------------------------- MODULE Sections -----------------------------
(* C05 -- heading levels determine section nesting; nested headings never make sections *)
(*                                                                                      *)
(* Input: a sequence of items                                                           *)
(*    <<"h", L>>            heading of level L at document level                         *)
(*    <<"c", kind, L>>      a container (quote / item / note directive) holding heading L *)
(*    <<"p">>               a paragraph                                                  *)
(*    <<"inc", off, Ls>>    {include} of a file with headings Ls and :heading-offset: off *)
(* flattened into micro events, one per render call.                                     *)
(*                                                                                      *)
(* M: the renderer's registers -- open = _level_to_section, hoff = _heading_offset,       *)
(*    cur = current_node (0 = document, n = section of micro event n, -1 = a container,   *)
(*    -2 = the temp_root_node of a match_titles directive),                               *)
(*    saved = what current_node_context / nested_render_text restore on exit.             *)
(* S: DeclParent -- written from the property statement only.                             *)
EXTENDS Naturals, Integers, Sequences, FiniteSets, TLC, Json

CONSTANTS MaxLen,        \* items per document
          Levels,        \* heading levels used for document-level headings
          CLevels,       \* levels of headings inside containers
          Kinds,         \* container kinds
          Incs,          \* include shapes: set of <<off, Ls>>
          WithPara,      \* BOOLEAN: paragraphs in the alphabet
          WithNestedInc, \* BOOLEAN: includes nested in included files in the alphabet
          DevPruneOff,   \* mutant switch: deeper sections pruned with <= L+1 instead of <= L
          DevMatchTitles \* as-built (open finding): in the body of a directive that parses with match_titles=True
                         \* (Sphinx's only / nested_parse_with_titles; kind "titles") a heading DOES open a section,
                         \* attached to the open sections outside the directive; the level map is restored at its end

IncsSmall == {<<0, <<1>>>>, <<1, <<1, 2>>>>, <<2, <<2, 1>>>>}
(* an included file that itself includes a file: <<outer offset, inner offset, level of the inner file's heading, level of a   *)
(* heading of the outer file after the inner include>>                                                                        *)
IncsNested == {<<1, 0, 1, 2>>, <<2, 1, 1, 1>>, <<0, 2, 2, 1>>, <<1, 1, 2, 3>>}
(* offsets that push a heading to level 10 and beyond (levels are numbers, not digits) *)
IncsDeep  == {<<5, <<5, 6>>>>, <<4, <<6, 5>>>>, <<6, <<4, 1>>>>}
IncsMore  == IncsSmall \cup {<<1, <<3>>>>, <<0, <<2, 2>>>>, <<3, <<1, 1>>>>}
NoIncs    == {}
AllKinds  == {"quote", "item", "note"}
TitleKinds == {"quote", "note", "titles"}

Items == {<<"h", L>> : L \in Levels}
         \cup {<<"c", k, L>> : k \in Kinds, L \in CLevels}
         \cup {<<"inc", i[1], i[2]>> : i \in Incs}
         \cup (IF WithNestedInc THEN {<<"incn", i[1], i[2], i[3], i[4]>> : i \in IncsNested} ELSE {})
         \cup (IF WithPara THEN {<<"p">>} ELSE {})

RECURSIVE Flatten(_)
Flatten(its) ==
  IF its = <<>> THEN <<>>
  ELSE LET it == Head(its) IN
       (CASE it[1] = "h"   -> << <<"h", it[2]>> >>
          [] it[1] = "p"   -> << <<"p">> >>
          [] it[1] = "c"   -> << <<"open", it[2]>>, <<"h", it[3]>>, <<"close">> >>
          [] it[1] = "inc" -> << <<"enter", it[2]>> >> \o [x \in 1..Len(it[3]) |-> <<"h", it[3][x]>>]
                              \o << <<"exit">> >>
          [] it[1] = "incn" -> << <<"enter", it[2]>>, <<"enter", it[3]>>, <<"h", it[4]>>, <<"exit">>, <<"h", it[5]>>, <<"exit">> >>)
       \o Flatten(Tail(its))

VARIABLES items, ev, pos, open, hoff, cur, saved, res, warns
vars == <<items, ev, pos, open, hoff, cur, saved, res, warns>>
(* res[n] = result of micro event n: <<"section", parent>> | <<"rubric", level>> |        *)
(*          <<"para", parent>> | <<"-">>                                                  *)

Init == /\ items \in UNION {[1..n -> Items] : n \in 0..MaxLen}
        /\ ev = Flatten(items)
        /\ pos = 1 /\ open = (0 :> 0) /\ hoff = 0 /\ cur = 0 /\ saved = <<>>
        /\ res = <<>> /\ warns = {}

MaxOf(S) == CHOOSE x \in S : \A y \in S : y <= x
E == ev[pos]
Adv == pos' = pos + 1 /\ UNCHANGED <<items, ev>>

(* render_heading when current_node is the document or a section *)
HeadingSection ==
  /\ pos <= Len(ev) /\ E[1] = "h" /\ (cur >= 0 \/ cur = -2)
  /\ LET L  == E[2] + hoff
         pl == MaxOf({l \in DOMAIN open : l < L})           \* closest open lower level
         keep == IF DevPruneOff THEN L + 1 ELSE L
     IN /\ res'   = Append(res, <<"section", open[pl]>>)
        /\ warns' = IF pl + 1 # L THEN warns \cup {pos} ELSE warns
        /\ open'  = [l \in {x \in DOMAIN open : x <= keep} \cup {L} |-> IF l = L THEN pos ELSE open[l]]
        /\ cur'   = pos                                      \* not restored: later blocks go inside
  /\ Adv /\ UNCHANGED <<hoff, saved>>

(* render_heading anywhere else: a rubric recording its level *)
HeadingRubric ==
  /\ pos <= Len(ev) /\ E[1] = "h" /\ cur = -1
  /\ res' = Append(res, <<"rubric", E[2] + hoff>>)
  /\ Adv /\ UNCHANGED <<open, hoff, cur, saved, warns>>

Para == /\ pos <= Len(ev) /\ E[1] = "p"
        /\ res' = Append(res, <<"para", IF cur = -2 THEN -1 ELSE cur>>)
        /\ Adv /\ UNCHANGED <<open, hoff, cur, saved, warns>>

(* current_node_context(container, append=True); a directive body is rendered by        *)
(* nested_render_text with its default heading_offset = 0, a quote / list item by the    *)
(* same render pass (offset unchanged)                                                   *)
OpenC == /\ pos <= Len(ev) /\ E[1] = "open"
         /\ IF E[2] = "titles" /\ DevMatchTitles
            THEN saved' = Append(saved, <<"titles", cur, hoff, open>>) /\ cur' = -2     \* temp_root_node = the directive's node
            ELSE saved' = Append(saved, <<"cur", cur, hoff>>) /\ cur' = -1
         /\ hoff' = IF E[2] \in {"note", "titles"} THEN 0 ELSE hoff
         /\ res' = Append(res, <<"-">>)
         /\ Adv /\ UNCHANGED <<open, warns>>
CloseC == /\ pos <= Len(ev) /\ E[1] = "close"
          /\ cur' = saved[Len(saved)][2] /\ hoff' = saved[Len(saved)][3]
          /\ saved' = SubSeq(saved, 1, Len(saved) - 1)
          /\ res' = Append(res, <<"-">>)
          /\ open' = IF saved[Len(saved)][1] = "titles" THEN saved[Len(saved)][4] ELSE open    \* _level_to_section restored
          /\ Adv /\ UNCHANGED warns

(* nested_render_text(heading_offset = off) for an include: only the offset is saved *)
EnterInc == /\ pos <= Len(ev) /\ E[1] = "enter"
            /\ saved' = Append(saved, <<"hoff", hoff>>) /\ hoff' = E[2]
            /\ res' = Append(res, <<"-">>)
            /\ Adv /\ UNCHANGED <<open, cur, warns>>
ExitInc == /\ pos <= Len(ev) /\ E[1] = "exit"
           /\ hoff' = saved[Len(saved)][2] /\ saved' = SubSeq(saved, 1, Len(saved) - 1)
           /\ res' = Append(res, <<"-">>)
           /\ Adv /\ UNCHANGED <<open, cur, warns>>

Next == HeadingSection \/ HeadingRubric \/ Para \/ OpenC \/ CloseC \/ EnterInc \/ ExitInc
Spec == Init /\ [][Next]_vars

Done == pos > Len(ev)

(************************************ S ************************************************)
(* effective level of micro event n if it is a document-level heading, else 0 *)
RECURSIVE OffStack(_), DepthAt(_)
(* the offsets of the include directives that are open at micro event n, outermost first: a heading is shifted by the *)
(* offset of ITS OWN include directive (the innermost one); leaving an include returns to the enclosing one's         *)
OffStack(n) == IF n = 0 THEN <<>>
               ELSE IF ev[n][1] = "enter" THEN Append(OffStack(n - 1), ev[n][2])
               ELSE IF ev[n][1] = "exit" THEN SubSeq(OffStack(n - 1), 1, Len(OffStack(n - 1)) - 1)
               ELSE OffStack(n - 1)
OffAt(n) == LET st == OffStack(n) IN IF st = <<>> THEN 0 ELSE st[Len(st)]
DepthAt(n) == IF n = 0 THEN 0
              ELSE IF ev[n][1] = "open" THEN DepthAt(n - 1) + 1
              ELSE IF ev[n][1] = "close" THEN DepthAt(n - 1) - 1 ELSE DepthAt(n - 1)
IsTopHeading(n) == ev[n][1] = "h" /\ DepthAt(n) = 0
Lvl(n) == ev[n][2] + OffAt(n)

(* "a heading of level L becomes a child of the closest preceding still-open heading of   *)
(*  lower level (or of the document)": still open = not followed by a heading of the same *)
(*  or a shallower level                                                                  *)
DeclParent(n) ==
  LET C == {j \in 1..(n - 1) : /\ IsTopHeading(j) /\ Lvl(j) < Lvl(n)
                               /\ \A k \in (j + 1)..(n - 1) : IsTopHeading(k) => Lvl(k) > Lvl(j)}
  IN IF C = {} THEN 0 ELSE MaxOf(C)
ParentLevel(n) == IF DeclParent(n) = 0 THEN 0 ELSE Lvl(DeclParent(n))
LastTop(n) == LET C == {j \in 1..(n - 1) : IsTopHeading(j)} IN IF C = {} THEN 0 ELSE MaxOf(C)

StructureOf(r) == \A n \in 1..Len(r) :
  /\ (IsTopHeading(n) => r[n] = <<"section", DeclParent(n)>>)
  /\ (ev[n][1] = "h" /\ DepthAt(n) > 0 =>              \* "records its level": the written level,
        /\ Len(r[n]) = 2 /\ r[n][1] = "rubric"           \* or that plus the include's offset
        /\ r[n][2] \in {ev[n][2], Lvl(n)})
  /\ (ev[n][1] = "p" => r[n] = <<"para", IF DepthAt(n) > 0 THEN -1 ELSE LastTop(n)>>)
WarnSet == {n \in 1..Len(ev) : IsTopHeading(n) /\ Lvl(n) > ParentLevel(n) + 1}
Structure == StructureOf(res)
Warnings  == Done => warns = WarnSet
Restored  == Done => hoff = 0 /\ saved = <<>>
(* open = exactly the still-open headings *)
OpenMap   == \A l \in DOMAIN open \ {0} :
               /\ IsTopHeading(open[l]) /\ Lvl(open[l]) = l
               /\ \A k \in (open[l] + 1)..(pos - 1) : IsTopHeading(k) => Lvl(k) > l

Emit == Done => PrintT(ToJson([ev |-> ev, res |-> res, warns |-> warns]))
=============================================================================
