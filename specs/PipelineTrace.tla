----------------------------- MODULE PipelineTrace -----------------------------
(* Recorded runs of docutils' Transformer during a real publish: {id, order: [names]} = the   *)
(* transforms in the order they were applied.  M schedules the registered transforms; the     *)
(* verdict compares M's schedule with the recorded one and evaluates S on it.                 *)
EXTENDS Pipeline, IOUtils

Traces == ndJsonDeserialize(IOEnv.TRACE_FILE)
VARIABLE tid
tvars == <<vars, tid>>
T == Traces[tid]
TraceInit == tid \in 1..Len(Traces) /\ Init
TraceNext == Next /\ UNCHANGED tid
TraceSpec == TraceInit /\ [][TraceNext]_tvars

RPos(n) == CHOOSE i \in 1..Len(T.order) : T.order[i] = n
InOrder(n) == \E i \in 1..Len(T.order) : T.order[i] = n
Verdict == Done => PrintT(ToJson([id |-> T.id,
                                  schedule |-> (applied = T.order),
                                  needs |-> (\A p \in Needs : (InOrder(p[1]) /\ InOrder(p[2])) => RPos(p[1]) < RPos(p[2]))]))
=============================================================================
