----------------------------- MODULE SecurityTrace -----------------------------
(* V leg of C20: recorded renders of random mixtures.  {id, doc: [[kind, wrappers]], rawOn,  *)
(* fileOn, per: [{raw, ins, warn, read, html, marker}]} -- per construct: did raw nodes       *)
(* survive, was file content inserted, was a warning attributed to it, was its file opened,   *)
(* did the payload reach the html5 output, how often does the following marker occur.         *)
(* M's actions run on the logged document (wrappers do not change the model's answer); the    *)
(* verdict lists the constructs whose observation contradicts M / S.                          *)
EXTENDS Security, IOUtils

Traces == ndJsonDeserialize(IOEnv.TRACE_FILE)
VARIABLE tid
tvars == <<vars, tid>>
T == Traces[tid]

TraceInit == /\ tid \in 1..Len(Traces)
             /\ doc = Traces[tid].doc /\ rawOn = Traces[tid].rawOn /\ fileOn = Traces[tid].fileOn
             /\ pos = 1 /\ tree = <<>> /\ reads = {} /\ pc = "render"
TraceNext == Next /\ UNCHANGED tid
TraceSpec == TraceInit /\ [][TraceNext]_tvars

Has(k, c) == \E n \in 1..Len(tree) : tree[n].k = k /\ tree[n].c = c
Exp(c) == [raw |-> Has("raw", c), ins |-> Has("ins", c), warn |-> Has("warn", c), read |-> c \in reads]
BadAt(c) == LET o == T.per[c] e == Exp(c) kind == doc[c][1] IN
            \/ o.marker # 1
            \/ o.raw # e.raw
            \/ (~e.raw /\ o.html)
            \/ (kind # "raw_file" /\ o.ins # e.ins)
            \/ (kind = "raw_file" /\ ~e.raw /\ o.ins)
            \/ (o.read /\ ~e.read)
            \/ (e.warn /\ ~o.warn)
Verdict == Done => PrintT(ToJson([id |-> T.id, bad |-> {c \in 1..Len(doc) : BadAt(c)},
                                  exp |-> [c \in 1..Len(doc) |-> Exp(c)]]))
=============================================================================
