----------------------------- MODULE OptTok -----------------------------
(* C07 -- options_to_items as a token-by-token state machine (M) over OptTokOps.          *)
(* One action per token that _tokenize yields (Key, Colon, Value/NoValue) plus Finish;    *)
(* _to_tokens' pairing (a key without value gets "") is folded into the actions.          *)
(* S (what TLC checks on M for every text in the scope):                                  *)
(*   Progress   the stream never moves back and every key/colon/value cycle consumes >= 1  *)
(*   InBuffer   the position never passes the sentinel                                    *)
(*   ErrInside  an error mark lies inside the text (0 <= index <= Len(text))              *)
(*   OnlyOwnErr the run ends in "ok" or "err" (TokenizeError), never in "raise"           *)
(*   Terminates <>(st # "run")                                                            *)
(* The agreement with YAML on the subset is decided on the exported behaviours: the       *)
(* harness compares the implementation with M and M with PyYAML's event stream.           *)
EXTENDS OptTokOps, TLC, Json, FiniteSets

CONSTANTS Prefix, Suffix,   \* fixed code point sequences around the enumerated part
          Sigma, MaxLen,    \* enumerated part: all strings <= MaxLen over Sigma
          DevEscapeOverflow \* as-built (before the fix): chr() of a code above 0x10FFFF raises

Empty == <<>>
Strs(n) == UNION {[1..k -> Sigma] : k \in 0..n}

VARIABLES text, i, phase, items, pkey, st, err, hc
vars == <<text, i, phase, items, pkey, st, err, hc>>
b == text   \* the buffer: the text followed by the "\0" sentinel (kept in the state so that it is built once)

Init == /\ text \in {Buf(Prefix \o s \o Suffix) : s \in Strs(MaxLen)}
        /\ i = 1 /\ phase = "key" /\ items = <<>> /\ pkey = <<>> /\ st = "run" /\ err = 0 /\ hc = FALSE

Fail(j) == /\ st' = "err" /\ err' = j /\ i' = j /\ UNCHANGED <<text, phase, items, pkey>>
Raise(j) == /\ st' = "raise" /\ err' = j /\ i' = j /\ UNCHANGED <<text, phase, items, pkey>>

(* end of stream reached while looking for a key *)
Finish == /\ st = "run" /\ phase = "key" /\ b[ToNext(b, i)] = NUL
          /\ st' = "ok" /\ i' = ToNext(b, i) /\ hc' = (hc \/ SeesComment(b, i))
          /\ UNCHANGED <<text, phase, items, pkey, err>>

Key == /\ st = "run" /\ phase = "key"
       /\ LET j == ToNext(b, i) IN
          /\ b[j] # NUL
          /\ hc' = (hc \/ SeesComment(b, i)
                        \/ (Col(b, j) = 0 /\ b[j] \notin {SQ, DQ} /\ Plain(b, j, TRUE).c))
          /\ IF Col(b, j) # 0 THEN Fail(j)
             ELSE IF b[j] \in {SQ, DQ}
                  THEN LET r == Flow(b, j) IN
                       IF r.e # 0 THEN (IF r.of /\ DevEscapeOverflow THEN Raise(r.e) ELSE Fail(r.e))
                       ELSE /\ pkey' = r.v /\ i' = r.i /\ phase' = "colon"
                            /\ UNCHANGED <<text, items, st, err>>
                  ELSE LET r == Plain(b, j, TRUE) IN
                       /\ pkey' = r.v /\ i' = r.i /\ phase' = "colon"
                       /\ UNCHANGED <<text, items, st, err>>

Colon == /\ st = "run" /\ phase = "colon"
         /\ LET j == ToNext(b, i) IN
            /\ hc' = (hc \/ SeesComment(b, i))
            /\ IF b[j] # COLON THEN Fail(j)
               ELSE /\ i' = j + 1 /\ phase' = "value" /\ UNCHANGED <<text, items, pkey, st, err>>

Value == /\ st = "run" /\ phase = "value"
         /\ LET j == ToNext(b, i)
                put(v, k) == /\ items' = Append(items, <<pkey, v>>) /\ i' = k /\ phase' = "key"
                             /\ UNCHANGED <<text, pkey, st, err>>
            IN
            IF Col(b, j) = 0 THEN put(<<>>, j) /\ hc' = (hc \/ SeesComment(b, i))
            ELSE IF b[j] \in {BAR, GT}
                 THEN LET r == Block(b, j) IN
                      /\ hc' = (hc \/ SeesComment(b, i) \/ r.c)
                      /\ IF r.e # 0 THEN Fail(r.e) ELSE put(r.v, r.i)
            ELSE IF b[j] \in {SQ, DQ}
                 THEN LET r == Flow(b, j) IN
                      /\ hc' = (hc \/ SeesComment(b, i))
                      /\ IF r.e # 0 THEN (IF r.of /\ DevEscapeOverflow THEN Raise(r.e) ELSE Fail(r.e))
                         ELSE put(r.v, r.i)
            ELSE LET r == Plain(b, j, FALSE) IN
                 /\ hc' = (hc \/ SeesComment(b, i) \/ r.c)
                 /\ put(r.v, r.i)

Next == Finish \/ Key \/ Colon \/ Value
Spec == Init /\ [][Next]_vars /\ WF_vars(Next)

Done == st # "run"
(* pairs returned by options_to_items (a pending key at the end gets "") *)
Result == IF phase = "key" THEN items ELSE Append(items, <<pkey, <<>>>>)

(************************************ S ************************************************)
InBuffer   == i \in 1..Len(b)
Progress   == [][/\ i' >= i                                      \* the stream never moves back
                  /\ (phase = "colon" /\ st' = "run" => i' > i)   \* every loop iteration consumes its ':'
                  /\ (st' = "run" => phase' # phase)]_vars
ErrInside  == st \in {"err", "raise"} => err \in 1..Len(b)
OnlyOwnErr == st \in {"run", "ok", "err"}
Terminates == <>Done
(* a run that ended normally consumed the whole text *)
Consumed   == st = "ok" => b[i] = NUL

Emit == Done => PrintT(ToJson([t |-> SubSeq(text, 1, Len(text) - 1), st |-> st,
                               r |-> IF st = "ok" THEN Result ELSE <<>>,
                               e |-> IF st = "ok" THEN <<>> ELSE <<err - 1, Line(b, err), Col(b, err)>>,
                               hc |-> hc]))
=============================================================================
