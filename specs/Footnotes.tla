----------------------------- MODULE Footnotes -----------------------------
(* C11 -- footnotes are numbered, linked and collected consistently.                       *)
(* A document is an arrangement of top-level blocks                                         *)
(*   <<"ref", label>>   a paragraph containing the reference [^label]                       *)
(*   <<"def", label>>   the definition  [^label]: text                                      *)
(*   <<"hr", "-">>      a thematic break written by the author                              *)
(*   <<"head", label>>  a heading whose title (hence docutils name) is the label            *)
(*   <<"qdef", label>>  a block quote that holds the definition; <<"nref", label>> a note    *)
(*                      directive whose body holds the reference (containers: the registries *)
(*                      are the document's, whatever the nesting)                            *)
(*   <<"dref", label>>  a second paragraph INSIDE the body of the definition written just     *)
(*                      before it (always a <<"def", _>> event), containing [^label]: a       *)
(*                      reference that is no top-level block; if that definition is a dropped  *)
(*                      duplicate its text, and this reference with it, is not in the document *)
(* labels are strings; the numeric ones ("1", "2", ...) are manually numbered.              *)
(* M: the render actions (render_footnote_ref / render_footnote_reference with its          *)
(* duplicate check against document.nameids) and then the transform chain in priority       *)
(* order: SortFootnotes, docutils' Footnotes numbering, reference resolution,               *)
(* UnreferencedFootnotesDetector, CollectFootnotes.  S: the declarative clauses below.      *)
EXTENDS Naturals, Sequences, FiniteSets, TLC, Json

CONSTANTS Labels, MaxEv, WithHr, WithHead,
          WithNested      \* also <<"qdef", l>>: the definition inside a block quote, <<"nref", l>>: the reference inside a note directive

NumOf(l) == CASE l = "1" -> 1 [] l = "2" -> 2 [] l = "3" -> 3 [] l = "4" -> 4 [] l = "5" -> 5
              [] l = "6" -> 6 [] l = "7" -> 7 [] l = "8" -> 8 [] l = "9" -> 9 [] l = "10" -> 10
              [] l = "11" -> 11 [] l = "12" -> 12 [] OTHER -> 0
IsNum(l) == NumOf(l) > 0
EvVocab == {<<k, l>> : k \in {"ref", "def"}, l \in Labels} \cup (IF WithHr THEN {<<"hr", "-">>} ELSE {})
           \cup (IF WithHead THEN {<<"head", l>> : l \in {x \in Labels : ~IsNum(x)}} ELSE {})
           \cup (IF WithNested THEN {<<k, l>> : k \in {"qdef", "nref", "dref", "ddef"}, l \in Labels} ELSE {})
IsRefEv(e) == e[1] \in {"ref", "nref"}
IsDefEv(e) == e[1] \in {"def", "qdef", "ddef"}
(* "ddef": a definition written INSIDE the body of the definition just before it (a footnote of a footnote) *)
WellPlaced(s) == \A k \in 1..Len(s) : s[k][1] \in {"dref", "ddef"} => (k > 1 /\ s[k - 1][1] = "def")
Arrangements == {s \in UNION {[1..n -> EvVocab] : n \in 0..MaxEv} : WellPlaced(s)}

VARIABLES evs, sort, trans,     \* the input: arrangement, footnote_sort, footnote_transition
          pc, pos,
          defs,      \* accepted definitions, document order: Seq of [l, at]
          refs,      \* references, document order: Seq of [l, at]
          dupw,      \* positions of dropped duplicate definitions (one warning node each)
          autos,     \* document.autofootnotes: Seq of indices into defs
          num,       \* number assigned to each definition (Seq over defs, 0 = not yet)
          unrefw,    \* definitions reported as unreferenced
          final      \* top-level children after the transforms: <<"p"|"w", at>> | <<"f", def>> | <<"t">>
vars == <<evs, sort, trans, pc, pos, defs, refs, dupw, autos, num, unrefw, final>>

Init == /\ evs \in Arrangements /\ sort \in BOOLEAN /\ trans \in BOOLEAN
        /\ pc = "render" /\ pos = 1 /\ defs = <<>> /\ refs = <<>> /\ dupw = {} /\ autos = <<>>
        /\ num = <<>> /\ unrefw = {} /\ final = <<>>

DefLabels == {defs[k].l : k \in 1..Len(defs)}
DefOf(l) == CHOOSE k \in 1..Len(defs) : defs[k].l = l
RefsTo(l) == {r \in 1..Len(refs) : refs[r].l = l}

(* ---- render ---- *)
RenderRef == /\ pc = "render" /\ pos <= Len(evs) /\ IsRefEv(evs[pos])
             /\ refs' = Append(refs, [l |-> evs[pos][2], at |-> pos])
             /\ pos' = pos + 1
             /\ UNCHANGED <<evs, sort, trans, pc, defs, dupw, autos, num, unrefw, final>>
(* a reference inside a definition's body: registered like any other, unless the body was dropped *)
RenderDRef == /\ pc = "render" /\ pos <= Len(evs) /\ evs[pos][1] = "dref"
              /\ refs' = IF (pos - 1) \in dupw THEN refs ELSE Append(refs, [l |-> evs[pos][2], at |-> pos])
              /\ pos' = pos + 1
              /\ UNCHANGED <<evs, sort, trans, pc, defs, dupw, autos, num, unrefw, final>>
Ghost(k) == evs[k][1] = "ddef" /\ (k - 1) \in dupw          \* written inside a body that was dropped
RenderDef == /\ pc = "render" /\ pos <= Len(evs) /\ IsDefEv(evs[pos])
             /\ IF Ghost(pos) THEN UNCHANGED <<defs, autos, num, dupw>>
                ELSE IF evs[pos][2] \in DefLabels                    \* target in document.nameids
                THEN dupw' = dupw \cup {pos} /\ UNCHANGED <<defs, autos, num>>
                ELSE /\ defs' = Append(defs, [l |-> evs[pos][2], at |-> pos])
                     /\ autos' = IF IsNum(evs[pos][2]) THEN autos ELSE Append(autos, Len(defs) + 1)
                     /\ num' = Append(num, NumOf(evs[pos][2]))  \* manual numbers are fixed at once
                     /\ UNCHANGED dupw
             /\ pos' = pos + 1
             /\ UNCHANGED <<evs, sort, trans, pc, refs, unrefw, final>>
RenderOther == /\ pc = "render" /\ pos <= Len(evs) /\ evs[pos][1] \in {"hr", "head"}
               /\ pos' = pos + 1            \* a heading with the same name is no footnote: the registries are untouched
               /\ UNCHANGED <<evs, sort, trans, pc, defs, refs, dupw, autos, num, unrefw, final>>
RenderEnd == /\ pc = "render" /\ pos > Len(evs) /\ pc' = "sort"
             /\ UNCHANGED <<evs, sort, trans, pos, defs, refs, dupw, autos, num, unrefw, final>>

(* ---- SortFootnotes: autofootnotes by the position of their first (auto) reference ---- *)
FirstRef(d) == LET rs == {refs[r].at : r \in RefsTo(defs[d].l)} IN
               IF rs = {} THEN 0 ELSE CHOOSE x \in rs : \A y \in rs : x <= y
RECURSIVE OrderByFirstRef(_)
OrderByFirstRef(S) == IF S = {} THEN <<>>
                      ELSE LET m == CHOOSE x \in S : \A y \in S : FirstRef(x) <= FirstRef(y)
                           IN <<m>> \o OrderByFirstRef(S \ {m})
SortStep == /\ pc = "sort"
            /\ autos' = IF ~sort THEN autos
                        ELSE LET A == {autos[k] : k \in 1..Len(autos)} IN
                             OrderByFirstRef({d \in A : FirstRef(d) # 0}) \o SelectSeq(autos, LAMBDA d : FirstRef(d) = 0)
            /\ pc' = "number"
            /\ UNCHANGED <<evs, sort, trans, pos, defs, refs, dupw, num, unrefw, final>>

(* ---- docutils Footnotes.number_footnotes: next number whose string is not a known name ---- *)
Taken == {NumOf(l) : l \in DefLabels} \ {0}
RECURSIVE NextFree(_)
NextFree(n) == IF n \in Taken THEN NextFree(n + 1) ELSE n
RECURSIVE Assign(_, _, _)
Assign(todo, start, acc) == IF todo = <<>> THEN acc
                            ELSE LET n == NextFree(start) IN Assign(Tail(todo), n + 1, [acc EXCEPT ![Head(todo)] = n])
NumberStep == /\ pc = "number"
              /\ num' = Assign(autos, 1, num)
              /\ pc' = "detect"
              /\ UNCHANGED <<evs, sort, trans, pos, defs, refs, dupw, autos, unrefw, final>>

DetectStep == /\ pc = "detect"
              /\ unrefw' = {d \in 1..Len(defs) : RefsTo(defs[d].l) = {}}
              /\ pc' = "collect"
              /\ UNCHANGED <<evs, sort, trans, pos, defs, refs, dupw, autos, num, final>>

(* ---- CollectFootnotes ---- *)
Original == [k \in 1..Len(evs) |->
               IF evs[k][1] = "ref" THEN <<"p", k>>
               ELSE IF evs[k][1] = "nref" THEN <<"n", k>>
               ELSE IF evs[k][1] = "dref" THEN <<"x", k>>                  \* no block of its own: it travels with its definition
               ELSE IF evs[k][1] = "ddef" THEN <<"x", k>>                  \* written inside another definition: no top-level block where it stands
               ELSE IF evs[k][1] = "qdef" THEN <<"q", k, IF k \in dupw THEN "warn" ELSE "fn">>     \* the quote and what it holds
               ELSE IF evs[k][1] = "hr" THEN <<"h", k>>
               ELSE IF evs[k][1] = "head" THEN <<"s", k>>
               ELSE IF k \in dupw THEN <<"w", k>>
               ELSE <<"f", CHOOSE d \in 1..Len(defs) : defs[d].at = k>>]
RECURSIVE OrderByNum(_)
OrderByNum(S) == IF S = {} THEN <<>>
                 ELSE LET m == CHOOSE x \in S : \A y \in S : num[x] <= num[y] IN <<m>> \o OrderByNum(S \ {m})
CollectStep == /\ pc = "collect"
               /\ final' = IF ~sort THEN Original
                           ELSE LET moved == [k \in 1..Len(Original) |-> IF Original[k][1] = "q" /\ Original[k][3] = "fn"
                                                                           THEN <<"q", Original[k][2], "empty">> ELSE Original[k]]   \* the footnote leaves its quote
                                    others == SelectSeq(moved, LAMBDA it : it[1] \notin {"f", "x"})
                                    fns == OrderByNum(1..Len(defs))
                                IN others
                                   \o (IF trans /\ defs # <<>> /\ others # <<>> /\ others[Len(others)][1] # "h"
                                       THEN <<<<"t">>>> ELSE <<>>)                   \* never next to the author's own break
                                   \o [k \in 1..Len(fns) |-> <<"f", fns[k]>>]
               /\ pc' = "done"
               /\ UNCHANGED <<evs, sort, trans, pos, defs, refs, dupw, autos, num, unrefw>>

Next == RenderRef \/ RenderDRef \/ RenderDef \/ RenderOther \/ RenderEnd \/ SortStep \/ NumberStep \/ DetectStep \/ CollectStep
Spec == Init /\ [][Next]_vars /\ WF_vars(Next)
Done == pc = "done"

(* what each reference shows: <<definition index, number>> or <<0, 0>> when its label has no definition *)
RefView == [r \in 1..Len(refs) |->
              IF refs[r].l \in DefLabels THEN <<DefOf(refs[r].l), num[DefOf(refs[r].l)]>> ELSE <<0, 0>>]

(************************************ S ************************************************)
(* declaratively, from the arrangement alone *)
RECURSIVE SKept(_)
(* the definitions that are kept: the first of each label, among those that exist (a ddef exists iff its host is kept) *)
SExists(k) == evs[k][1] # "ddef" \/ SKept(k - 1)
SKept(k) == /\ IsDefEv(evs[k]) /\ SExists(k)
            /\ \A j \in 1..(k - 1) : ~(IsDefEv(evs[j]) /\ evs[j][2] = evs[k][2] /\ SExists(j))
SDefAt == {k \in 1..Len(evs) : SKept(k)}   \* (a heading is no definition)
SDupAt == {k \in 1..Len(evs) : IsDefEv(evs[k]) /\ SExists(k)} \ SDefAt
SRefAt(l) == {k \in 1..Len(evs) : evs[k][2] = l /\ (IsRefEv(evs[k]) \/ (evs[k][1] = "dref" /\ (k - 1) \in SDefAt))}
KeepFirst == Done => /\ {defs[d].at : d \in 1..Len(defs)} = SDefAt     \* first definition kept, no text lost
                     /\ dupw = SDupAt                                     \* exactly one warning per duplicate
LabelsDistinct == Done => \A a, c \in 1..Len(defs) : a # c => num[a] # num[c] /\ num[a] > 0
NumericKept == Done => \A d \in 1..Len(defs) : IsNum(defs[d].l) => num[d] = NumOf(defs[d].l)
(* with sorting: auto numbers follow the order of first reference, unreferenced ones last (definition order) *)
FirstRefOrder == (Done /\ sort) =>
  \A a, c \in 1..Len(defs) : (~IsNum(defs[a].l) /\ ~IsNum(defs[c].l) /\ a # c) =>
     LET fa == SRefAt(defs[a].l) fc == SRefAt(defs[c].l) IN
     /\ (fa # {} /\ fc = {}) => num[a] < num[c]
     /\ (fa # {} /\ fc # {} /\ (CHOOSE x \in fa : \A y \in fa : x <= y) < (CHOOSE x \in fc : \A y \in fc : x <= y)) => num[a] < num[c]
     /\ (fa = {} /\ fc = {} /\ a < c) => num[a] < num[c]
(* auto numbers are the least numbers not used manually *)
Compact == Done => LET autoN == {num[d] : d \in {d \in 1..Len(defs) : ~IsNum(defs[d].l)}} IN
                   \A n \in autoN : \A m \in 1..(n - 1) : m \in autoN \/ m \in Taken
Linked == Done => \A r \in 1..Len(refs) :
            IF refs[r].l \in DefLabels
            THEN RefView[r][1] = DefOf(refs[r].l) /\ RefView[r][2] = num[DefOf(refs[r].l)]
            ELSE RefView[r] = <<0, 0>>
Unreferenced == Done => unrefw = {d \in 1..Len(defs) : SRefAt(defs[d].l) = {}}
Collected == (Done /\ sort) =>
  LET nf == Len(defs)
      n == Len(final)
  IN /\ \A k \in (n - nf + 1)..n : final[k][1] = "f"                      \* all definitions at the end
     /\ \A k \in 1..(n - nf) : final[k][1] # "f"
     /\ \A j, k \in (n - nf + 1)..n : j < k => num[final[j][2]] < num[final[k][2]]   \* ascending labels
     /\ (trans /\ nf > 0 /\ n - nf > 0) => final[n - nf][1] \in {"t", "h"}          \* preceded by one transition when configured
     /\ Cardinality({k \in 1..n : final[k] = <<"t">>}) <= 1
     /\ (\E k \in 1..n : final[k] = <<"t">>) => (trans /\ final[n - nf] = <<"t">>)   \* only there, only when configured
     /\ \A k \in 1..(n - 1) : ~(final[k][1] \in {"t", "h"} /\ final[k + 1][1] \in {"t", "h"} /\ final[k + 1] = <<"t">>)   \* never adjacent to another
     /\ LET KA(sq) == [k \in 1..Len(sq) |-> <<sq[k][1], sq[k][2]>>] IN               \* every other block stays where it was
        KA(SelectSeq(final, LAMBDA it : it[1] \in {"p", "w", "h", "s", "n", "q"})) = KA(SelectSeq(Original, LAMBDA it : it[1] \notin {"f", "x"}))
     /\ \A k \in 1..n : final[k][1] = "q" => final[k][3] # "fn"                       \* no definition is left behind in a container
InPlace == (Done /\ ~sort) => final = Original
Visible(f) == SelectSeq(f, LAMBDA it : it[1] # "x")        \* the top-level blocks
Terminates == <>Done

Emit == Done => PrintT(ToJson([evs |-> evs, sort |-> sort, trans |-> trans,
                               defs |-> defs, num |-> num, refview |-> RefView,
                               backrefs |-> [d \in 1..Len(defs) |-> Cardinality(RefsTo(defs[d].l))],
                               dupw |-> dupw, unrefw |-> unrefw, final |-> Visible(final)]))
=============================================================================
