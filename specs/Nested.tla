----------------------------- MODULE Nested -----------------------------
(* C06 -- nested parsing is transparent: directive bodies, fences, include, substitution.   *)
(* A document is Pre . W(X) . Post: block sequences Pre, X, Post and a wrapper W around X.   *)
(* Blocks: <<"p">> <<"code">> <<"list">> <<"cdir">> (a colon-fenced directive)               *)
(*         <<"def", r>>  a reference definition  [r]: url                                    *)
(*         <<"use", r>>  a paragraph using it     [t][r]                                      *)
(*         <<"nuse", r>> the same inside its own directive body                               *)
(*         <<"fdef", f>> <<"fref", f>> footnote definition / reference                        *)
(*         <<"tgt", n>>  <<"lnk", n>>  target / link to it                                    *)
(* M: the markdown-it environment (reference definitions) is shared by the outer and the      *)
(* nested renders and filled in RENDER ORDER: a parse unit is tokenised completely (its own   *)
(* definitions first, then its inline text) before any directive body inside it is parsed.    *)
(* Footnotes and targets are resolved by document-level transforms.  Two runs of the same     *)
(* content are compared (self-composition): A = Pre . X . Post written in place,              *)
(* B = Pre . W(X) . Post.                                                                     *)
EXTENDS Naturals, Sequences, FiniteSets, TLC, Json

CONSTANTS Blocks, Wrappers, MaxPre, MaxX, MaxPost,
          DevRenderOrderEnv   \* as-built (open finding): definitions made inside nested text are not
                              \* visible to text that was tokenised earlier

Seqs(n) == UNION {[1..m -> Blocks] : m \in 0..n}
VARIABLES pre, x, post, w, pc, outA, outB
vars == <<pre, x, post, w, pc, outA, outB>>
Init == /\ pre \in Seqs(MaxPre) /\ x \in (Seqs(MaxX) \ {<<>>}) /\ post \in Seqs(MaxPost) /\ w \in Wrappers
        /\ pc = "A" /\ outA = <<>> /\ outB = <<>>

DefsOf(s) == {s[n][2] : n \in {n \in 1..Len(s) : s[n][1] = "def"}}
AllDefs == DefsOf(pre) \cup DefsOf(x) \cup DefsOf(post)
(* outcome of one block given the environment visible to it *)
Out(b, env) == IF b[1] \in {"use", "nuse"} THEN (IF b[2] \in env THEN "link" ELSE "literal")
               ELSE IF b[1] = "fref" THEN (IF \E n \in 1..Len(pre \o x \o post) : (pre \o x \o post)[n] = <<"fdef", b[2]>> THEN "footnote" ELSE "unresolved")
               ELSE IF b[1] = "lnk" THEN (IF Cardinality({n \in 1..Len(pre \o x \o post) : (pre \o x \o post)[n] = <<"tgt", b[2]>>}) = 1
                                          THEN "resolved" ELSE "missing")       \* (docutils drops a target name that is defined twice)
               ELSE "ok"
(* a unit rendered in render order: its direct uses see envAtParse; a nested use (own directive   *)
(* body) sees the environment accumulated when it is reached                                      *)
RECURSIVE Unit(_, _, _)
Unit(s, envParse, envNow) ==
  IF s = <<>> THEN <<>>
  ELSE <<Out(Head(s), IF Head(s)[1] = "nuse" THEN envNow ELSE envParse)>> \o Unit(Tail(s), envParse, envNow)

RunA == /\ pc = "A"
        /\ outA' = LET all == pre \o x \o post IN Unit(all, AllDefs, AllDefs)      \* one unit: every definition is known
        /\ pc' = "B" /\ UNCHANGED <<pre, x, post, w, outB>>
RunB == /\ pc = "B"
        /\ outB' = IF ~DevRenderOrderEnv THEN Unit(pre \o x \o post, AllDefs, AllDefs)     \* intended: the same nodes
                   ELSE LET outer == DefsOf(pre) \cup DefsOf(post)
                            inner == outer \cup DefsOf(x)
                        IN Unit(pre, outer, outer)            \* tokenised before X's definitions exist
                           \o Unit(x, inner, inner)           \* X's own unit: sees the outer definitions and its own
                           \o Unit(post, outer, inner)        \* outer text tokenised early; later nested bodies see X's
        /\ pc' = "done" /\ UNCHANGED <<pre, x, post, w, outA>>
Next == RunA \/ RunB
Spec == Init /\ [][Next]_vars /\ WF_vars(Next)
Done == pc = "done"

(************************************ S ************************************************)
XRange == (Len(pre) + 1)..(Len(pre) + Len(x))
(* the body of a directive renders into exactly the nodes the same Markdown produces at top level *)
Transparent == Done => \A n \in XRange : outB[n] = outA[n]
(* include / substitution: the same nodes as writing the text in place, definitions inside   *)
(* remaining usable from the rest of the document                                            *)
InPlace == (Done /\ w \in {"include", "substitution"}) => outB = outA
Terminates == <>Done
Emit == Done => PrintT(ToJson([pre |-> pre, x |-> x, post |-> post, w |-> w, outA |-> outA, outB |-> outB]))
=============================================================================
