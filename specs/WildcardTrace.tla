----------------------------- MODULE WildcardTrace -----------------------------
(* V leg of C19: recorded calls match_with_wildcard(name, pattern) -> bool, grouped by *)
(* pattern, validated by running M's own actions (Char, Finish) on the logged pattern  *)
(* and comparing every logged result with both M (RMatch) and S (SMatch).              *)
(* TRACE_FILE: ndjson of {id, p: [code points], obs: [{n: [code points], r: bool}]}    *)
EXTENDS Wildcard, IOUtils

Traces == ndJsonDeserialize(IOEnv.TRACE_FILE)
VARIABLE tid
tvars == <<vars, tid>>
T == Traces[tid]

TraceInit == /\ tid \in 1..Len(Traces)
             /\ pat = Traces[tid].p
             /\ i = 1 /\ bs = FALSE /\ re = <<>> /\ done = FALSE
TraceNext == (Char \/ Finish) /\ UNCHANGED tid
TraceSpec == TraceInit /\ [][TraceNext]_tvars

Verdict == done =>
  PrintT(ToJson([id |-> T.id,
                 mbad |-> {k \in 1..Len(T.obs) : RMatch(re, T.obs[k].n) # T.obs[k].r},
                 sbad |-> {k \in 1..Len(T.obs) : SMatch(pat, T.obs[k].n) # T.obs[k].r}]))
=============================================================================
