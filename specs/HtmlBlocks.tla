----------------------------- MODULE HtmlBlocks -----------------------------
(* C17 -- HTML blocks: verbatim pass-through, img / div.admonition = directives, GFM tag     *)
(* filter.  Three parts, selected by Part:                                                    *)
(*  "classify"  html_to_nodes' decision: a block is converted only if EVERY top-level element *)
(*              (white-space-only text stripped) is an <img> (html_image on) or a             *)
(*              <div class="admonition"> (html_admonition on); otherwise one raw node with    *)
(*              exactly the source text.                                                      *)
(*  "attr"      an attribute value travels through the generated option line ':key: value'    *)
(*              and the option tokenizer (OptTokOps, module composition).  Intended: the      *)
(*              value is carried over unchanged; as built (Dev_Unquoted, open finding, pinned  *)
(*              by the repository's html_to_nodes fixtures) it is written as a plain scalar.   *)
(*  "title"     which first child of a div.admonition is taken as its title: a <p>/<div> whose   *)
(*              class attribute has the TOKEN title or admonition-title (val = its class tokens) *)
(*  "filter"    the GFM disallowed-raw-HTML filter as a scanner over symbols                   *)
(*              "<" "/" "S" (a disallowed tag name) "s" (another name) " " ">" "x".            *)
EXTENDS OptTokOps, FiniteSets, TLC, Json

CONSTANTS Part,
          ElemKinds, MaxElems,          \* classify: top-level element kinds
          Sigma, MaxLen,                \* attr: value alphabet (code points); filter: symbol alphabet (strings)
          DevUnquoted,
          DevTitleSubstring     \* a seeded change: "title" is looked for as a substring of the class attribute

Strs(n) == UNION {[1..k -> Sigma] : k \in 0..n}
ElemSeqs == UNION {[1..k -> ElemKinds] : k \in 0..MaxElems}

VARIABLES elems, fimg, fadm,      \* classify
          val,                    \* attr / filter input
          pc, out
vars == <<elems, fimg, fadm, val, pc, out>>

Init == /\ pc = "start" /\ out = <<>>
        /\ IF Part = "classify" THEN elems \in ElemSeqs /\ fimg \in BOOLEAN /\ fadm \in BOOLEAN /\ val = <<>>
           ELSE elems = <<>> /\ fimg = FALSE /\ fadm = FALSE /\ val \in Strs(MaxLen)

(* ------------------------------------------------------------------ classify --------- *)
Stripped == SelectSeq(elems, LAMBDA e : e # "ws")
ConvertibleElem(e) == (fimg /\ e = "img") \/ (fadm /\ e = "admon")
Classify == /\ Part = "classify" /\ pc = "start"
            /\ out' = IF ~(fimg \/ fadm) THEN <<"raw">>                       \* no HTML extension: default_html
                      ELSE IF Stripped = <<>> THEN <<"raw">>
                      ELSE IF \A n \in 1..Len(Stripped) : ConvertibleElem(Stripped[n])
                           THEN [n \in 1..Len(Stripped) |-> IF Stripped[n] = "img" THEN "image" ELSE "admonition"]
                           ELSE <<"raw">>
            /\ pc' = "done" /\ UNCHANGED <<elems, fimg, fadm, val>>
(* S: anything that is not one of the recognised convertible forms reaches the output verbatim *)
SConvertible == (fimg \/ fadm) /\ Stripped # <<>> /\ \A n \in 1..Len(Stripped) : ConvertibleElem(Stripped[n])
PassThrough == (Part = "classify" /\ pc = "done") => (~SConvertible <=> out = <<"raw">>)
OneNodePerElement == (Part = "classify" /\ pc = "done" /\ SConvertible) => Len(out) = Len(Stripped)

(* ------------------------------------------------------------------ attr -------------- *)
(* the option line html_to_nodes writes for alt="val" *)
RECURSIVE JsonBody(_)
JsonBody(s) == IF s = <<>> THEN <<>>
               ELSE (CASE Head(s) = DQ -> <<BSL, DQ>> [] Head(s) = BSL -> <<BSL, BSL>> [] Head(s) = LF -> <<BSL, 110>>
                       [] Head(s) = TAB -> <<BSL, 116>> [] Head(s) = CR -> <<BSL, 114>> [] OTHER -> <<Head(s)>>) \o JsonBody(Tail(s))
OptionLine(v) == <<97, 108, 116, COLON, SP>> \o (IF DevUnquoted THEN v ELSE <<DQ>> \o JsonBody(v) \o <<DQ>>)     \* "alt: " value
(* options_to_items on that single line: [ok, value] *)
Decoded(v) ==
  LET b == Buf(OptionLine(v))
      k == Plain(b, 1, TRUE)                       \* the key "alt"
      c == ToNext(b, k.i)
  IN IF b[c] # COLON THEN [ok |-> FALSE, v |-> <<>>]
     ELSE LET j == ToNext(b, c + 1) IN
          IF Col(b, j) = 0 THEN [ok |-> TRUE, v |-> <<>>]
          ELSE IF b[j] \in {BAR, GT} THEN (LET r == Block(b, j) IN [ok |-> r.e = 0, v |-> r.v])
          ELSE IF b[j] \in {SQ, DQ} THEN (LET r == Flow(b, j) IN [ok |-> r.e = 0 /\ b[ToNext(b, r.i)] = NUL, v |-> r.v])
          ELSE LET r == Plain(b, j, FALSE) IN [ok |-> b[ToNext(b, r.i)] = NUL, v |-> r.v]
AttrStep == /\ Part = "attr" /\ pc = "start"
            /\ out' = LET d == Decoded(val) IN IF d.ok THEN <<"ok", d.v>> ELSE <<"error", <<>>>>
            /\ pc' = "done" /\ UNCHANGED <<elems, fimg, fadm, val>>
(* S: attribute values are carried over unchanged *)
ValueUnchanged == (Part = "attr" /\ pc = "done") => out = <<"ok", val>>

(* ------------------------------------------------------------------ filter ------------ *)
Delim == {" ", "/", ">"}
(* RE_FLOW: "<" "/"? NAME (?= delimiter): positions of "<" to neutralise *)
MatchAt(s, n) == /\ s[n] = "<"
                 /\ LET m == IF n + 1 <= Len(s) /\ s[n + 1] = "/" THEN n + 2 ELSE n + 1 IN
                    m + 1 <= Len(s) /\ s[m] = "S" /\ s[m + 1] \in Delim
RECURSIVE Scan(_, _, _)
Scan(s, n, acc) == IF n > Len(s) THEN acc
                   ELSE Scan(s, n + 1, Append(acc, IF MatchAt(s, n) THEN "&lt;" ELSE s[n]))
FilterStep == /\ Part = "filter" /\ pc = "start"
              /\ out' = Scan(val, 1, <<>>) /\ pc' = "done" /\ UNCHANGED <<elems, fimg, fadm, val>>
(* S: no occurrence of "<" "/"? disallowed-name delimiter survives; nothing else changes *)
Opens(s, n) == MatchAt(s, n)
Neutralised == (Part = "filter" /\ pc = "done") =>
                 /\ Len(out) = Len(val)
                 /\ \A n \in 1..Len(val) : IF Opens(val, n) THEN out[n] = "&lt;" ELSE out[n] = val[n]
                 /\ ~\E n \in 1..Len(out) : Opens(out, n)

(* ------------------------------------------------------------------ title -------------- *)
HasSub(tok) == tok \in {"title", "admonition-title", "subtitle", "card-title", "untitled"}     \* tokens that contain "title"
TitleStep == /\ Part = "title" /\ pc = "start"
             /\ out' = IF DevTitleSubstring
                        THEN (IF \E n \in 1..Len(val) : HasSub(val[n]) THEN <<"title">> ELSE <<"body">>)
                        ELSE (IF \E n \in 1..Len(val) : val[n] \in {"title", "admonition-title"} THEN <<"title">> ELSE <<"body">>)
             /\ pc' = "done" /\ UNCHANGED <<elems, fimg, fadm, val>>
(* S: only the documented title forms are titles; anything else stays in the body *)
TitleRule == (Part = "title" /\ pc = "done") =>
               (out = <<"title">>) = ("title" \in {val[n] : n \in 1..Len(val)} \/ "admonition-title" \in {val[n] : n \in 1..Len(val)})

Next == Classify \/ AttrStep \/ FilterStep \/ TitleStep
Spec == Init /\ [][Next]_vars /\ WF_vars(Next)
Done == pc = "done"
Terminates == <>Done
Emit == Done => PrintT(ToJson([part |-> Part, elems |-> elems, fimg |-> fimg, fadm |-> fadm, val |-> val, out |-> out]))
=============================================================================
