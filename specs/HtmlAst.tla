----------------------------- MODULE HtmlAst -----------------------------
(* C16 -- the HTML-to-AST stack machine of parsers/parse_html.py.                         *)
(* Input alphabet: the handler events of html.parser.HTMLParser                           *)
(*   <<"start", name, at>>  <<"startend", name, at>>  <<"end", name>>                      *)
(*   <<"data", d>> (d = "t" text | "w" white space only)                                   *)
(*   <<"comment">> <<"decl">> <<"pi">> <<"char">> <<"entity">>                             *)
(* State: the tree as it is in the implementation -- children lists AND parent pointers    *)
(* (Element._children / Element._parent), so that their consistency is a real invariant -- *)
(* and Tree.stack.  One action per event (nest_tag / nest_vtag / nest_xtag / enclose /     *)
(* nest_terminal); then API operators on the finished tree (strip, deepcopy, find).        *)
EXTENDS Naturals, Sequences, FiniteSets, TLC, Json

CONSTANTS Events,      \* the event alphabet (set of tuples)
          Void,        \* void element names
          MaxEv,       \* length bound
          RootName,    \* Tree(name): "" by default
          DevPopRoot   \* as-built before the fix: an end tag named like the root pops the root

VARIABLES evs,     \* events consumed so far
          nodes,   \* Seq of [k, n, a, d]: kind, name, attribute set, data kind
          kids,    \* [0..Len(nodes) -> Seq(id)]   (0 = the Root)
          par,     \* [1..Len(nodes) -> id]
          stack,   \* Seq(id), stack[1] = 0
          st       \* "run" | "crash" (IndexError on an empty stack)
vars == <<evs, nodes, kids, par, stack, st>>

Init == /\ evs = <<>> /\ nodes = <<>> /\ kids = (0 :> <<>>) /\ par = <<>> /\ stack = <<0>> /\ st = "run"

NameOf(id) == IF id = 0 THEN RootName ELSE nodes[id].n
Top == stack[Len(stack)]

(* append a new node under the top of the stack; push it if asked *)
Nest(node, push) ==
  LET id == Len(nodes) + 1 IN
  /\ nodes' = Append(nodes, node)
  /\ kids' = [k \in 0..id |-> IF k = id THEN <<>> ELSE IF k = Top THEN Append(kids[k], id) ELSE kids[k]]
  /\ par' = Append(par, Top)
  /\ stack' = IF push THEN Append(stack, id) ELSE stack

(* Tree.enclose: number of entries to pop = distance from the top to the nearest entry    *)
(* with that name, 0 if there is none.  The root is never popped (fix); with DevPopRoot    *)
(* it can be.                                                                              *)
PopCount(name) ==
  LET cand == {k \in 1..Len(stack) : NameOf(stack[k]) = name /\ (DevPopRoot \/ k > 1)} IN
  IF cand = {} THEN 0
  ELSE Len(stack) - (CHOOSE k \in cand : \A j \in cand : j <= k) + 1

Step(e) ==
  /\ st = "run" /\ Len(evs) < MaxEv
  /\ evs' = Append(evs, e)
  /\ IF stack = <<>> /\ e[1] # "end"
     THEN st' = "crash" /\ UNCHANGED <<nodes, kids, par, stack>>        \* self.stack[-1] on an empty deque
     ELSE /\ st' = "run"
          /\ CASE e[1] = "start" ->
                    IF e[2] \in Void THEN Nest([k |-> "VoidTag", n |-> e[2], a |-> e[3], d |-> ""], FALSE)
                    ELSE Nest([k |-> "Tag", n |-> e[2], a |-> e[3], d |-> ""], TRUE)
               [] e[1] = "startend" -> Nest([k |-> "XTag", n |-> e[2], a |-> e[3], d |-> ""], FALSE)
               [] e[1] = "end" ->
                    /\ stack' = IF e[2] \in Void THEN stack ELSE SubSeq(stack, 1, Len(stack) - PopCount(e[2]))
                    /\ UNCHANGED <<nodes, kids, par>>
               [] e[1] = "data" -> Nest([k |-> "Data", n |-> "", a |-> 0, d |-> e[2]], FALSE)
               [] OTHER -> Nest([k |-> CASE e[1] = "comment" -> "Comment" [] e[1] = "decl" -> "Declaration"
                                         [] e[1] = "pi" -> "Pi" [] e[1] = "char" -> "Char" [] OTHER -> "Entity",
                                 n |-> "", a |-> 0, d |-> "x"], FALSE)
(* environment assumption of the enumeration: adjacent text is reported as one data event *)
Next == \E e \in Events : /\ ~(e[1] = "data" /\ evs # <<>> /\ evs[Len(evs)][1] = "data")
                          /\ Step(e)
Spec == Init /\ [][Next]_vars

(************************************ S ************************************************)
Ids == 1..Len(nodes)
(* every element is reachable exactly once and each child's parent is its container *)
RECURSIVE WalkOf(_, _)
WalkOf(K, id) == LET RECURSIVE Cat(_)
                     Cat(s) == IF s = <<>> THEN <<>> ELSE <<Head(s)>> \o WalkOf(K, Head(s)) \o Cat(Tail(s))
                 IN Cat(K[id])
Consistent(K, P, n) ==
  /\ \A p \in DOMAIN K : \A j \in 1..Len(K[p]) : P[K[p][j]] = p
  /\ LET w == WalkOf(K, 0) IN Len(w) = n /\ {w[j] : j \in 1..Len(w)} = 1..n
TreeConsistent == st = "run" => Consistent(kids, par, Len(nodes))
(* creation order is document order *)
Preorder == st = "run" => WalkOf(kids, 0) = [j \in 1..Len(nodes) |-> j]
StackOK == st = "run" => /\ stack # <<>> /\ stack[1] = 0
                         /\ \A j \in 2..Len(stack) : nodes[stack[j]].k = "Tag" /\ par[stack[j]] = stack[j - 1]
NoCrash == st = "run"
OnlyTagsHaveKids == st = "run" => \A id \in Ids : kids[id] # <<>> => nodes[id].k = "Tag"

(* source form of an event / rendering of the tree, as symbolic token sequences *)
Src(e) == CASE e[1] = "start" -> <<<<"open", e[2], e[3]>>>>
            [] e[1] = "startend" -> <<<<"selfclose", e[2], e[3]>>>>
            [] e[1] = "end" -> <<<<"close", e[2]>>>>
            [] e[1] = "data" -> <<<<"data", e[2]>>>>
            [] OTHER -> <<<<e[1]>>>>
RECURSIVE SrcAll(_)
SrcAll(s) == IF s = <<>> THEN <<>> ELSE Src(Head(s)) \o SrcAll(Tail(s))
TermTok(nd) == CASE nd.k = "Data" -> <<"data", nd.d>> [] nd.k = "Comment" -> <<"comment">>
                 [] nd.k = "Declaration" -> <<"decl">> [] nd.k = "Pi" -> <<"pi">>
                 [] nd.k = "Char" -> <<"char">> [] OTHER -> <<"entity">>
RECURSIVE RenderOf(_, _, _)
RenderOf(N, K, id) ==
  LET RECURSIVE Cat(_)
      Cat(s) == IF s = <<>> THEN <<>> ELSE RenderOf(N, K, Head(s)) \o Cat(Tail(s))
  IN IF id = 0 THEN Cat(K[0])
     ELSE CASE N[id].k = "Tag" -> <<<<"open", N[id].n, N[id].a>>>> \o Cat(K[id]) \o <<<<"close", N[id].n>>>>
            [] N[id].k = "XTag" -> <<<<"selfclose", N[id].n, N[id].a>>>>
            [] N[id].k = "VoidTag" -> <<<<"open", N[id].n, N[id].a>>>>
            [] OTHER -> <<TermTok(N[id])>>
Render == RenderOf(nodes, kids, 0)

(* well-formed = balanced: every end tag closes the innermost open non-void element, void  *)
(* elements have no end tag, and everything is closed at the end                            *)
RECURSIVE BalancedFrom(_, _)
BalancedFrom(s, open) ==
  IF s = <<>> THEN open = <<>>
  ELSE LET e == Head(s) IN
       IF e[1] = "start" THEN BalancedFrom(Tail(s), IF e[2] \in Void THEN open ELSE Append(open, e[2]))
       ELSE IF e[1] = "end" THEN /\ open # <<>> /\ open[Len(open)] = e[2] /\ e[2] \notin Void
                                 /\ BalancedFrom(Tail(s), SubSeq(open, 1, Len(open) - 1))
       ELSE BalancedFrom(Tail(s), open)
Balanced == BalancedFrom(evs, <<>>)
RoundTrip == (st = "run" /\ Balanced) => Render = SrcAll(evs)

(* ---------------------------------------------------------------- API operators ------ *)
(* strip(recurse): drop white-space-only Data children (of `at`, and below if recurse)     *)
IsWs(id) == nodes[id].k = "Data" /\ nodes[id].d = "w"
RECURSIVE StripKids(_, _, _)
StripKids(K, at, recurse) ==
  LET kept == SelectSeq(K[at], LAMBDA c : ~IsWs(c))
      K1 == [K EXCEPT ![at] = kept]
      RECURSIVE Down(_, _)
      Down(KK, s) == IF s = <<>> THEN KK ELSE Down(StripKids(KK, Head(s), TRUE), Tail(s))
  IN IF recurse THEN Down(K1, kept) ELSE K1
(* rendering after strip: dropped nodes are simply no longer reachable *)
StripRender(recurse) == RenderOf(nodes, StripKids(kids, 0, recurse), 0)
(* find: filter of walk(), document order *)
Classes(a) == IF a = 1 THEN {"c"} ELSE IF a = 2 THEN {"c", "d"} ELSE {}       \* attribute sets 0: none, 1, 2, 3: alt=""
FindName(n) == SelectSeq(WalkOf(kids, 0), LAMBDA id : nodes[id].n = n)
FindClass(n, c) == SelectSeq(WalkOf(kids, 0), LAMBDA id : nodes[id].n = n /\ c \in Classes(nodes[id].a))
FindKind(k) == SelectSeq(WalkOf(kids, 0), LAMBDA id : nodes[id].k = k)
(* several classes: the element must carry ALL of them (none requested: every element of that name) *)
FindClasses(n, cs) == SelectSeq(WalkOf(kids, 0), LAMBDA id : nodes[id].n = n /\ cs \subseteq Classes(nodes[id].a))
(* find() called ON an element e: its children (recurse = FALSE) or all its descendants, optionally preceded by e itself *)
FirstA == LET f == FindName("a") IN IF f = <<>> THEN 0 ELSE f[1]
FindOn(e, n, incl, rec) ==
  (IF incl /\ e # 0 /\ nodes[e].n = n THEN <<e>> ELSE <<>>)
  \o SelectSeq(IF rec THEN WalkOf(kids, e) ELSE kids[e], LAMBDA id : nodes[id].n = n)
FindOrder == st = "run" => \A n \in {e[2] : e \in {x \in Events : x[1] = "start"}} :
               LET f == FindName(n) IN \A j \in 1..(Len(f) - 1) : f[j] < f[j + 1]

Terminal == Len(evs) = MaxEv \/ st # "run"
Emit == PrintT(ToJson([evs |-> evs, st |-> st, nodes |-> nodes,
                       kids |-> [j \in 1..(Len(nodes) + 1) |-> kids[j - 1]], par |-> par,
                       render |-> IF st = "run" THEN Render ELSE <<>>,
                       balanced |-> Balanced,
                       strip0 |-> IF st = "run" THEN StripRender(FALSE) ELSE <<>>,
                       strip1 |-> IF st = "run" THEN StripRender(TRUE) ELSE <<>>,
                       finda |-> IF st = "run" THEN FindName("a") ELSE <<>>,
                       findc |-> IF st = "run" THEN FindClass("a", "c") ELSE <<>>,
                       findcd |-> IF st = "run" THEN FindClasses("a", {"c", "d"}) ELSE <<>>,
                       finde |-> IF st = "run" THEN FindClasses("a", {}) ELSE <<>>,
                       firsta |-> IF st = "run" THEN FirstA ELSE 0,
                       findon |-> IF st = "run" THEN [j \in 1..4 |-> FindOn(FirstA, "a", j \in {1, 2}, j \in {1, 3})] ELSE <<>>,
                       findd |-> IF st = "run" THEN FindKind("Data") ELSE <<>>]))
=============================================================================
