----------------------------- MODULE Session -----------------------------
(* C15 -- output depends only on document and config: no leakage across parses / workers.    *)
(* Part "history": one process parses a sequence of documents.  The process state ps is what   *)
(* outlives a parse:                                                                           *)
(*   incspec  docutils' Include.option_spec carries the MyST-only options                      *)
(*   cfgext   the shared configuration's enable_extensions contains html_image                 *)
(*   invcache inventories loaded for an earlier document are reused (keyed by file path only) *)
(*   roles    a role defined through eval-rst is in docutils' registry (docutils' own design;  *)
(*            kept out of the histories, see DESIGN.md)                                        *)
(* Document kinds are chosen to touch or to observe a channel.  Parse(d): out = F(d, ps);      *)
(* the design leaves ps unchanged; Dev_* re-create the leaks (one repaired, one seeded).       *)
(* Part "build": a Sphinx build reads documents in chunks, each chunk in a forked worker that   *)
(* inherits the parent's state, and merges the workers' per-document data; S: the merged        *)
(* environment and every document's output equal the serial build's, for every partition.       *)
EXTENDS Naturals, Sequences, FiniteSets, TLC, Json

CONSTANTS Kinds, MaxHist,
          Docs, MaxWorkers,            \* build part: documents (each of some kind: DocKind) and workers
          DocKind,
          Part,
          DevIncludeSpecMutation,      \* as-built before the fix: a MyST include extends Include.option_spec for good
          DevSharedExtensionSet,       \* a seeded change: figure-md's temporary html_image stays in the shared set
          DevEnvAttribute,             \* a seeded change: heading slugs are kept in an env attribute that is not merged
          DevInventoryCache            \* a seeded change: loaded inventories are cached per file path for the whole process

PS0 == [incspec |-> FALSE, cfgext |-> FALSE, invcache |-> "none"]
(* what a document of kind k produces in process state ps (only the part that can depend on ps) *)
F(k, ps) == CASE k = "evalrst_include_opt" -> IF ps.incspec THEN "option accepted" ELSE "option error"
              [] k = "html_img" -> IF ps.cfgext THEN "image" ELSE "raw"
              \* the same inventory file configured with two base URLs (two configurations of the same document)
              [] k = "inv_stable" -> IF ps.invcache = "latest" THEN "latest url" ELSE "stable url"
              [] k = "inv_latest" -> IF ps.invcache = "stable" THEN "stable url" ELSE "latest url"
              [] OTHER -> "ok"
(* what parsing a document of kind k does to the process state *)
After(k, ps) == CASE k = "include" /\ DevIncludeSpecMutation -> [ps EXCEPT !.incspec = TRUE]
                  [] k = "figure_md" /\ DevSharedExtensionSet -> [ps EXCEPT !.cfgext = TRUE]
                  [] k = "inv_stable" /\ DevInventoryCache /\ ps.invcache = "none" -> [ps EXCEPT !.invcache = "stable"]
                  [] k = "inv_latest" /\ DevInventoryCache /\ ps.invcache = "none" -> [ps EXCEPT !.invcache = "latest"]
                  [] OTHER -> ps

Partitions(S, n) == {f \in [S -> 1..n] : TRUE}

VARIABLES hist, ps, outs,                 \* history part
          assign, order, wstate, merged, pc   \* build part
vars == <<hist, ps, outs, assign, order, wstate, merged, pc>>

Hists == UNION {[1..n -> Kinds] : n \in 0..MaxHist}
Init == /\ ps = PS0 /\ outs = <<>> /\ pc = "run"
        /\ IF Part = "history"
           THEN hist \in Hists /\ assign = <<>> /\ order = <<>> /\ wstate = <<>> /\ merged = {}
           ELSE /\ hist = <<>> /\ assign \in [Docs -> 1..MaxWorkers]
                /\ order \in {o \in [1..Cardinality(Docs) -> Docs] : \A a, b \in 1..Cardinality(Docs) : a # b => o[a] # o[b]}
                /\ wstate = [w \in 1..MaxWorkers |-> PS0] /\ merged = {}

Parse == /\ Part = "history" /\ pc = "run" /\ Len(outs) < Len(hist)
         /\ LET k == hist[Len(outs) + 1] IN
            /\ outs' = Append(outs, F(k, ps))
            /\ ps' = After(k, ps)
         /\ UNCHANGED <<hist, assign, order, wstate, merged, pc>>
EndHist == /\ Part = "history" /\ pc = "run" /\ Len(outs) = Len(hist) /\ pc' = "done"
           /\ UNCHANGED <<hist, ps, outs, assign, order, wstate, merged>>

(* build: the documents are read in `order`; document d by worker assign[d] (forked from the   *)
(* parent: starts from the parent's state PS0); per-document data is merged into the parent     *)
Read == /\ Part = "build" /\ pc = "run" /\ Len(outs) < Len(order)
        /\ LET d == order[Len(outs) + 1]
               w == assign[d]
               k == DocKind[d]
           IN /\ outs' = Append(outs, <<d, F(k, wstate[w])>>)
              /\ wstate' = [wstate EXCEPT ![w] = After(k, @)]
              /\ merged' = IF DevEnvAttribute /\ MaxWorkers > 1 /\ k = "anchors" THEN merged ELSE merged \cup {d}
        /\ UNCHANGED <<hist, ps, assign, order, pc>>
EndBuild == /\ Part = "build" /\ pc = "run" /\ Len(outs) = Len(order) /\ pc' = "done"
            /\ UNCHANGED <<hist, ps, outs, assign, order, wstate, merged>>

Next == Parse \/ EndHist \/ Read \/ EndBuild
Spec == Init /\ [][Next]_vars /\ WF_vars(Next)
Done == pc = "done"

(************************************ S ************************************************)
(* every output is what the document gives when parsed first in a fresh process *)
NonInterference == Part = "history" => \A n \in 1..Len(outs) : outs[n] = F(hist[n], PS0)
StateUntouched == Part = "history" => ps = PS0
(* a build gives every document its fresh output whatever the partition and order, and the      *)
(* per-document data of all documents reaches the parent                                        *)
ScheduleIndependent == Part = "build" => \A n \in 1..Len(outs) : outs[n][2] = F(DocKind[outs[n][1]], PS0)
MergedComplete == (Part = "build" /\ Done) => merged = Docs
Terminates == <>Done
Emit == Done => PrintT(ToJson([part |-> Part, hist |-> hist, outs |-> outs,
                               assign |-> IF Part = "build" THEN [n \in 1..Len(order) |-> <<order[n], assign[order[n]]>>] ELSE <<>>]))
=============================================================================
