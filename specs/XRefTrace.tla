----------------------------- MODULE XRefTrace -----------------------------
(* V leg of C12: recorded links of random larger Sphinx projects.  {id, proj, src, link,      *)
(* obs: {kind, uri, fk (index of the target heading whose section carries the fragment as an   *)
(* id; 0 = no fragment; 99 = a fragment that is no such id), ft (doc of that heading),         *)
(* text ("explicit" | "title" | "heading" | "literal" | "nothing" | "other"), td, tk, warns}}   *)
(* M's Classify / Resolve run on the logged project and link; the verdict compares.            *)
EXTENDS XRef, IOUtils

Traces == ndJsonDeserialize(IOEnv.TRACE_FILE)
VARIABLE tid
tvars == <<vars, tid>>
T == Traces[tid]
SetOf(s) == {s[n] : n \in 1..Len(s)}
TraceInit == /\ tid \in 1..Len(Traces)
             /\ proj = SetOf(Traces[tid].proj) /\ src = Traces[tid].src /\ link = Traces[tid].link
             /\ pc = "classify" /\ cls = <<>> /\ res = <<>>
TraceNext == Next /\ UNCHANGED tid
TraceSpec == TraceInit /\ [][TraceNext]_tvars

O == T.obs
(* an unresolved link is kept as a fallback reference, so "doc" and "missing" are both reference nodes *)
Bad == (IF (O.kind = "download") # (res.kind = "download") THEN {"kind"} ELSE {})
       \cup (IF O.warns # res.warns THEN {"warnings"} ELSE {})
       \cup (IF res.kind = "doc" /\ res.warns = 0 /\ O.uri # res.uri THEN {"uri"} ELSE {})
       \cup (IF res.kind = "doc" /\ res.frag[1] = "none" /\ O.fk # 0 THEN {"fragment"} ELSE {})
       \cup (IF res.kind = "doc" /\ res.frag[1] = "heading" /\ ~(O.fk = res.frag[3] /\ O.ft = res.frag[2]) THEN {"fragment"} ELSE {})
       \cup (IF res.text[1] \in {"explicit", "title", "heading"} /\ res.text[1] # O.text THEN {"text"} ELSE {})
       \cup (IF res.text[1] \in {"title", "heading"} /\ ~(O.td = res.text[2] /\ O.tk = res.text[3]) THEN {"text"} ELSE {})
Verdict == Done => PrintT(ToJson([id |-> T.id, bad |-> Bad, exp |-> res]))
=============================================================================
