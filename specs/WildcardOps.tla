----------------------------- MODULE WildcardOps -----------------------------
(* Pure operators shared by Wildcard (C19 translator), InvFilter and the trace specs. *)
EXTENDS Naturals, Sequences

STAR == 42
BS   == 92
Drop(s, k) == SubSeq(s, k + 1, Len(s))

(* S: the documented relation.  "\*" literal star, "*" any run, anything else itself. *)
RECURSIVE SMatch(_, _)
SMatch(p, n) ==
  IF p = <<>> THEN n = <<>>
  ELSE IF Len(p) >= 2 /\ p[1] = BS /\ p[2] = STAR
       THEN n # <<>> /\ n[1] = STAR /\ SMatch(Drop(p, 2), Tail(n))
  ELSE IF p[1] = STAR
       THEN \E k \in 0..Len(n) : SMatch(Tail(p), Drop(n, k))
  ELSE n # <<>> /\ n[1] = p[1] /\ SMatch(Tail(p), Tail(n))

(* an omitted pattern (None) is written <<0>> (code point 0 occurs in no pattern) *)
NONE == <<0>>
SMatchOpt(p, n) == IF p = NONE THEN TRUE ELSE SMatch(p, n)

(* M: regex as a token list and re.fullmatch on it *)
Lit(c) == <<"lit", c>>
Any    == <<"any">>

RECURSIVE RMatch(_, _)
RMatch(r, n) ==
  IF r = <<>> THEN n = <<>>
  ELSE IF r[1] = Any THEN \E k \in 0..Len(n) : RMatch(Tail(r), Drop(n, k))
  ELSE n # <<>> /\ n[1] = r[1][2] /\ RMatch(Tail(r), Tail(n))

(* one loop iteration of _create_regex on character c: <<re', bs'>> *)
StepChar(c, bs, re) ==
  IF bs /\ c = STAR THEN <<Append(re, Lit(STAR)), FALSE>>
  ELSE LET re1 == IF bs THEN Append(re, Lit(BS)) ELSE re IN
       IF c = BS        THEN <<re1, TRUE>>
       ELSE IF c = STAR THEN <<Append(re1, Any), FALSE>>
       ELSE                  <<Append(re1, Lit(c)), FALSE>>

FinishRe(bs, re, devDropTrailing) ==
  IF bs /\ ~devDropTrailing THEN Append(re, Lit(BS)) ELSE re

(* the whole run as an operator (Run of DESIGN 2): used by composing modules *)
RECURSIVE TranslateFrom(_, _, _, _, _)
TranslateFrom(p, k, bs, re, dev) ==
  IF k > Len(p) THEN FinishRe(bs, re, dev)
  ELSE LET s == StepChar(p[k], bs, re) IN TranslateFrom(p, k + 1, s[2], s[1], dev)
Translate(p, dev) == TranslateFrom(p, 1, FALSE, <<>>, dev)

MatchM(p, n, dev) == IF p = NONE THEN TRUE ELSE RMatch(Translate(p, dev), n)
=============================================================================
