----------------------------- MODULE Render -----------------------------
(* C02 / C03 -- the renderer core: the doctree is a faithful image of the Markdown token     *)
(* tree, and every produced document is a well-formed docutils tree.                         *)
(* Input alphabet: the pre-order walk of markdown-it's SyntaxTreeNode                         *)
(*   [e |-> "open" | "close" | "leaf", k |-> token kind, t |-> content, a |-> attributes]     *)
(* State (as in DocutilsRenderer): the tree under construction (nodes, children lists,        *)
(* parent pointers), current_node (cur), the stack of saved current nodes kept by             *)
(* current_node_context (ctx), the open section per heading level (lvl).                      *)
(* One action per token: Step dispatches on the token kind exactly like render_<type>.        *)
(* In "gen" mode a first phase generates every well-nested event sequence of a vocabulary     *)
(* slice (Grammar), so that TLC explores the renderer on all of them.                         *)
EXTENDS Naturals, Sequences, FiniteSets, TLC, Json

CONSTANTS Grammar,       \* [parent item kind -> set of child item kinds] ("root" is the document)
          MaxItems, MaxDepth,
          DevHrAnywhere, \* as-built before the fix: a thematic break is a transition wherever it occurs
          DevAltTextOnly \* as-built before the fix: an image's alt text keeps only "text" tokens (inline code, escapes, breaks lost)

(* ---------------------------------------------------------------- items -> events ---- *)
Ev(e, k, t, a) == [e |-> e, k |-> k, t |-> t, a |-> a]
Txt(n) == "x" \o ToString(n)
(* image destinations are carried over as written: also ones a path normaliser would rewrite *)
ImgSrc(n) == (CASE n % 3 = 0 -> "./im//i" [] n % 3 = 1 -> "i" [] OTHER -> "d/../i") \o ToString(n) \o ".png"
ContainerItems == {"blockquote", "bullet_list", "ordered_list", "list_item", "ipara", "iheading1", "iheading2",
                   "em", "strong", "link", "s", "dl", "dt", "dd", "img"}
OpenEvents(k, n) ==
  CASE k = "ipara" -> <<Ev("open", "paragraph", "", ""), Ev("open", "inline", "", "")>>
    [] k = "iheading1" -> <<Ev("open", "heading", "", "1"), Ev("open", "inline", "", "")>>
    [] k = "iheading2" -> <<Ev("open", "heading", "", "2"), Ev("open", "inline", "", "")>>
    [] k = "link" -> <<Ev("open", "link", "", "http://e.x/" \o ToString(n))>>
    [] k = "img" -> <<Ev("open", "image", "", ImgSrc(n))>>            \* an image whose label is generated
    [] k = "bullet_list" -> <<Ev("open", "bullet_list", "", "-")>>
    [] k = "ordered_list" -> <<Ev("open", "ordered_list", "", "arabic|.|")>>
    [] k \in {"dt", "dd"} -> <<Ev("open", k, "", "")>> \o (IF k = "dt" THEN <<Ev("open", "inline", "", "")>> ELSE <<>>)
    [] OTHER -> <<Ev("open", k, "", "")>>
CloseEvents(k) ==
  CASE k = "ipara" -> <<Ev("close", "inline", "", ""), Ev("close", "paragraph", "", "")>>
    [] k \in {"iheading1", "iheading2"} -> <<Ev("close", "inline", "", ""), Ev("close", "heading", "", "")>>
    [] k = "dt" -> <<Ev("close", "inline", "", ""), Ev("close", "dt", "", "")>>
    [] k = "img" -> <<Ev("close", "image", "", "")>>
    [] OTHER -> <<Ev("close", k, "", "")>>
Para(n) == <<Ev("open", "paragraph", "", ""), Ev("open", "inline", "", ""), Ev("leaf", "text", Txt(n), ""),
             Ev("close", "inline", "", ""), Ev("close", "paragraph", "", "")>>
Heading(l, n) == <<Ev("open", "heading", "", ToString(l)), Ev("open", "inline", "", ""), Ev("leaf", "text", Txt(n), ""),
                   Ev("close", "inline", "", ""), Ev("close", "heading", "", "")>>
(* a GFM table with c columns (the second one left-aligned) and r body rows; cell texts are unique *)
Cell(kind, n, r, c) == <<Ev("open", kind, "", IF c = 2 THEN "text-left" ELSE ""), Ev("open", "inline", "", ""),
                        Ev("leaf", "text", Txt(n) \o "r" \o ToString(r) \o "c" \o ToString(c), ""),
                        Ev("close", "inline", "", ""), Ev("close", kind, "", "")>>
RECURSIVE Cells(_, _, _, _)
Cells(kind, n, r, c) == IF c = 0 THEN <<>> ELSE Cells(kind, n, r, c - 1) \o Cell(kind, n, r, c)
RowEv(kind, n, r, c) == <<Ev("open", "tr", "", "")>> \o Cells(kind, n, r, c) \o <<Ev("close", "tr", "", "")>>
RECURSIVE Rows(_, _, _)
Rows(n, r, c) == IF r = 0 THEN <<>> ELSE Rows(n, r - 1, c) \o RowEv("td", n, r, c)
TableEv(n, c, r) == <<Ev("open", "table", "", ""), Ev("open", "thead", "", "")>> \o RowEv("th", n, 0, c) \o <<Ev("close", "thead", "", "")>>
                    \o (IF r = 0 THEN <<>> ELSE <<Ev("open", "tbody", "", "")>> \o Rows(n, r, c) \o <<Ev("close", "tbody", "", "")>>)
                    \o <<Ev("close", "table", "", "")>>
LeafEvents(k, n) ==
  CASE k = "para" -> Para(n)
    [] k = "tab10" -> TableEv(n, 1, 0) [] k = "tab21" -> TableEv(n, 2, 1) [] k = "tab22" -> TableEv(n, 2, 2) [] k = "tab31" -> TableEv(n, 3, 1)
    [] k = "h1" -> Heading(1, n) [] k = "h2" -> Heading(2, n) [] k = "h3" -> Heading(3, n) [] k = "h4" -> Heading(4, n)
    [] k = "hr" -> <<Ev("leaf", "hr", "", "")>>
    [] k = "code" -> <<Ev("leaf", "code_block", Txt(n) \o "\n", "")>>
    [] k = "fence" -> <<Ev("leaf", "fence", Txt(n) \o "\n", "python")>>
    [] k = "html_block" -> <<Ev("leaf", "html_block", "<div>" \o Txt(n) \o "</div>\n", "")>>
    [] k = "text" -> <<Ev("leaf", "text", Txt(n), "")>>
    [] k = "code_inline" -> <<Ev("leaf", "code_inline", Txt(n), "")>>
    [] k = "softbreak" -> <<Ev("leaf", "softbreak", "", "")>>
    [] k = "hardbreak" -> <<Ev("leaf", "hardbreak", "", "")>>
    [] k = "image" -> <<Ev("open", "image", "", ImgSrc(n)), Ev("leaf", "text", Txt(n), ""), Ev("close", "image", "", "")>>
    [] k = "html_inline" -> <<Ev("leaf", "html_inline", "<b>", "")>>
    [] k = "math_inline" -> <<Ev("leaf", "math_inline", Txt(n), "")>>
    [] OTHER -> <<Ev("leaf", k, Txt(n), "")>>

VARIABLES phase,            \* "gen" | "render" | "done"
          ev,               \* the event sequence
          gstack, items,    \* generation: open item kinds (with child counts), number of items so far
          lastleaf,         \* generation: kind of the previous sibling (no two adjacent text leaves / lists)
          pos, nodes, kids, par, cur, ctx, lvl
vars == <<phase, ev, gstack, items, lastleaf, pos, nodes, kids, par, cur, ctx, lvl>>

RInit == /\ pos = 1 /\ nodes = <<>> /\ kids = (0 :> <<>>) /\ par = <<>> /\ cur = 0 /\ ctx = <<>> /\ lvl = (0 :> 0)
Init == /\ phase = "gen" /\ ev = <<>> /\ gstack = <<>> /\ items = 0 /\ lastleaf = "" /\ RInit

(* ---------------------------------------------------------------- generation ---------- *)
GTop == IF gstack = <<>> THEN "root" ELSE gstack[Len(gstack)][1]
NoAdj(k) == ~(k = lastleaf /\ k \in {"text", "bullet_list", "ordered_list", "blockquote", "code", "html_block", "html_inline", "softbreak", "dl"})
            /\ ~(k = "softbreak" /\ lastleaf \in {"", "hardbreak"}) /\ ~(k = "hardbreak" /\ lastleaf \in {"", "softbreak"})
            /\ ~(k = "code" /\ lastleaf \in {"para", "ipara"})          \* (an indented block after a paragraph continues it)
            /\ ~(k = "dd" /\ lastleaf = "") /\ ~(k = "dt" /\ lastleaf = "dt")
            /\ ~(k \in {"em", "strong"} /\ lastleaf = k)
GenOpen(k) == /\ phase = "gen" /\ items < MaxItems /\ Len(gstack) < MaxDepth
              /\ k \in Grammar[GTop] /\ k \in ContainerItems /\ NoAdj(k)
              /\ ev' = ev \o OpenEvents(k, items + 1)
              /\ gstack' = Append(gstack, <<k, 0>>) /\ items' = items + 1 /\ lastleaf' = ""
              /\ UNCHANGED <<phase, pos, nodes, kids, par, cur, ctx, lvl>>
GenLeaf(k) == /\ phase = "gen" /\ items < MaxItems
              /\ k \in Grammar[GTop] /\ k \notin ContainerItems /\ NoAdj(k)
              /\ ev' = ev \o LeafEvents(k, items + 1)
              /\ gstack' = IF gstack = <<>> THEN gstack ELSE [gstack EXCEPT ![Len(gstack)] = <<@[1], @[2] + 1>>]
              /\ items' = items + 1 /\ lastleaf' = k
              /\ UNCHANGED <<phase, pos, nodes, kids, par, cur, ctx, lvl>>
GenClose == /\ phase = "gen" /\ gstack # <<>> /\ gstack[Len(gstack)][2] > 0         \* no empty containers
            /\ ~(lastleaf \in {"softbreak", "hardbreak"})                           \* a line break is never last
            /\ ev' = ev \o CloseEvents(GTop)
            /\ lastleaf' = GTop
            /\ gstack' = LET g == SubSeq(gstack, 1, Len(gstack) - 1) IN
                         IF g = <<>> THEN g ELSE [g EXCEPT ![Len(g)] = <<@[1], @[2] + 1>>]
            /\ UNCHANGED <<phase, items, pos, nodes, kids, par, cur, ctx, lvl>>
GenDone == /\ phase = "gen" /\ gstack = <<>> /\ phase' = "render"
           /\ UNCHANGED <<ev, gstack, items, lastleaf, pos, nodes, kids, par, cur, ctx, lvl>>

(* ---------------------------------------------------------------- rendering ----------- *)
KindOf(id) == IF id = 0 THEN "document" ELSE nodes[id].k
N(k, t, a) == [k |-> k, t |-> t, a |-> a]
(* append a sequence of new nodes as a chain: first under p, each next under the previous; *)
(* returns the new (nodes, kids, par)                                                      *)
RECURSIVE AddChain(_, _, _, _, _)
AddChain(ns, ks, ps, p, chain) ==
  IF chain = <<>> THEN <<ns, ks, ps>>
  ELSE LET id == Len(ns) + 1 IN
       AddChain(Append(ns, Head(chain)),
                [x \in DOMAIN ks \cup {id} |-> IF x = id THEN <<>> ELSE IF x = p THEN Append(ks[x], id) ELSE ks[x]],
                Append(ps, p), id, Tail(chain))
(* append several siblings under p *)
RECURSIVE AddSibs(_, _, _, _, _)
AddSibs(ns, ks, ps, p, sibs) ==
  IF sibs = <<>> THEN <<ns, ks, ps>>
  ELSE LET r == AddChain(ns, ks, ps, p, <<Head(sibs)>>) IN AddSibs(r[1], r[2], r[3], p, Tail(sibs))

SimpleMap == [paragraph |-> "paragraph", blockquote |-> "block_quote", bullet_list |-> "bullet_list",
              ordered_list |-> "enumerated_list", list_item |-> "list_item", em |-> "emphasis", strong |-> "strong",
              link |-> "reference", dl |-> "definition_list", thead |-> "thead", tbody |-> "tbody", tr |-> "row"]
InSectionLevel == KindOf(cur) \in {"document", "section"}
LastKid(id) == kids[id][Len(kids[id])]
(* number of header cells of the table that opens at event p *)
RECURSIVE CountTh(_, _)
CountTh(p, n) == IF p > Len(ev) \/ (ev[p].e = "close" /\ ev[p].k = "tr") THEN n
                 ELSE CountTh(p + 1, IF ev[p].e = "open" /\ ev[p].k = "th" THEN n + 1 ELSE n)

(* the close event that matches the open event at p *)
RECURSIVE MatchFrom(_, _)
MatchFrom(q, d) == IF ev[q].e = "open" THEN MatchFrom(q + 1, d + 1)
                   ELSE IF ev[q].e = "close" THEN (IF d = 1 THEN q ELSE MatchFrom(q + 1, d - 1))
                   ELSE MatchFrom(q + 1, d)
Match(p) == MatchFrom(p, 0)
(* renderInlineAsText over the sibling tokens p .. q-1 (the label of an image): text, inline code and *)
(* decoded escapes contribute their content, line breaks a newline, every other token its children   *)
RECURSIVE AltKids(_, _)
AltKids(p, q) ==
  IF p >= q THEN ""
  ELSE LET E == ev[p] IN
       IF E.e = "open" THEN AltKids(p + 1, Match(p)) \o AltKids(Match(p) + 1, q)
       ELSE (IF E.k = "text" \/ (~DevAltTextOnly /\ E.k \in {"code_inline", "text_special"}) THEN E.t
             ELSE IF ~DevAltTextOnly /\ E.k \in {"softbreak", "hardbreak"} THEN "\n" ELSE "")
            \o AltKids(p + 1, q)

Push(restore) == ctx' = Append(ctx, restore)
Set(r) == nodes' = r[1] /\ kids' = r[2] /\ par' = r[3]

Step ==
  /\ phase = "render" /\ pos <= Len(ev)
  /\ LET E == ev[pos] IN
     CASE E.e = "open" /\ E.k = "inline" ->                      \* render_inline: transparent
            Push(cur) /\ UNCHANGED <<nodes, kids, par, cur, lvl>>
       [] E.e = "open" /\ E.k = "image" ->                      \* render_image: one node; the label tokens only feed the alt text
            Set(AddChain(nodes, kids, par, cur, <<N("image", "", E.a \o "|" \o AltKids(pos + 1, Match(pos)))>>)) /\ UNCHANGED <<cur, ctx, lvl>>
       [] E.e = "open" /\ E.k \in DOMAIN SimpleMap ->
            LET r == AddChain(nodes, kids, par, cur, <<N(SimpleMap[E.k], "", E.a)>>) IN
            Set(r) /\ Push(cur) /\ cur' = Len(r[1]) /\ UNCHANGED lvl
       [] E.e = "open" /\ E.k = "heading" ->
            LET L == IF E.a = "1" THEN 1 ELSE IF E.a = "2" THEN 2 ELSE IF E.a = "3" THEN 3 ELSE IF E.a = "4" THEN 4 ELSE IF E.a = "5" THEN 5 ELSE 6 IN
            IF InSectionLevel
            THEN LET below == {l \in DOMAIN lvl : l < L}
                     pl == CHOOSE l \in below : \A m \in below : m <= l
                     r == AddChain(nodes, kids, par, lvl[pl], <<N("section", "", ""), N("title", "", "")>>)
                     sec == Len(r[1]) - 1
                 IN /\ Set(r) /\ Push(sec) /\ cur' = sec + 1             \* children go into the title; then current_node = section
                    /\ lvl' = [l \in {l \in DOMAIN lvl : l < L} \cup {L} |-> IF l = L THEN sec ELSE lvl[l]]
            ELSE LET r == AddChain(nodes, kids, par, cur, <<N("rubric", "", E.a)>>) IN
                 Set(r) /\ Push(cur) /\ cur' = Len(r[1]) /\ UNCHANGED lvl
       [] E.e = "open" /\ E.k = "s" ->                           \* raw <s>, children into the SAME node, raw </s>
            LET r == AddChain(nodes, kids, par, cur, <<N("raw", "<s>", "html")>>) IN
            Set(r) /\ Push(cur) /\ UNCHANGED <<cur, lvl>>
       [] E.e = "open" /\ E.k = "table" ->
            LET n == CountTh(pos, 0)
                r1 == AddChain(nodes, kids, par, cur, <<N("table", "", ""), N("tgroup", "", ToString(n))>>)
                tg == Len(r1[1])
                r2 == AddSibs(r1[1], r1[2], r1[3], tg, [j \in 1..n |-> N("colspec", "", "")])
            IN Set(r2) /\ Push(cur) /\ cur' = tg /\ UNCHANGED lvl
       [] E.e = "open" /\ E.k \in {"th", "td"} ->                 \* entry > paragraph > children
            LET r == AddChain(nodes, kids, par, cur, <<N("entry", "", E.a), N("paragraph", "", "")>>) IN
            Set(r) /\ Push(cur) /\ cur' = Len(r[1]) /\ UNCHANGED lvl
       [] E.e = "open" /\ E.k = "dt" ->                          \* definition_list_item > term > children
            LET r == AddChain(nodes, kids, par, cur, <<N("definition_list_item", "", ""), N("term", "", "")>>) IN
            Set(r) /\ Push(cur) /\ cur' = Len(r[1]) /\ UNCHANGED lvl
       [] E.e = "open" /\ E.k = "dd" ->                          \* under the item of the preceding term
            LET item == LastKid(cur)
                r == AddChain(nodes, kids, par, item, <<N("definition", "", "")>>) IN
            Set(r) /\ Push(cur) /\ cur' = Len(r[1]) /\ UNCHANGED lvl
       [] E.e = "close" /\ E.k = "s" ->
            LET r == AddChain(nodes, kids, par, cur, <<N("raw", "</s>", "html")>>) IN
            Set(r) /\ ctx' = SubSeq(ctx, 1, Len(ctx) - 1) /\ UNCHANGED <<cur, lvl>>
       [] E.e = "close" ->                                       \* current_node_context restores
            /\ cur' = ctx[Len(ctx)] /\ ctx' = SubSeq(ctx, 1, Len(ctx) - 1) /\ UNCHANGED <<nodes, kids, par, lvl>>
       [] E.e = "leaf" /\ E.k \in {"text", "softbreak"} ->
            LET t == IF E.k = "softbreak" THEN "\n" ELSE E.t IN
            IF kids[cur] # <<>> /\ KindOf(LastKid(cur)) = "#text"
            THEN /\ nodes' = [nodes EXCEPT ![LastKid(cur)].t = @ \o t]        \* (adjacent Text nodes read as one run)
                 /\ UNCHANGED <<kids, par, cur, ctx, lvl>>
            ELSE Set(AddChain(nodes, kids, par, cur, <<N("#text", t, "")>>)) /\ UNCHANGED <<cur, ctx, lvl>>
       [] E.e = "leaf" /\ E.k = "hardbreak" ->
            Set(AddSibs(nodes, kids, par, cur, <<N("raw", "<br />\n", "html"), N("raw", "\\\\\n", "latex")>>)) /\ UNCHANGED <<cur, ctx, lvl>>
       [] E.e = "leaf" /\ E.k = "hr" ->
            IF InSectionLevel \/ DevHrAnywhere
            THEN Set(AddChain(nodes, kids, par, cur, <<N("transition", "", "")>>)) /\ UNCHANGED <<cur, ctx, lvl>>
            ELSE Set(AddSibs(nodes, kids, par, cur, <<N("raw", "<hr class=\"docutils\" />\n", "html"),
                                                      N("raw", "\\noindent\\rule{\\textwidth}{0.4pt}\n", "latex")>>))
                 /\ UNCHANGED <<cur, ctx, lvl>>
       [] E.e = "leaf" ->
            LET nd == CASE E.k = "code_inline" -> N("literal", E.t, "")
                        [] E.k \in {"code_block", "fence"} -> N("literal_block", E.t, E.a)
                        [] E.k \in {"html_block", "html_inline"} -> N("raw", E.t, "html")
                        [] E.k \in {"math_inline", "math_single"} -> N("math", E.t, "")
                        [] E.k \in {"math_block", "math_inline_double"} -> N("math_block", E.t, "")
                        [] E.k = "myst_target" -> N("target", "", E.a)
                        [] E.k \in {"myst_line_comment", "myst_block_break"} -> N("comment", E.t, "")
                        [] OTHER -> N("?" \o E.k, E.t, E.a)
            IN Set(AddChain(nodes, kids, par, cur, <<nd>>)) /\ UNCHANGED <<cur, ctx, lvl>>
  /\ pos' = IF ev[pos].e = "open" /\ ev[pos].k = "image" THEN Match(pos) + 1 ELSE pos + 1
  /\ UNCHANGED <<phase, ev, gstack, items, lastleaf>>
Finish == /\ phase = "render" /\ pos > Len(ev) /\ phase' = "done"
          /\ UNCHANGED <<ev, gstack, items, lastleaf, pos, nodes, kids, par, cur, ctx, lvl>>

Next == (\E k \in UNION {Grammar[p] : p \in DOMAIN Grammar} : GenOpen(k) \/ GenLeaf(k)) \/ GenClose \/ GenDone \/ Step \/ Finish
Spec == Init /\ [][Next]_vars
Done == phase = "done"

(************************************ S (C02) ******************************************)
Ids == 1..Len(nodes)
RECURSIVE Walk(_)
Walk(id) == LET RECURSIVE Cat(_)
                Cat(s) == IF s = <<>> THEN <<>> ELSE <<Head(s)>> \o Walk(Head(s)) \o Cat(Tail(s))
            IN Cat(kids[id])
IsLeafNode(id) == kids[id] = <<>> /\ nodes[id].k \notin {"colspec"}
DocLeaves == SelectSeq(Walk(0), IsLeafNode)
(* the plain text of an image label: the text-bearing leaves between p and q, in source order *)
AltS(p, q) == LET idx == SelectSeq([j \in 1..(q - p - 1) |-> p + j], LAMBDA j : ev[j].e = "leaf" /\ ev[j].k \in {"text", "code_inline", "text_special", "softbreak", "hardbreak"})
                  RECURSIVE Cat(_)
                  Cat(sq) == IF sq = <<>> THEN "" ELSE (IF ev[Head(sq)].k \in {"softbreak", "hardbreak"} THEN "\n" ELSE ev[Head(sq)].t) \o Cat(Tail(sq))
              IN Cat(idx)
(* the image of the token leaves: what must appear, exactly once, in source order *)
RECURSIVE TokLeaves(_, _)
TokLeaves(p, acc) ==
  IF p > Len(ev) THEN acc
  ELSE LET E == ev[p]
           merge == E.e = "leaf" /\ E.k \in {"text", "softbreak"} /\ acc # <<>> /\ acc[Len(acc)][1] = "#text"
                    /\ p > 1 /\ ev[p - 1].e = "leaf" /\ ev[p - 1].k \in {"text", "softbreak"}
           t == IF E.k = "softbreak" THEN "\n" ELSE E.t
       IN IF E.e = "open" /\ E.k = "image" THEN TokLeaves(Match(p) + 1, Append(acc, <<"image", E.a \o "|" \o AltS(p, Match(p))>>))
          ELSE IF E.e = "open" /\ E.k = "s" THEN TokLeaves(p + 1, Append(acc, <<"raw", "<s>">>))
          ELSE IF E.e = "close" /\ E.k = "s" THEN TokLeaves(p + 1, Append(acc, <<"raw", "</s>">>))
          ELSE IF E.e # "leaf" THEN TokLeaves(p + 1, acc)
          ELSE IF merge THEN TokLeaves(p + 1, [acc EXCEPT ![Len(acc)] = <<"#text", @[2] \o t>>])
          ELSE IF E.k \in {"text", "softbreak"} THEN TokLeaves(p + 1, Append(acc, <<"#text", t>>))
          ELSE IF E.k = "hardbreak" THEN TokLeaves(p + 1, acc \o <<<<"raw", "<br />\n">>, <<"raw", "\\\\\n">>>>)
          ELSE IF E.k = "hr" THEN TokLeaves(p + 1, Append(acc, <<"hr", "">>))
          ELSE IF E.k = "code_inline" THEN TokLeaves(p + 1, Append(acc, <<"literal", E.t>>))
          ELSE IF E.k \in {"code_block", "fence"} THEN TokLeaves(p + 1, Append(acc, <<"literal_block", E.t>>))
          ELSE IF E.k \in {"html_block", "html_inline"} THEN TokLeaves(p + 1, Append(acc, <<"raw", E.t>>))
          ELSE IF E.k \in {"math_inline", "math_single"} THEN TokLeaves(p + 1, Append(acc, <<"math", E.t>>))
          ELSE TokLeaves(p + 1, Append(acc, <<E.k, E.t>>))
(* the leaves of the doctree in the same vocabulary; a thematic break inside a container is  *)
(* the pair of raw nodes, read back as one "hr"                                              *)
RECURSIVE LeafImg(_)
LeafImg(s) ==
  IF s = <<>> THEN <<>>
  ELSE LET nd == nodes[Head(s)] IN
       IF nd.k = "transition" THEN <<<<"hr", "">>>> \o LeafImg(Tail(s))
       ELSE IF nd.k = "raw" /\ nd.t = "<hr class=\"docutils\" />\n" /\ Len(s) >= 2 /\ nodes[s[2]].a = "latex"
            THEN <<<<"hr", "">>>> \o LeafImg(Tail(Tail(s)))
       ELSE IF nd.k = "image" THEN <<<<"image", nd.a>>>> \o LeafImg(Tail(s))
       ELSE IF nd.k \in {"title", "paragraph", "term", "entry", "rubric", "definition", "list_item", "block_quote", "emphasis", "strong", "reference", "section"}
            THEN LeafImg(Tail(s))              \* an empty container carries no leaf
       ELSE <<<<nd.k, nd.t>>>> \o LeafImg(Tail(s))
LeavesFaithful == Done => LeafImg(DocLeaves) = TokLeaves(1, <<>>)

(* container path of every leaf: token path under the kind map = doctree path (sections removed) *)
PathOf(id) == LET RECURSIVE Up(_)
                  Up(x) == IF x = 0 THEN <<>> ELSE Append(Up(par[x]), nodes[x].k)
              IN SelectSeq(Up(par[id]), LAMBDA k : k # "section")
KindImg(k, a) == CASE k = "inline" -> <<>> [] k = "heading" -> <<"title|rubric">> [] k \in {"th", "td"} -> <<"entry", "paragraph">>
                   [] k = "dt" -> <<"definition_list_item", "term">> [] k = "dd" -> <<"definition_list_item", "definition">>
                   [] k = "table" -> <<"table", "tgroup">> [] k = "s" -> <<>>
                   [] k \in DOMAIN SimpleMap -> <<SimpleMap[k]>> [] OTHER -> <<"?" \o k>>
RECURSIVE TokPaths(_, _, _)
TokPaths(p, stack, acc) ==
  IF p > Len(ev) THEN acc
  ELSE LET E == ev[p]
           flat == LET RECURSIVE F(_)
                       F(s) == IF s = <<>> THEN <<>> ELSE Head(s) \o F(Tail(s)) IN F(stack)
       IN IF E.e = "open" /\ E.k = "image" THEN TokPaths(Match(p) + 1, stack, Append(acc, flat))
          ELSE IF E.e = "open" THEN TokPaths(p + 1, Append(stack, KindImg(E.k, E.a)),
                                        IF E.k = "s" THEN Append(acc, flat) ELSE acc)
          ELSE IF E.e = "close" THEN TokPaths(p + 1, SubSeq(stack, 1, Len(stack) - 1),
                                              IF E.k = "s" THEN Append(acc, LET st == SubSeq(stack, 1, Len(stack) - 1)
                                                                               RECURSIVE F(_)
                                                                               F(s) == IF s = <<>> THEN <<>> ELSE Head(s) \o F(Tail(s)) IN F(st)) ELSE acc)
          ELSE IF E.k \in {"text", "softbreak"} /\ p > 1 /\ ev[p - 1].e = "leaf" /\ ev[p - 1].k \in {"text", "softbreak"} THEN TokPaths(p + 1, stack, acc)
          ELSE IF E.k = "hardbreak" THEN TokPaths(p + 1, stack, acc \o <<flat, flat>>)
          ELSE TokPaths(p + 1, stack, Append(acc, flat))
Norm(path) == [j \in 1..Len(path) |-> IF path[j] \in {"title", "rubric"} THEN "title|rubric" ELSE path[j]]
RealLeaves == SelectSeq(DocLeaves, LAMBDA id : nodes[id].k \notin {"title", "paragraph", "term", "entry", "rubric", "definition", "list_item", "block_quote", "emphasis", "strong", "reference", "section"}
                                               /\ ~(nodes[id].k = "raw" /\ nodes[id].a = "latex" /\ nodes[id].t = "\\noindent\\rule{\\textwidth}{0.4pt}\n"))
PathsFaithful == Done => [j \in 1..Len(RealLeaves) |-> Norm(PathOf(RealLeaves[j]))] = TokPaths(1, <<>>, <<>>)

(* the current_node discipline *)
CtxDepth == phase = "render" => Len(ctx) = Cardinality({p \in 1..(pos - 1) : ev[p].e = "open"}) - Cardinality({p \in 1..(pos - 1) : ev[p].e = "close"})
CtxEmptyAtEnd == Done => ctx = <<>>

(************************************ S (C03) ******************************************)
TreeConsistent == phase # "gen" =>
  /\ \A p \in DOMAIN kids : \A j \in 1..Len(kids[p]) : par[kids[p][j]] = p
  /\ LET w == Walk(0) IN Len(w) = Len(nodes) /\ {w[j] : j \in 1..Len(w)} = Ids
SectionPlacement == phase # "gen" => \A id \in Ids : nodes[id].k = "section" =>
                      /\ KindOf(par[id]) \in {"document", "section"}
                      /\ kids[id] # <<>> /\ nodes[kids[id][1]].k = "title"
TransitionPlacement == phase # "gen" => \A id \in Ids : nodes[id].k = "transition" => KindOf(par[id]) \in {"document", "section"}
RowWidth == Done => \A id \in Ids : nodes[id].k = "row" =>
              LET tg == par[par[id]] IN ToString(Len(kids[id])) = nodes[tg].a
TitleOnlyInSection == phase # "gen" => \A id \in Ids : nodes[id].k = "title" => KindOf(par[id]) = "section"

Emit == Done => PrintT(ToJson([ev |-> ev, nodes |-> nodes, par |-> par]))
=============================================================================
