----------------------------- MODULE Pipeline -----------------------------
(* The transform pipeline that follows a parse: the composition the other modules assume.   *)
(* docutils applies the transforms a reader / parser / writer registered in the order of    *)
(* (priority, registration serial).  MyST adds SortFootnotes, CollectFootnotes,              *)
(* ResolveAnchorIds (and, for docutils, UnreferencedFootnotesDetector) with priorities       *)
(* written RELATIVE to docutils' own transforms.  The modules Footnotes (C11) and Anchors    *)
(* (C09/C10) model their steps in a fixed order; this module states the order they rely on  *)
(* and checks it for the priorities EXTRACTED FROM THE WORKING TREE at check time.           *)
(*   Transforms: set of [name, prio, serial]  (serial = registration order)                  *)
(* M  Apply: the scheduler takes the pending transform with the least (prio, serial).        *)
(* S  Before(a, b): a is applied before b, for the pairs the other models depend on.          *)
EXTENDS Naturals, Sequences, FiniteSets, TLC, Json

CONSTANTS Transforms,
          Needs           \* set of <<a, b>>: transform a must have run before transform b (only checked if both are registered)

VARIABLES pending, applied
vars == <<pending, applied>>

Init == pending = Transforms /\ applied = <<>>
Least(S) == CHOOSE t \in S : \A u \in S : t.prio < u.prio \/ (t.prio = u.prio /\ t.serial <= u.serial)
Apply == /\ pending # {}
         /\ LET t == Least(pending) IN
            /\ applied' = Append(applied, t.name)
            /\ pending' = pending \ {t}
Next == Apply
Spec == Init /\ [][Next]_vars /\ WF_vars(Next)
Done == pending = {}

Pos(n) == CHOOSE i \in 1..Len(applied) : applied[i] = n
Registered(n) == \E t \in Transforms : t.name = n
(************************************ S ************************************************)
(* the order the footnote and anchor models are written in *)
StageOrder == Done => \A p \in Needs : (Registered(p[1]) /\ Registered(p[2])) => Pos(p[1]) < Pos(p[2])
(* no two registered transforms share (priority, serial): the schedule is deterministic *)
Deterministic == \A t, u \in Transforms : (t.prio = u.prio /\ t.serial = u.serial) => t = u
EachOnce == Done => /\ Len(applied) = Cardinality(Transforms)
                    /\ \A i, j \in 1..Len(applied) : i # j => applied[i] # applied[j]
Terminates == <>Done
Emit == Done => PrintT(ToJson([applied |-> applied]))
=============================================================================
