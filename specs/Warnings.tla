----------------------------- MODULE Warnings -----------------------------
(* C14 -- warnings: closed typed catalogue; suppression has no side effects.               *)
(* Three parts.                                                                             *)
(* 1. Catalogue and Sites are constants EXTRACTED FROM THE WORKING TREE at check time       *)
(*    (the MystWarnings enum; an AST scan of every warning-emitting call).  SitesTyped /    *)
(*    NoUntyped state the static clause; a change to the source can make them fail.         *)
(* 2. The suppression test: _is_suppressed_warning as a loop over the suppress list (M,     *)
(*    one action per entry) against the documented matching relation (S).                   *)
(* 3. Suppression as a self-composition: a document is a sequence of emitting render        *)
(*    actions; the run with the suppress list must equal the run without it, with exactly   *)
(*    the matching warnings filtered out (log and tree).  The two as-built side effects     *)
(*    are named Dev actions.                                                                *)
EXTENDS Naturals, Sequences, FiniteSets, TLC, Json

CONSTANTS Catalogue,        \* set of subtype strings (values of MystWarnings)
          Sites,            \* set of [file, func, api, type, subtype, how]
          KnownUntyped,     \* set of <<file, func>>: call sites listed as open findings (untyped / off-catalogue)
          Tags,             \* tags used in parts 2/3: set of <<type, subtype>>
          Entries,          \* suppress-list entries: set of <<target, subtarget>>, subtarget "" = none
          MaxList, MaxActs,
          DevBreakOnOtherType,   \* a seeded change: the loop stops at the first entry of another type
          DevFallbackText,       \* as-built: xref_missing fallback text depends on the warning node
          DevTransitionCounts,   \* as-built: the footnote transition depends on a warning node
          DevLoneSection         \* as-built (with docutils' doctitle transform on): a warning node at document level after the
                                 \* only top-level section keeps that section from being promoted to the document title

(* ---------------------------------------------------------------- part 1 ------------ *)
Static == {s \in Sites : s.how \in {"literal", "enum", "enum_value", "enum_name"}}
SitesTyped == \A s \in Static : (s.type = "myst" /\ <<s.file, s.func>> \notin KnownUntyped) => s.subtype \in Catalogue
NoUntyped == \A s \in Sites : s.how \in {"untyped", "missing"} => <<s.file, s.func>> \in KnownUntyped
(* every catalogue member has at least one static call site (the catalogue is not padded) *)
Used == {s.subtype : s \in {x \in Static : x.type = "myst"}}

(* ---------------------------------------------------------------- part 2 ------------ *)
Lists == UNION {[1..n -> Entries] : n \in 0..MaxList}
(* S: the documented relation *)
Matches(e, tag) == e[1] = tag[1] /\ e[2] \in {"", tag[2], "*"}
SSuppressed(tag, lst) == \E n \in 1..Len(lst) : Matches(lst[n], tag)

VARIABLES tag, lst, i, verdict,           \* part 2: the loop
          acts, k, outA, outB             \* part 3: the two runs (A: nothing suppressed, B: lst)
vars == <<tag, lst, i, verdict, acts, k, outA, outB>>

(* an emitting render action: what it builds besides the warning *)
ActKinds == {"plain",        \* builds a node, emits a warning appended to the tree
             "logonly",      \* emits a warning that is only logged
             "xref",         \* missing '#'-link with empty text: fallback text
             "fnote",        \* duplicate footnote definition as the only non-footnote child
             "docwarn"}      \* emits a warning appended to the DOCUMENT, after its only section
ActSeqs == UNION {[1..n -> (ActKinds \X Tags)] : n \in 0..MaxActs}

Init == /\ tag \in Tags /\ lst \in Lists /\ i = 1 /\ verdict = "run"
        /\ acts \in ActSeqs /\ k = 1 /\ outA = <<>> /\ outB = <<>>

Loop == /\ verdict = "run" /\ i <= Len(lst)
        /\ IF Matches(lst[i], tag) THEN verdict' = "suppressed" /\ i' = i
           ELSE IF DevBreakOnOtherType /\ lst[i][1] # tag[1] THEN verdict' = "shown" /\ i' = i
           ELSE i' = i + 1 /\ UNCHANGED verdict
        /\ UNCHANGED <<tag, lst, acts, k, outA, outB>>
LoopEnd == /\ verdict = "run" /\ i > Len(lst) /\ verdict' = "shown"
           /\ UNCHANGED <<tag, lst, i, acts, k, outA, outB>>

(* the operator form of the loop, used by part 3 *)
RECURSIVE MSupp(_, _, _)
MSupp(t, l, n) == IF n > Len(l) THEN FALSE
                  ELSE IF Matches(l[n], t) THEN TRUE
                  ELSE IF DevBreakOnOtherType /\ l[n][1] # t[1] THEN FALSE ELSE MSupp(t, l, n + 1)

(* one render action in a run with suppress list l: the items it adds to the output *)
Emitted(a, l) ==
  LET kind == a[1] t == a[2] sup == MSupp(t, l, 1)
      w == IF sup THEN <<>> ELSE <<<<"warn", t>>>>
  IN CASE kind = "plain" -> <<<<"node", "built">>>> \o w
       [] kind \in {"logonly", "docwarn"} -> w
       [] kind = "xref" -> (IF DevFallbackText /\ ~sup THEN <<<<"node", "ref-empty">>>> ELSE <<<<"node", "ref-with-fallback">>>>) \o w
       [] kind = "fnote" -> w \o (IF DevTransitionCounts /\ sup THEN <<>> ELSE <<<<"node", "transition">>>>)
Render == /\ verdict # "run" /\ k <= Len(acts)
          /\ outA' = outA \o Emitted(acts[k], <<>>)
          /\ outB' = outB \o Emitted(acts[k], lst)
          /\ k' = k + 1
          /\ UNCHANGED <<tag, lst, i, verdict, acts>>

(* docutils' DocTitle transform at the end of the run: the only top-level section becomes the document title *)
HasDocWarn(l) == \E n \in 1..Len(acts) : acts[n][1] = "docwarn" /\ ~MSupp(acts[n][2], l, 1)
Promoted(l) == IF DevLoneSection /\ HasDocWarn(l) THEN <<>> ELSE <<<<"node", "promoted">>>>
DocTitle == /\ verdict # "run" /\ k = Len(acts) + 1
            /\ outA' = outA \o Promoted(<<>>) /\ outB' = outB \o Promoted(lst)
            /\ k' = k + 1
            /\ UNCHANGED <<tag, lst, i, verdict, acts>>

Next == Loop \/ LoopEnd \/ Render \/ DocTitle
Spec == Init /\ [][Next]_vars /\ WF_vars(Next)
Done == verdict # "run" /\ k > Len(acts) + 1

(************************************ S ************************************************)
LoopCorrect == verdict # "run" => (verdict = "suppressed") = SSuppressed(tag, lst)
OperatorForm == verdict # "run" => MSupp(tag, lst, 1) = (verdict = "suppressed")
(* "removes exactly the warnings with that tag and changes nothing else" *)
Filter(out, l) == SelectSeq(out, LAMBDA it : ~(it[1] = "warn" /\ SSuppressed(it[2], l)))
NoSideEffects == outB = Filter(outA, lst)
Terminates == <>Done

Emit == Done /\ acts = <<>> => PrintT(ToJson([tag |-> tag, lst |-> lst, suppressed |-> (verdict = "suppressed")]))
=============================================================================
