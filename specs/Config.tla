----------------------------- MODULE Config -----------------------------
(* C13 -- configuration values are validated and normalised; front-matter overrides act    *)
(* like global settings; the global configuration is never modified by a parse.            *)
(* Fields are abstracted to validator kinds, values to <<form, id>>:                        *)
(*   form "canon"  the canonical spelling of value id                                       *)
(*        "alt"    an alternative accepted spelling of the same value (list for a set,      *)
(*                 list of names for a scheme dictionary, dotted path for a callable)       *)
(*        "bad"    a value outside the documented type                                      *)
(*   dictionary-merge fields carry <<"canon", d>> with d a function from keys to ids.       *)
(* M follows merge_file_level: Copy, then per update ValidateUpdate (a coercing validator   *)
(* writes the normalised value onto the instance it is given), Assign (merge + setattr of   *)
(* the raw value), Normalise (the validator run again on the assigned value), EndMerge.     *)
(* The Sphinx parser (WithRender) then renders the document with the resulting object: a    *)
(* document WITHOUT front matter is rendered with the global object itself (alias); with     *)
(* front matter, with the copy.  The figure-md directive adds html_image IN PLACE to the     *)
(* enable_extensions set of the object it is given (FigAdd), parses its body, and rebinds    *)
(* the attribute to a saved copy (FigRestore).  Object identity therefore matters: `shared`  *)
(* is the set of container fields whose object in the copy IS the global's object.  As built *)
(* copy() re-runs the validators, which build fresh containers (shared = {}).                *)
EXTENDS Naturals, Sequences, FiniteSets, TLC, Json

CONSTANTS KindOf,             \* function: field name -> kind
          Updates,            \* set of <<field, value>> a front matter may contain (incl. unknown fields)
          MaxDocs, MaxUpd,
          DevAssignRaw,       \* as-built before the fix: no Normalise step (the raw value stays)
          DevValidateOnGlobal,\* a seeded change: the validator is given the global object
          WithRender,         \* documents carry fm (has front matter) and fig (body uses figure-md); the render phase is modelled
          DevShallowCopy      \* a seeded change: the copy shares its containers with the global object

Fields == DOMAIN KindOf
Coercing == {"setc", "dictc", "call"}
Kinds == {"bool", "int", "list", "setc", "dictc", "call", "dictm"}

(* S: the documented type *)
Accept(k, v) == CASE k = "dictm" -> v[1] = "canon"
                  [] k \in Coercing -> v[1] \in {"canon", "alt"}
                  [] OTHER -> v[1] = "canon"
Canon(k, v) == IF k \in Coercing THEN <<"canon", v[2]>> ELSE v
MergeD(old, new) == [x \in DOMAIN old \cup DOMAIN new |-> IF x \in DOMAIN new THEN new[x] ELSE old[x]]

(* the table the harness binds real fields and value shapes to *)
Forms == {"canon", "alt", "bad"}
Table == [k \in Kinds |-> [f \in Forms |->
            LET v == IF k = "dictm" THEN <<f, <<>>>> ELSE <<f, 1>> IN
            [accept |-> Accept(k, v), stored |-> IF Accept(k, v) THEN Canon(k, v)[1] ELSE "-"]]]

UpdSeqs == UNION {[1..n -> Updates] : n \in 0..MaxUpd}

VARIABLES G,        \* the global configuration: field -> value
          new,      \* the per-document copy
          todo,     \* updates still to process
          cur,      \* the update being processed (after validation) or <<>>
          warns,    \* [myst.topmatter] warnings of the current parse
          pc,
          hist,     \* finished parses: Seq of [upd, fm, fig, eff, warns]
          alias,    \* the object being rendered with IS the global object (no front matter)
          shared,   \* container fields of the copy that are the global's own objects
          saved     \* figure-md's saved copy of enable_extensions
vars == <<G, new, todo, cur, warns, pc, hist, alias, shared, saved>>
FigField == "fs"
Containers == {f \in Fields : KindOf[f] \in {"setc", "dictc", "dictm", "list"}}
Plus(v) == <<v[1], v[2] + 100>>          \* the set with html_image added

G0 == [f \in Fields |-> IF KindOf[f] = "dictm" THEN <<"canon", ("k1" :> 1)>> ELSE <<"canon", 1>>]
Init == /\ G = G0 /\ new = G0 /\ todo = <<>> /\ cur = <<>> /\ warns = 0 /\ pc = "idle" /\ hist = <<>>
        /\ alias = FALSE /\ shared = {} /\ saved = <<>>

(* fm: the document has front matter (merge_file_level runs); fig: its body uses figure-md *)
StartDoc(U, fm, fig) ==
  /\ pc = "idle" /\ Len(hist) < MaxDocs
  /\ (~fm => U = <<>>)
  /\ todo' = U /\ new' = G /\ warns' = 0 /\ cur' = <<>> /\ saved' = <<>>
  /\ alias' = ~fm                                                             \* config = env.myst_config
  /\ shared' = IF fm /\ DevShallowCopy THEN Containers ELSE {}                \* new = config.copy()
  /\ pc' = IF fm THEN "validate" ELSE "render"
  /\ hist' = Append(hist, [upd |-> U, fm |-> fm, fig |-> fig, eff |-> <<>>, warns |-> 0])
  /\ UNCHANGED G
StartParse(U) == StartDoc(U, TRUE, FALSE)

ValidateUpdate ==
  /\ pc = "validate" /\ todo # <<>>
  /\ LET f == Head(todo)[1] v == Head(todo)[2] IN
     IF f \notin Fields \/ ~Accept(KindOf[f], v)
     THEN /\ warns' = warns + 1 /\ todo' = Tail(todo)                      \* unknown field / invalid value: one warning, ignored
          /\ UNCHANGED <<G, new, cur, pc, shared>>
     ELSE /\ cur' = Head(todo) /\ todo' = Tail(todo) /\ pc' = "assign"
          /\ IF KindOf[f] \in Coercing
             THEN IF DevValidateOnGlobal
                  THEN G' = [G EXCEPT ![f] = Canon(KindOf[f], v)] /\ UNCHANGED <<new, shared>>
                  ELSE new' = [new EXCEPT ![f] = Canon(KindOf[f], v)] /\ shared' = shared \ {f} /\ UNCHANGED G
             ELSE UNCHANGED <<G, new, shared>>
          /\ UNCHANGED warns
  /\ UNCHANGED <<hist, alias, saved>>

Assign == /\ pc = "assign"
          /\ LET f == cur[1] v == cur[2] IN
             new' = [new EXCEPT ![f] = IF KindOf[f] = "dictm" THEN <<"canon", MergeD(G[f][2], v[2])>> ELSE v]
          /\ shared' = shared \ {cur[1]}                                      \* setattr binds a new object
          /\ pc' = IF DevAssignRaw THEN "validate" ELSE "normalise"
          /\ UNCHANGED <<G, todo, cur, warns, hist, alias, saved>>

Normalise == /\ pc = "normalise"
             /\ new' = [new EXCEPT ![cur[1]] = Canon(KindOf[cur[1]], new[cur[1]])]
             /\ pc' = "validate"
             /\ UNCHANGED <<G, todo, cur, warns, hist, alias, shared, saved>>

(* merge_file_level returns; without the render phase that is the end of the parse *)
EndMerge == /\ pc = "validate" /\ todo = <<>>
            /\ hist' = [hist EXCEPT ![Len(hist)] = [@ EXCEPT !.eff = new, !.warns = warns]]
            /\ pc' = IF WithRender THEN "render" ELSE "idle"
            /\ UNCHANGED <<G, new, todo, cur, warns, alias, shared, saved>>
EndParse == ~WithRender /\ EndMerge

(* figure-md: md_config.enable_extensions.add("html_image") -- in place, on whatever object that is *)
FigAdd == /\ pc = "render" /\ hist[Len(hist)].fig
          /\ saved' = new[FigField]                                            \* copy(md_config.enable_extensions)
          /\ new' = [new EXCEPT ![FigField] = Plus(@)]
          /\ G' = IF alias \/ FigField \in shared THEN [G EXCEPT ![FigField] = Plus(@)] ELSE G
          /\ pc' = "fig"
          /\ UNCHANGED <<todo, cur, warns, hist, alias, shared>>
(* finally: md_config.enable_extensions = saved copy -- rebinds the attribute of the object rendered with *)
FigRestore == /\ pc = "fig"
              /\ new' = [new EXCEPT ![FigField] = saved]
              /\ G' = IF alias THEN [G EXCEPT ![FigField] = saved] ELSE G
              /\ shared' = shared \ {FigField}
              /\ pc' = "rendered"
              /\ UNCHANGED <<todo, cur, warns, hist, alias, saved>>
EndRender == /\ WithRender /\ (pc = "rendered" \/ (pc = "render" /\ ~hist[Len(hist)].fig))
             /\ hist' = [hist EXCEPT ![Len(hist)] = [@ EXCEPT !.eff = new, !.warns = warns]]
             /\ pc' = "idle"
             /\ UNCHANGED <<G, new, todo, cur, warns, alias, shared, saved>>

Next == \/ (~WithRender /\ \E U \in UpdSeqs : StartParse(U))
        \/ (WithRender /\ \E U \in UpdSeqs, fm, fig \in BOOLEAN : StartDoc(U, fm, fig))
        \/ ValidateUpdate \/ Assign \/ Normalise \/ EndMerge \/ FigAdd \/ FigRestore \/ EndRender
Spec == Init /\ [][Next]_vars

(************************************ S ************************************************)
(* the effective configuration of a document, declaratively: fold of the accepted updates  *)
RECURSIVE DeclEff(_, _)
DeclEff(cfg, U) ==
  IF U = <<>> THEN cfg
  ELSE LET f == Head(U)[1] v == Head(U)[2] IN
       IF f \notin Fields \/ ~Accept(KindOf[f], v) THEN DeclEff(cfg, Tail(U))
       ELSE DeclEff([cfg EXCEPT ![f] = IF KindOf[f] = "dictm" THEN <<"canon", MergeD(G0[f][2], v[2])>>
                                       ELSE Canon(KindOf[f], v)], Tail(U))
DeclWarns(U) == Cardinality({n \in 1..Len(U) : U[n][1] \notin Fields \/ ~Accept(KindOf[U[n][1]], U[n][2])})

(* the one sanctioned exception (as built): while a figure-md body of a document WITHOUT front  *)
(* matter is being parsed, the global object itself carries the temporary html_image            *)
GlobalImmutable == (pc = "fig" /\ alias) \/ G = G0
GlobalNeverWritten == [][G' = G \/ alias]_vars
Finished(n) == n < Len(hist) \/ (n = Len(hist) /\ pc = "idle")
EffectRule == \A n \in 1..Len(hist) : Finished(n) =>
                /\ hist[n].eff = DeclEff(G0, hist[n].upd)          \* = the configuration built globally from the same values
                /\ hist[n].warns = DeclWarns(hist[n].upd)          \* one warning per ignored entry, nothing else
Normalised == \A n \in 1..Len(hist) : Finished(n) => \A f \in Fields : hist[n].eff[f][1] = "canon"
(* a document without front matter sees exactly the global configuration *)
NoLeak == \A n \in 1..Len(hist) : (Finished(n) /\ hist[n].upd = <<>>) => hist[n].eff = G0

Terminal == pc = "idle" /\ Len(hist) = MaxDocs
Emit == Terminal => PrintT(ToJson([hist |-> hist]))
TableOut == PrintT(ToJson([table |-> Table]))
=============================================================================
