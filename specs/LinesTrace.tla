----------------------------- MODULE LinesTrace -----------------------------
(* V leg of C04: recorded renders of generated documents in which every construct carries a  *)
(* unique marker.  {id, path, pre, leaf, obs: [[line, src]] one per mark (frames that leave a *)
(* node, then the leaf)}.  M's actions run on the logged layout; S (TrueLines) is an          *)
(* invariant of the same run; the verdict compares the observed line/source of every mark     *)
(* with M's.                                                                                  *)
EXTENDS Lines, IOUtils

Traces == ndJsonDeserialize(IOEnv.TRACE_FILE)
VARIABLE tid
tvars == <<vars, tid>>
T == Traces[tid]

TraceInit == /\ tid \in 1..Len(Traces)
             /\ path = Traces[tid].path /\ pre = Traces[tid].pre /\ leaf = Traces[tid].leaf
             /\ k = 1 /\ base = 0 /\ row = pre /\ src = 0 /\ abs = pre + 1 /\ ssrc = 0 /\ marks = <<>> /\ inner = <<>>
TraceNext == Next /\ UNCHANGED tid
TraceSpec == TraceInit /\ [][TraceNext]_tvars

(* the block_quote node that docutils' quote directives (epigraph, ...) return gets its line from docutils' *)
(* own BlockQuote code, not from MyST: its own mark is not compared, everything inside it is              *)
Bad == {n \in 1..Len(marks) : (n > Len(T.obs) \/ T.obs[n][1] # marks[n].m \/ T.obs[n][2] # marks[n].src)}
Verdict == Done => PrintT(ToJson([id |-> T.id, bad |-> Bad, n |-> Len(marks),
                                  exp |-> [n \in 1..Len(marks) |-> <<marks[n].what, marks[n].m, marks[n].src>>]]))
=============================================================================
