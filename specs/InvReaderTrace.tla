----------------------------- MODULE InvReaderTrace -----------------------------
(* V leg of C18: executions of inventory.load() on real files through a chunk-limited  *)
(* stream that logs what every read() returned.  One trace per load:                    *)
(*  {id, v2: bool, plain: [bytes], body: [bytes] (v2: decompressed), clen: compressed    *)
(*   length, reads: [[k, j, d]...] (plain bytes, compressed bytes, bytes the shadow      *)
(*   decompressor released for them), result: "ok"|"error", lines: [bytes of each entry  *)
(*   line that load() returned, in order], proj: [...], vers: [...]}                     *)
(* The reads are replayed through M's own ReadMoreR/BodyChunkR; everything else          *)
(* (TakeLine, Split, ...) is M's unlogged internal step.                                  *)
EXTENDS InvReader, IOUtils

Traces == ndJsonDeserialize(IOEnv.TRACE_FILE)
VARIABLES tid, rpos
tvars == <<vars, tid, rpos>>
T == Traces[tid]

RealV1 == <<35,32,83,112,104,105,110,120,32,105,110,118,101,110,116,111,114,121,32,118,101,114,115,105,111,110,32,49>>
RealV2 == <<35,32,83,112,104,105,110,120,32,105,110,118,101,110,116,111,114,121,32,118,101,114,115,105,111,110,32,50>>
RealZ  == <<122,108,105,98>>

TraceInit == /\ tid \in 1..Len(Traces) /\ rpos = 1
             /\ file = Traces[tid].plain /\ body = Traces[tid].body /\ isv2 = Traces[tid].v2
             /\ stream = Traces[tid].plain
             /\ zleft = (IF Traces[tid].v2 THEN Traces[tid].body ELSE <<>>)
             /\ cleft = Traces[tid].clen
             /\ ver = 0 /\ buffer = <<>> /\ eof = FALSE /\ phase = "h1" /\ hdr = <<>>
             /\ dbuf = <<>> /\ out = <<>>

NextRead == <<T.reads[rpos][1], T.reads[rpos][2], T.reads[rpos][3]>>
TraceRead == /\ rpos <= Len(T.reads)
             /\ (ReadMoreR(NextRead) \/ BodyChunkR(NextRead))
             /\ rpos' = rpos + 1 /\ UNCHANGED tid
TraceSilent == (TakeLine \/ TakeRest \/ V1Last \/ Split \/ Finish) /\ UNCHANGED <<tid, rpos>>
TraceNext == TraceRead \/ TraceSilent
TraceSpec == TraceInit /\ [][TraceNext]_tvars

(* lines the reader delivered, minus those the entry parser skips (logged as such) *)
Skipped == {T.skipped[x] : x \in 1..Len(T.skipped)}
Observable == SelectSeq(out, LAMBDA l : l # <<>> /\ l \notin Skipped)
Ended == phase \in {"done", "error"}
Stuck == ~Ended /\ ~ENABLED TraceNext
Verdict ==
  /\ Ended => PrintT(ToJson([id |-> T.id,
                  ok |-> /\ rpos = Len(T.reads) + 1
                         /\ (phase = "error") = (T.result = "error")
                         /\ (phase = "done" => /\ Observable = T.lines
                                               /\ Drop(hdr[2], 11) = T.proj
                                               /\ Drop(hdr[3], 11) = T.vers),
                  why |-> IF rpos # Len(T.reads) + 1 THEN "the code read the stream a different number of times than the specification"
                          ELSE IF (phase = "error") # (T.result = "error") THEN "error/ok outcome differs"
                          ELSE IF phase = "done" /\ Observable # T.lines THEN "entry lines differ"
                          ELSE "header fields differ"]))
  /\ Stuck => PrintT(ToJson([id |-> T.id, ok |-> FALSE, why |-> "logged read not allowed by the specification in this state"]))
=============================================================================
