#!/bin/sh
# tools/seedall.sh C01 C03 ...: re-confirm and re-test the seeded changes of the given properties
# (patch applied in a scratch worktree /tmp/seed/<Cxx>; /repo is never touched)
for p in "$@"; do
  wt=/tmp/seed/$p
  if [ ! -d "$wt" ]; then git -C /repo worktree add --detach "$wt" HEAD -q; fi
  for d in /verif/seeded/$p-m*; do
    [ -d "$d" ] || continue
    m=$(basename "$d" | sed "s/^$p-//")
    if [ ! -d "$wt/_seed/$m" ]; then mkdir -p "$wt/_seed/$m"; cp "$d/patch.diff" "$d/demo.py" "$wt/_seed/$m/"; python3 - "$d/meta.json" "$wt/_seed/$m/meta.json" <<'PY'
import json,sys
m=json.load(open(sys.argv[1])); json.dump({k:m[k] for k in ("property","summary","needs") if k in m}, open(sys.argv[2],"w"))
PY
    fi
  done
  for md in "$wt"/_seed/m*; do
    [ -d "$md" ] || continue
    m=$(basename "$md")
    git -C "$wt" checkout -q -- . 2>/dev/null
    python3 /verif/tools/seedtest.py "$p" "$m" > "/tmp/seed/${p}_${m}.log" 2>&1
    tail -1 "/tmp/seed/${p}_${m}.log" | cut -c1-200
  done
done
