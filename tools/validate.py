#!/usr/bin/env python3
"""Validate MANIFEST.json and every evidence/*.json against the schemas (run with python3-vt, which has jsonschema)."""
import json, sys, glob
import jsonschema
ok = True
man = json.load(open("/verif/MANIFEST.json"))
try:
    jsonschema.validate(man, json.load(open("/root/.vp/MANIFEST.schema.json")))
    print("MANIFEST ok:", len(man["checks"]), "checks,", len(man.get("not_applicable", [])), "not_applicable")
except jsonschema.ValidationError as e:
    ok = False; print("MANIFEST INVALID:", e.message[:300])
es = json.load(open("/root/.vp/EVIDENCE.schema.json"))
for f in sorted(glob.glob("/verif/evidence/*.json")):
    try:
        jsonschema.validate(json.load(open(f)), es)
        print("ok", f)
    except jsonschema.ValidationError as e:
        ok = False; print("INVALID", f, e.message[:300])
sys.exit(0 if ok else 1)
