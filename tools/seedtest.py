#!/usr/bin/env python3
"""tools/seedtest.py <Cxx> <mN> [--checks C05,C04]: confirm a seeded change in its scratch worktree
(tests still pass, demo fails with / passes without), store it under /verif/seeded/, then apply it to
/repo, run the quick check(s), and undo it."""
import json, os, subprocess, sys, shutil, tempfile
import xml.etree.ElementTree as ET

pid, m = sys.argv[1], sys.argv[2]
checks = [pid]
if "--checks" in sys.argv:
    checks = sys.argv[sys.argv.index("--checks") + 1].split(",")
wt = f"{os.environ.get('SEED_ROOT', '/tmp/seed')}/{pid}"
sd = f"{wt}/_seed/{m}"
dest = f"/verif/seeded/{pid}-{m}"
patch = f"{sd}/patch.diff"
env = dict(os.environ, PYTHONPATH=wt, PYTHONHASHSEED="0")


def sh(cmd, **kw):
    return subprocess.run(cmd, shell=True, capture_output=True, text=True, **kw)


def tests_pass(cwd):
    b = json.load(open("/root/.vp/BASELINE.json"))
    out = tempfile.mktemp(suffix=".xml", dir="/tmp")
    subprocess.run(f"cd {cwd} && /venv/bin/python -m pytest -q -p no:cacheprovider --timeout=900 --continue-on-collection-errors --junitxml={out}",
                   shell=True, env=env, stdout=subprocess.DEVNULL, stderr=subprocess.DEVNULL)
    passed = set()
    for tc in ET.parse(out).getroot().iter("testcase"):
        if not any(ch.tag in ("failure", "error", "skipped") for ch in tc):
            passed.add(f"{tc.get('classname')}::{tc.get('name')}")
    os.unlink(out)
    return [t for t in b["stable_pass"] if t not in passed]


res = {"property": pid, "seed": m}
assert sh(f"git -C {wt} status --porcelain --untracked-files=no").stdout.strip() == "", "worktree dirty"
# the agent worktrees were created before later fix: commits; bring them to /repo HEAD
sh(f"git -C {wt} checkout -q --detach $(git -C /repo rev-parse HEAD)")
r = sh(f"cd {wt} && /venv/bin/python _seed/{m}/demo.py", env=env)
res["demo_unpatched_exit"] = r.returncode
a = sh(f"git -C {wt} apply {patch}")
if a.returncode != 0:
    print("patch does not apply to current HEAD:", a.stderr[:500]); sys.exit(3)
r = sh(f"cd {wt} && /venv/bin/python _seed/{m}/demo.py", env=env)
res["demo_patched_exit"] = r.returncode
res["demo_patched_output"] = (r.stdout + r.stderr)[-600:]
missing = tests_pass(wt)
res["tests_missing_with_patch"] = missing[:5]
sh(f"git -C {wt} checkout -- .")
ok = res["demo_unpatched_exit"] == 0 and res["demo_patched_exit"] != 0 and not missing
res["confirmed"] = ok
print(json.dumps({k: v for k, v in res.items() if k != "demo_patched_output"}))
if not ok:
    print("NOT CONFIRMED", res.get("demo_patched_output", "")); sys.exit(4)
os.makedirs(dest, exist_ok=True)
shutil.copy(patch, dest + "/patch.diff")
shutil.copy(f"{sd}/demo.py", dest + "/demo.py")
meta = json.load(open(f"{sd}/meta.json"))
# run our checks against it: in the scratch worktree (VERIF_REPO), so that /repo stays untouched
# and several seeds can be tested while other checks run; evidence/replays are redirected
a = sh(f"git -C {wt} apply {dest}/patch.diff")
assert a.returncode == 0, a.stderr
detected = {}
cenv = dict(os.environ, VERIF_REPO=wt, VERIF_EVIDENCE_DIR=f"/tmp/seed/ev_{pid}_{m}", VERIF_REPLAYS_DIR=f"/tmp/seed/ev_{pid}_{m}")
try:
    for c in checks:
        r = sh(f"cd /verif && ./check {c} --tier quick", env=cenv)
        viol = [l for l in r.stdout.splitlines() if l.startswith("VIOLATION") or l.startswith("  clause") or l.startswith("MACHINERY")]
        detected[c] = {"exit": r.returncode, "lines": [v[:400] for v in viol[:3]]}
        print(c, "exit", r.returncode, [v[:300] for v in viol[:2]])
finally:
    sh(f"git -C {wt} checkout -- .")
    shutil.rmtree(f"/tmp/seed/ev_{pid}_{m}", ignore_errors=True)
meta.update({"breaks": pid, "confirmed_by": "tools/seedtest.py: repo test suite (BASELINE stable_pass) still passes with the patch; demo.py exits 0 without and non-zero with the patch",
             "what_i_ran": f"tools/seedtest.py {pid} {m} --checks {','.join(checks)} (patch applied in the scratch worktree, checks run with VERIF_REPO pointing at it; equivalent to git -C /repo apply + ./check + git checkout)",
             "detected_by_quick_check": {c: d["exit"] == 1 for c, d in detected.items()},
             "detail": detected})
json.dump(meta, open(dest + "/meta.json", "w"), indent=1)
