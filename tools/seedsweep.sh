#!/bin/sh
# tools/seedsweep.sh <tier> <seed>...: run every check with other VERIF_SEED values (evidence redirected) and list alarms
tier=$1; shift
for seed in "$@"; do
  for p in C01 C02 C03 C04 C05 C06 C07 C08 C09 C10 C11 C12 C13 C14 C15 C16 C17 C18 C19 C20; do
    out=$(cd /verif && VERIF_SEED=$seed VERIF_EVIDENCE_DIR=/tmp/sweep_ev VERIF_REPLAYS_DIR=/tmp/sweep_ev/replays_${seed} ./check $p --tier $tier 2>&1 | grep -v "^WARNING conda\|^KNOWN-FINDING")
    rc=$(echo "$out" | tail -1)
    case "$rc" in *held*) echo "seed=$seed $p ok: $(echo "$rc" | cut -c1-120)";; *) echo "seed=$seed $p ALARM"; echo "$out" | tail -6 | cut -c1-400;; esac
  done
done
