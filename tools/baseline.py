#!/usr/bin/env python3
"""Run the repository's pinned baseline (guard off) and compare with BASELINE.json's stable_pass."""
import json, subprocess, sys, tempfile, os
import xml.etree.ElementTree as ET
b = json.load(open("/root/.vp/BASELINE.json"))
out = tempfile.mktemp(suffix=".xml", dir="/tmp")
cmd = b["cmd"].replace("<file>", out)
env = dict(os.environ); env.pop("MYST_PARSER_VERIF", None)
subprocess.run(cmd, shell=True, env=env, stdout=subprocess.DEVNULL, stderr=subprocess.DEVNULL)
passed = set()
for tc in ET.parse(out).getroot().iter("testcase"):
    if not any(ch.tag in ("failure", "error", "skipped") for ch in tc):
        passed.add(f"{tc.get('classname')}::{tc.get('name')}")
os.unlink(out)
missing = [t for t in b["stable_pass"] if t not in passed]
print(f"stable_pass={len(b['stable_pass'])} passed_now={len(passed)} missing={len(missing)}")
for t in missing[:20]:
    print("  MISSING", t)
sys.exit(1 if missing else 0)
